#!/bin/sh
# Build the fact-extraction driver (offline, nightly toolchain with rustc-dev) and warm the
# dependency artefacts of /repo for the analysis build.
set -e
HERE="$(cd "$(dirname "$0")" && pwd)"
export CARGO_NET_OFFLINE=true
cd "$HERE/driver"
cargo build --offline --quiet
cd "$HERE"
python3 rules/extract.py default >/dev/null
echo "setup ok"
