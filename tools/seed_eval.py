#!/usr/bin/env python3
"""Confirm an independently written breaking change and run every check against it.

usage: seed_eval.py confirm <dir>        # dir holds patch.diff + demo.rs ; confirms (a) tests pass with the
                                         # change, demo fails with it, (b) demo passes without it
       seed_eval.py detect  <dir> [...]  # applies patch.diff to a scratch copy of /repo (never /repo itself),
                                         # runs all claimed checks with --repo, prints the new violation keys
Scratch copies live under /tmp/cfr-seedeval and are removed afterwards together with their build output.
"""
import json
import os
import shutil
import subprocess
import sys
import time

HERE = os.path.dirname(os.path.abspath(__file__))
VERIF = os.path.dirname(HERE)
sys.path.insert(0, os.path.join(VERIF, 'rules'))
import extract  # noqa: E402
import selftest  # noqa: E402

SCR = '/tmp/cfr-seedeval'


def sh(cmd, cwd, timeout=1800):
    env = dict(os.environ, CARGO_NET_OFFLINE='true')
    p = subprocess.run(cmd, cwd=cwd, shell=True, stdout=subprocess.PIPE, stderr=subprocess.STDOUT, text=True, env=env, timeout=timeout)
    return p.returncode, p.stdout


def scratch(name, with_target=True):
    d = os.path.join(SCR, name)
    shutil.rmtree(d, ignore_errors=True)
    os.makedirs(SCR, exist_ok=True)
    shutil.copytree(extract.REPO, d, ignore=shutil.ignore_patterns('target', '.git'))
    subprocess.run(['git', 'init', '-q'], cwd=d)
    if with_target and os.path.exists(os.path.join(extract.REPO, 'target')):
        subprocess.run(['cp', '-a', os.path.join(extract.REPO, 'target'), os.path.join(d, 'target')])
    return d


def confirm(sd):
    sd = os.path.abspath(sd)
    name = 'confirm-' + sd.strip('/').replace('/', '_')
    d = scratch(name)
    res = {'dir': sd}
    try:
        rc, out = sh('git apply --whitespace=nowarn %s/patch.diff' % sd, d)
        if rc:
            res['error'] = 'patch does not apply: ' + out[-500:]
            return res
        rc, out = sh('cargo test --workspace --no-fail-fast --offline 2>&1 | tail -40', d)
        passed = sum(int(l.split('ok.')[1].split('passed')[0]) for l in out.splitlines() if l.startswith('test result: ok.'))
        failed = 'FAILED' in out or 'error' in out and 'test result' not in out
        res['suite_with_change'] = 'pass (%d tests incl. doc tests)' % passed if not failed and passed >= 52 else 'FAIL'
        if res['suite_with_change'] == 'FAIL':
            res['suite_tail'] = out[-1500:]
        os.makedirs(os.path.join(d, 'tests'), exist_ok=True)
        shutil.copy(os.path.join(sd, 'demo.rs'), os.path.join(d, 'tests', 'seeded_demo.rs'))
        t0 = time.time()
        rc, out = sh('cargo test --offline --test seeded_demo 2>&1 | tail -30', d)
        res['demo_with_change'] = 'fails' if ('FAILED' in out or 'panicked' in out) and 'could not compile' not in out else 'PASSES(!)' if 'test result: ok' in out else 'ERROR'
        res['demo_with_tail'] = out[-600:]
        rc, out = sh('git apply -R --whitespace=nowarn %s/patch.diff' % sd, d)
        rc, out = sh('cargo test --offline --test seeded_demo 2>&1 | tail -30', d)
        res['demo_without_change'] = 'passes' if 'test result: ok' in out and 'FAILED' not in out else 'FAILS(!)'
        if res['demo_without_change'] != 'passes':
            res['demo_without_tail'] = out[-800:]
        res['demo_s'] = round(time.time() - t0, 1)
        res['confirmed'] = res['suite_with_change'].startswith('pass') and res['demo_with_change'] == 'fails' and res['demo_without_change'] == 'passes'
        return res
    finally:
        shutil.rmtree(d, ignore_errors=True)


def suite(sd):
    """apply patch.diff to a scratch copy and run the whole test suite"""
    sd = os.path.abspath(sd)
    d = scratch('suite-' + sd.strip('/').replace('/', '_'))
    try:
        rc, out = sh('git apply --whitespace=nowarn %s/patch.diff' % sd, d)
        if rc:
            return 'patch does not apply: ' + out[-300:]
        rc, out = sh('cargo test --workspace --no-fail-fast --offline 2>&1 | tail -40', d)
        passed = sum(int(l.split('ok.')[1].split('passed')[0]) for l in out.splitlines() if l.startswith('test result: ok.'))
        failed = 'FAILED' in out or 'error' in out and 'test result' not in out
        return 'pass (%d tests incl. doc tests)' % passed if not failed and passed >= 52 else 'FAIL: ' + out[-800:]
    finally:
        shutil.rmtree(d, ignore_errors=True)


def detect(sd, pids):
    sd = os.path.abspath(sd)
    name = 'detect-' + sd.strip('/').replace('/', '_')
    d = scratch(name, with_target=False)
    try:
        rc, out = sh('git apply --whitespace=nowarn %s/patch.diff' % sd, d)
        if rc:
            return {'error': 'patch does not apply: ' + out[-500:]}
        base = selftest.keys_for(extract.REPO, pids)
        ks = selftest.keys_for(d, pids)
        delta = {}
        for p in pids:
            n = sorted(ks[p] - base.get(p, set()))
            if n:
                delta[p] = n
        return delta
    finally:
        shutil.rmtree(d, ignore_errors=True)
        import hashlib
        t = os.path.join(extract.WORK, 'target-default-%s' % hashlib.sha1(d.encode()).hexdigest()[:8])
        shutil.rmtree(t, ignore_errors=True)


def main(argv):
    mode = argv[0]
    manifest = json.load(open(os.path.join(VERIF, 'MANIFEST.json')))
    pids = [c['property_id'] for c in manifest['checks']]
    for sd in argv[1:]:
        if mode == 'confirm':
            print(json.dumps(confirm(sd), indent=1))
        else:
            print(sd, json.dumps(detect(sd, pids), indent=1))


if __name__ == '__main__':
    main(sys.argv[1:])
