#!/usr/bin/env python3
"""write seeded/INDEX.md and benign/INDEX.md from the meta.json files (which checks catch which change)"""
import json, os


def _s(x):
    return ', '.join(map(str, x)) if isinstance(x, list) else str(x or '')


V = os.path.dirname(os.path.dirname(os.path.abspath(__file__)))
rows = []
for d in sorted(os.listdir(os.path.join(V, 'seeded'))):
    mp = os.path.join(V, 'seeded', d, 'meta.json')
    if not os.path.isfile(mp):
        continue
    m = json.load(open(mp))
    det = m.get('detection', {})
    keys = det.get('new_violation_keys') or {}
    rules = sorted({k.split(':')[0] for v in keys.values() for k in v})
    first = det.get('first_run_before_any_rule_change')
    rows.append((d, m.get('breaks_property'), _s(m.get('summary')).replace('|', '/').replace('\n', ' ')[:150], 'yes' if det.get('detected') else '**no**',
                 ', '.join(rules)[:160], '' if first is None else ('yes' if first.get('detected') else 'no')))
with open(os.path.join(V, 'seeded', 'INDEX.md'), 'w') as f:
    f.write('# Seeded breaking changes (independent sub-agents) and the checks that catch them\n\n')
    f.write('%d changes, %d detected on the current rules. "first contact" = detected when first run, before any rule was changed in response (round 2 only).\n\n' % (len(rows), sum(1 for r in rows if r[3] == 'yes')))
    f.write('| id | breaks | change | detected | rules that fire | first contact |\n|---|---|---|---|---|---|\n')
    for r in rows:
        f.write('| %s | %s | %s | %s | %s | %s |\n' % r)
rows = []
for d in sorted(os.listdir(os.path.join(V, 'benign'))):
    mp = os.path.join(V, 'benign', d, 'meta.json')
    if not os.path.isfile(mp):
        continue
    m = json.load(open(mp))
    keys = m.get('new_violation_keys') or {}
    first = m.get('first_run_before_any_rule_change')
    rows.append((d, m.get('anchored_in_property'), _s(m.get('kind')).replace('|', '/')[:60], _s(m.get('summary')).replace('|', '/').replace('\n', ' ')[:130],
                 'silent' if m.get('silent') else '**ALARM** ' + ', '.join(sorted({k.split(':')[0] for v in keys.values() for k in v}))[:100], '' if first is None else ('silent' if first.get('silent') else 'alarm')))
with open(os.path.join(V, 'benign', 'INDEX.md'), 'w') as f:
    f.write('# Behaviour-preserving refactors (independent sub-agents): every check must stay silent\n\n')
    f.write('%d refactors, %d silent on the current rules.\n\n' % (len(rows), sum(1 for r in rows if r[4] == 'silent')))
    f.write('| id | anchored in | kind | refactor | verdict now | first contact |\n|---|---|---|---|---|---|\n')
    for r in rows:
        f.write('| %s | %s | %s | %s | %s | %s |\n' % r)

# DESIGN.md section 10.4: rule -> seeded changes on which it fires
import re
by_rule = {}
def _order(i):
    m = re.match(r'C(\d+)(?:-r(\d+))?-(\d+)', i)
    return (int(m.group(2) or 1), int(m.group(1)), int(m.group(3))) if m else (9, 0, 0)
for d in sorted(os.listdir(os.path.join(V, 'seeded')), key=_order):
    mp = os.path.join(V, 'seeded', d, 'meta.json')
    if os.path.isfile(mp):
        keys = (json.load(open(mp)).get('detection', {}).get('new_violation_keys') or {})
        for r in sorted({k.split(':')[0] for v in keys.values() for k in v}):
            by_rule.setdefault(r, []).append(d)
dp = os.path.join(V, 'DESIGN.md')
txt = open(dp).read()
head = '| rule | seeded changes on which it fires |\n|---|---|\n'
i = txt.find(head)
if i >= 0:
    j = txt.find('\n\n', i)
    table = head + ''.join('| %s | %s |\n' % (r, ', '.join(v)) for r, v in sorted(by_rule.items()))
    open(dp, 'w').write(txt[:i] + table.rstrip('\n') + txt[j:])
print('ok')
