#!/usr/bin/env python3
"""regenerate /verif/MANIFEST.json from the per-property table below"""
import json, os
HERE = os.path.dirname(os.path.dirname(os.path.abspath(__file__)))

TB = ("Trusted: rustc's type checker, MIR construction and trait resolution (the facts are the compiler's own), the cfr-facts driver's "
      "serialisation, the Python rules and their frozen tables (each entry has a written reason), and third-party crates' contracts. "
      "Float magnitudes, rounding and overflow are outside static reach and are not decided.")

P = {
 'C01': ('claimed clauses: signs, clamp, max, reach propagation, strict zero filter, player pairing, reached-only resolution queue, no stale memoised evaluation, best-response value taken from the root search on every path, per-infoset payoff vector length',
         'E4 signed-monomial forms per player context + E2 guard dominance + E10 player tags over MIR',
         'Decides the clauses of the statement that are shapes of regret.rs / lib.rs on every path (negation for player two, clamp at 0, max of both regrets, sign convention of each best-response search vs the slot it feeds, reach = parent reach x edge probability from the node\'s own infoset entry, strict > 0 filter, which table is paired with which strategy). The best-response algorithm as a theorem is not decided. Static analysis is the right level for these clauses because each is a necessary condition visible in the code\'s shape for all games and profiles at once.', '4 C01'),
 'C02': ('bound formula, per-player sums over whole slices with the loop index, max of the two, non-negativity',
         'E4/E5 expression form of cum_regret + loop/sink dataflow over MIR',
         'Decides that the reported bound has exactly the form 2*PosPart(max-reduce over the whole slice)/it, summed over every infoset of the player with the loop\'s own iteration index, max over players, starting infinite. The domination inequality itself is a magnitude and is not decided.', '4 C02'),
 'C05': ('thread-error mapping, infallible one-thread path, acyclic lock order, zero-guarded normalisations, bound >= 0, no unsafe',
         'E1 call-graph effects + E2 division/guard rule + E9 lock-order graph over MIR and the instance graph + decision table of Game::solve (one thread => Ok on every path)',
         'Decides the structural totality clauses: build errors propagated with ?, checked_mul -> ThreadOverflow, no Err constructible on the threads==1 edge, lock-order graph acyclic over blocking sites, every f64 division guarded or audited, uniform fallback, outputs normalised, zero unsafe. General panic freedom and NaN/overflow are not decided (evidence-only inventory).', '4 C05'),
 'C06': ('empty per-iteration workspace, cache discipline, commutative shared writes, fresh per-child reach in the frontier expansion, no RNG reachable, no unsafe',
         'E3 container typestate dataflow (interprocedural summaries) + E9 parallel-effect analysis + E1 reachability',
         'Decides the schedule-independence premises that are shapes of the code for every schedule at once: the workspace is definitely empty wherever a pass starts using it (found the real defect D4), the cache is consulted first, tasks use the empty cache, every shared write reachable from the task closure is commutative or set-once, no rand function is reachable. Frontier disjointness and numeric equality are not decided.', '4 C06'),
 'C07': ('workspace typestate (both sampled solvers), draw-once typestate, reset per pass, lock kinds, FIRST wiring, parallel effects',
         'E3 typestate + E2 guard dominance (draw-once) + event-sequence analysis of loop bodies + E9',
         'Decides, for all schedules and sampling histories, the structural premises of thread-count invariance of the sampled solvers (found the real defect D5). The unique-visit theorem behind try_lock().unwrap() is not decided.', '4 C07'),
 'C08': ('advance order and argument provenance, presets, branch tables, field/branch agreement, regret-update structure, external-sampling structure',
         'E8 sibling cross-check + E5 branch tables + E6 table agreement + E4 forms per PlayerNum / const-generic context',
         'Decides the part of the discounted-CFR specification that is composition order, parameter wiring, signs, reach factors and constants (76 obligations). Trajectory equality as numbers is not decided.', '4 C08'),
 'C09': ('near-complete: six loop-shape obligations O1-O6 on all four solver loops',
         'CFG loop analysis (range, exits, dominance, joins) + E4 taint for threshold non-interference',
         'A relational two-run property that follows from O1-O6, each a shape of the four solver loops, checked on each and cross-checked as siblings. Assumes the loop body is deterministic (C06/C07).', '4 C09'),
 'C10': ('RNG reachability per method, dispatch table, RNG confinement, draw-once, reset per pass, shared-draw index provenance, distribution sources, interval clause of the categorical sampler as a linear form of its scan loop',
         'E1 instance-graph reachability + E2 guards + index-provenance dataflow over MIR + decision table of Game::solve by abstract interpretation + linear-form abstract interpretation of the sampler scan',
         'Decides which methods can reach an RNG at all, that randomness is confined to the two cached draw sites, one draw per infoset per pass, same draw for every node of an infoset, and what the samplers draw from. The inverse-CDF interval clause of the categorical sampler is decided as a form (linear scan or scan/take_while/count chain), not numerically.', '4 C10'),
 'C11': ('acceptance-effect table: every acceptance effect is dominated by the checks the contract lists for it; the recall witness written for a child is always Some((infoset, action))',
         'E2 exact edge-guard dominance + path contexts + information-flow check of the recall witness',
         'Decides "accepts only the documented class" as a table effect -> dominating checks on every path of init_recurse (found the real defects D6, D7, D8). Sufficiency of the checks for well-defined evaluation (overflow) is not decided.', '4 C11'),
 'C12': ('rescaling by own sum, insertion-ordered index allocation, no hash-order flows, player-symmetric signs; parametricity as S-rule',
         'E11 determinism lint + E6 item/type facts + shared E4 sign rules; parametricity from generic bounds',
         'Decides the presentation-invariance clauses that are structural. Renaming invariance is reported as proved/not proved from the trait bounds (never an alarm). Degenerate-node insertion, payoff scaling and role exchange as numbers are not decided.', '4 C12'),
 'C13': ('ExactSizeIterator contract of all six impls, completeness, strict positive filter, single-action entries, player wiring, export layout',
         'E7 iterator-contract lint (per field and enum variant) + E2 guards + E10 tags',
         'Decides len()/size_hint() == items yielded for every iterator at every prefix (found the real defects D1, D2), completeness of the named view and the export layout. Round-trip equality up to rounding is not decided.', '4 C13'),
 'C14': ('sibling agreement of the two import functions on outcome->context maps and check order; validated writes; error kinds; layout; wiring; every Ok of the entry points behind both validations',
         'E8 sibling cross-check on abstract guard skeletons with disjunctive path contexts compared semantically',
         'Decides that the hashing and non-hashing imports reach every outcome (each error kind, the dense write, Ok) under exactly the same combinations of checks and in the same order, plus the absolute validation rules. Overflow of totals is not decided.', '4 C14'),
 'C15': ('offset coefficient, interior payoffs, payoffs consumed through the outcome table only, player mapping, sorted action lists, output field wiring, zero filter',
         'E4 forms + E10 tags + E2 dominance over the binary\'s MIR',
         'Decides the structural faithfulness clauses of the CLI output (found the real defect D11). Numeric equality with an independent evaluation rests on C01 and is not decided.', '4 C15'),
 'C16': ('option->argument wiring, enum->constructor/solver/parser tables, 0 => unlimited, unconditional clip step, strict clip comparison with paired replacement, same serialisation',
         'E6 table agreement + decision table of the parser dispatch by abstract interpretation + relational pair dataflow over main\'s MIR',
         'Decides that each option reaches the documented library parameter and that the clip step keeps (strategies, evaluation) paired on every path.', '4 C16'),
 'C17': ('Result discipline, no output on failure, reader guards, whole-input JSON parse, constant-sum scan reads the outcome table and accumulates at every node kind, diagnostics<->README anchors, belief contradiction on name sets',
         'error-discipline lint + E1 reachability + E2 dominance + README anchor table + belief-contradiction rule',
         'Decides that no parse/validation/solve error is dropped and nothing is printed before success (found the real defect D12). What the third-party parsers reject is not decided.', '4 C17'),
 'C18': ('division guard, survivor predicate agreement, zeroing only with survivors, rewrite whenever something survives, partition by own infosets',
         'E2 division rule + predicate comparison across closure and loop',
         'Decides that truncation cannot divide by a zero total and that summed and kept entries are selected identically (found the real defect D3). Numeric closeness is not decided.', '4 C18'),
 'C19': ('assertions dominate and are strict, abs before powf, division guard, per-player infoset count',
         'E2 guard dominance + E4 form of the accumulated term',
         'Decides the documented panics, symmetry and NaN-freedom of the averaging division (found the real defect D13a). The numeric range [0,1] is a magnitude and is not decided (known to be false for disjoint pure strategies, DESIGN D13b).', '4 C19'),
}
ENG = {
 'C01': 'E4+E2+E10', 'C02': 'E4+E5', 'C05': 'E1+E2+E9', 'C06': 'E3+E9+E1', 'C07': 'E3+E2+E9', 'C08': 'E8+E5+E6+E4', 'C09': 'loops+E4', 'C10': 'E1+E2',
 'C11': 'E2+contexts', 'C12': 'E11+E6', 'C13': 'E7+E2+E10', 'C14': 'E8', 'C15': 'E4+E10+E2', 'C16': 'E6', 'C17': 'E1+E2+E6', 'C18': 'E2', 'C19': 'E2+E4',
}
checks = []
for pid in sorted(P):
    short, tech, text, ref = P[pid]
    checks.append({
        'property_id': pid,
        'quick_cmd': './check %s --tier quick' % pid,
        'thorough_cmd': './check %s --tier thorough' % pid,
        'evidence_file': 'evidence/%s.json' % pid,
        'replay_cmd_template': './check %s --replay {path}' % pid,
        'engine': ENG[pid],
        'level_claimed': {'category': 'other',
                          'text': 'Static analysis of the type-checked program (MIR facts extracted by a rustc_private driver from /repo\'s current tree), partial: ' + short + '. ' + text,
                          'design_ref': 'DESIGN.md §' + ref},
        'level_note': TB,
        'technique': 'static analysis: ' + tech,
    })
man = {
    'version': 1,
    'setup_cmd': './setup.sh',
    'hooks': {'guard': 'cfr_verif', 'enable': 'none: the analysis executes nothing, so /repo carries no instrumentation; checks type-check /repo as it is with `cargo +nightly check` through the cfr-facts wrapper',
              'baseline_off_cmd': 'cd /repo && cargo test --workspace --no-fail-fast --offline', 'source_commits': [], 'add_only': True},
    'engines': [
        {'name': 'cfr-facts', 'path': 'driver/', 'serves_properties': sorted(P), 'kind_free_text': 'rustc_private driver (RUSTC_WORKSPACE_WRAPPER): serialises MIR, resolved callees, items, unsafe inventory and the instance-resolved call graph to JSON'},
        {'name': 'rule library', 'path': 'rules/', 'serves_properties': sorted(P), 'kind_free_text': 'Python stdlib: CFG (dominators, exact edge guards, path contexts, loops), expression trees, E1 call-graph effects, E2 guards/divisions, E3 container typestate, E4 signed-monomial forms, E7 iterator contract, E8 sibling skeletons, E9 lock order / parallel effects, E10 player tags, E11 determinism lint'},
        {'name': 'fact normalisation', 'path': 'rules/inline.py', 'serves_properties': sorted(P), 'kind_free_text': 'MIR-level normalisation of the fact base before the rules run (rules/inline.py, rules/cfgnorm.py): new private helpers, directly called local closures and closures reached through an impl Fn parameter are inlined into their callers (const generics specialised); Iterator::for_each / fold / try_for_each (and any / all over an integer range) and Option::or_else / unwrap_or_else become the loops / matches they abbreviate; jump threading, Try::branch lowering, def-use web splitting, folding of switches on known values, lowering of calls through a local fn pointer and stores through unique references rewritten into stores to the local reconnect a helper\'s returned flag / Option / Result with the edge it takes; renamed private functions, trait methods and struct fields are aliased back using signatures and body fingerprints; items moved to another module get their reference paths back; structs the reference tree does not have are read as the tuples of their fields (as `[T; 2]` where they stand for one; split into one local per field when they never escape); calls of crate-local trait methods inside a spliced generic helper are resolved to the impl for the type the call site instantiates it with; a private error enum that a From impl maps onto a reference error enum is aliased to it; identity on the reference tree (rules/known_fns.json)'},
        {'name': 'decision tables', 'path': 'rules/absint.py rules/dispatch.py', 'serves_properties': ['C05', 'C08', 'C10', 'C16'], 'kind_free_text': 'path-sensitive abstract interpretation of one function over enum variants / flags / symbolic inputs (dataflow over the MIR CFG, no execution, no solver): which sink is reached under which input combination, independent of how the dispatch is written; used for the parser dispatch of main, the solver dispatch of Game::solve and (as fallback) the regret-matching case split'},
        {'name': 'patch sets', 'path': 'seeded/ benign/ rules/patchsets.py tools/regress.py', 'serves_properties': sorted(P), 'kind_free_text': '531 breaking changes and 814 behaviour-preserving refactors written by independent sub-agents in nine rounds, replayed on scratch copies in the thorough tier (seeded must still be caught, benign must stay silent)'},
        {'name': 'selftest', 'path': 'rules/selftest.py', 'serves_properties': sorted(P), 'kind_free_text': 'corpus of mutants and benign variants replayed on scratch copies (thorough tier); a failure is CHECKER-SELFTEST (exit 2), never a property violation'},
    ],
    'checks': checks,
    'not_applicable': [
        {'property_id': 'C03', 'reason': 'the 2*D*N*sqrt(A)/sqrt(T) envelope bounds floating-point values produced by T rounds of an iterative process on an arbitrary tree: a magnitude no dataflow, typestate or effect argument in reach can bound; its structural preconditions (update signs, reach factors, averaging weights, bound formula) are decided under C08 and C02'},
        {'property_id': 'C04', 'reason': 'quantifies over the sampler\'s randomness ("with overwhelming probability") and typical regret over a collection of games: distributions of runtime values, outside static analysis; the structural preconditions (who is sampled, from what, once per pass) are decided under C10 and C08'},
    ],
    'notes': 'Technique family: static analysis only. Every check re-extracts facts from /repo\'s current working tree (cached by a hash of the tree). known_findings.txt lists the 11 defects the rules found on the pinned snapshot, all repaired by fix: commits in /repo. A thorough run additionally analyses the other build configurations (no default features, cfg(test)) and replays the mutant / benign corpus against the current tree.',
}
json.dump(man, open(os.path.join(HERE, 'MANIFEST.json'), 'w'), indent=1)
print('wrote MANIFEST.json with', len(checks), 'checks')
