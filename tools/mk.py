#!/usr/bin/env python3
"""mk.py <patch-id>...  -> scratch copy of /repo with seeded/<id> or benign/<id> applied, under /tmp/cfr-mk/<id> (prints the path)"""
import os, shutil, subprocess, sys
V = os.path.dirname(os.path.dirname(os.path.abspath(__file__)))
for i in sys.argv[1:]:
    src = os.path.join(V, 'seeded', i) if os.path.isdir(os.path.join(V, 'seeded', i)) else os.path.join(V, 'benign', i)
    d = '/tmp/cfr-mk/' + i
    shutil.rmtree(d, ignore_errors=True)
    os.makedirs('/tmp/cfr-mk', exist_ok=True)
    shutil.copytree('/repo', d, ignore=shutil.ignore_patterns('target', '.git'))
    subprocess.run(['git', 'init', '-q'], cwd=d)
    r = subprocess.run(['git', 'apply', '--whitespace=nowarn', os.path.join(src, 'patch.diff')], cwd=d)
    print(d, 'apply rc', r.returncode)
