#!/usr/bin/env python3
"""Copy confirmed seeded changes from the sub-agents' output directories into /verif/seeded/<id>/.
usage: seed_store.py /tmp/seed            (expects <root>/<PROP>/out/<k>/{patch.diff,demo.rs,meta.json,confirm.json})
"""
import json, os, shutil, sys
VERIF = os.path.dirname(os.path.dirname(os.path.abspath(__file__)))
root = sys.argv[1]
n = 0
for prop in sorted(os.listdir(root)):
    out = os.path.join(root, prop, 'out')
    if not os.path.isdir(out):
        continue
    for k in sorted(os.listdir(out)):
        d = os.path.join(out, k)
        if not os.path.isfile(os.path.join(d, 'patch.diff')) or not os.path.isfile(os.path.join(d, 'confirm.json')):
            continue
        s = open(os.path.join(d, 'confirm.json')).read()
        conf = json.loads(s[s.index('{'):])
        if not conf.get('confirmed'):
            print('NOT CONFIRMED', d)
            continue
        try:
            meta = json.load(open(os.path.join(d, 'meta.json')))
        except Exception as e:
            meta = {'summary': 'meta.json of the sub-agent unreadable: %s' % e}
        sid = '%s-%s' % (prop, k)
        dst = os.path.join(VERIF, 'seeded', sid)
        os.makedirs(dst, exist_ok=True)
        shutil.copy(os.path.join(d, 'patch.diff'), dst)
        shutil.copy(os.path.join(d, 'demo.rs'), dst)
        old = {}
        if os.path.exists(os.path.join(dst, 'meta.json')):
            old = json.load(open(os.path.join(dst, 'meta.json')))
        m = {
            'id': sid,
            'breaks_property': prop,
            'summary': meta.get('summary'),
            'files': meta.get('files'),
            'mechanism': meta.get('mechanism'),
            'needs_to_manifest': meta.get('needs'),
            'why_existing_tests_pass': meta.get('why_tests_pass'),
            'author': 'independent sub-agent given only the property text and a scratch worktree of /repo (nothing from /verif)',
            'author_commands': meta.get('commands'),
            'confirmed_here': {
                'how': 'tools/seed_eval.py confirm: scratch copy of /repo outside /repo and /verif; git apply patch.diff; cargo test --workspace --no-fail-fast --offline; demo.rs copied to tests/seeded_demo.rs and run with cargo test --offline --test seeded_demo; git apply -R; demo re-run',
                'suite_with_change': conf.get('suite_with_change'),
                'demo_with_change': conf.get('demo_with_change'),
                'demo_without_change': conf.get('demo_without_change'),
            },
            'detection': old.get('detection', {}),
        }
        json.dump(m, open(os.path.join(dst, 'meta.json'), 'w'), indent=1)
        n += 1
print('stored', n)
