#!/usr/bin/env python3
"""Run every claimed check against every seeded change (applied to a scratch copy of /repo, never to /repo itself)
and record in seeded/<id>/meta.json which checks fire.  usage: seed_detect.py [--jobs N] [--only substr]"""
import concurrent.futures, json, os, sys
HERE = os.path.dirname(os.path.abspath(__file__))
VERIF = os.path.dirname(HERE)
sys.path.insert(0, HERE)
import seed_eval

def main(argv):
    jobs = 8
    only = None
    if '--jobs' in argv:
        jobs = int(argv[argv.index('--jobs') + 1])
    if '--only' in argv:
        only = argv[argv.index('--only') + 1]
    manifest = json.load(open(os.path.join(VERIF, 'MANIFEST.json')))
    pids = [c['property_id'] for c in manifest['checks']]
    sd = os.path.join(VERIF, 'seeded')
    ids = [d for d in sorted(os.listdir(sd)) if os.path.isfile(os.path.join(sd, d, 'patch.diff')) and (only is None or only in d)]
    # warm the baseline once
    seed_eval.selftest.keys_for(seed_eval.extract.REPO, pids)
    def work(i):
        return i, seed_eval.detect(os.path.join(sd, i), pids)
    missed = []
    with concurrent.futures.ThreadPoolExecutor(max_workers=jobs) as ex:
        for i, delta in ex.map(work, ids):
            mp = os.path.join(sd, i, 'meta.json')
            m = json.load(open(mp))
            fired = {k: v for k, v in delta.items() if k != 'error'}
            own = m['breaks_property']
            anchor_only = bool(fired) and all(k.startswith('anchor-lost') for v in fired.values() for k in v)
            m['detection'] = {
                'how': 'tools/seed_detect.py: patch applied to a scratch copy of /repo, every claimed check run with --repo <copy>; keys are the violation keys added with respect to the unchanged tree',
                'new_violation_keys': fired,
                'detected': bool(fired),
                'detected_by_own_property_check': own in fired,
                'only_anchor_lost': anchor_only,
            }
            if 'error' in delta:
                m['detection']['error'] = delta['error']
            json.dump(m, open(mp, 'w'), indent=1)
            print('%-8s %s %s' % (i, 'DETECTED' if fired else 'missed  ', ', '.join('%s:%d' % (k, len(v)) for k, v in sorted(fired.items())) + (' (anchor-lost only)' if anchor_only else '')))
            if not fired:
                missed.append(i)
    print('seeded changes: %d, detected: %d, missed: %s' % (len(ids), len(ids) - len(missed), missed))

if __name__ == '__main__':
    main(sys.argv[1:])
