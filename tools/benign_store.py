#!/usr/bin/env python3
"""Copy behaviour-preserving refactors written by sub-agents into /verif/benign/<id>/ after checking that the test
suite passes with each, then run every claimed check on each: the delta of violation keys must be empty.
usage: benign_store.py /tmp/seed [--only C13] [--jobs N]"""
import concurrent.futures, json, os, shutil, sys
HERE = os.path.dirname(os.path.abspath(__file__))
VERIF = os.path.dirname(HERE)
sys.path.insert(0, HERE)
import seed_eval

def main(argv):
    root = argv[0]
    only = argv[argv.index('--only') + 1].split(',') if '--only' in argv else None
    jobs = int(argv[argv.index('--jobs') + 1]) if '--jobs' in argv else 8
    manifest = json.load(open(os.path.join(VERIF, 'MANIFEST.json')))
    pids = [c['property_id'] for c in manifest['checks']]
    todo = []
    for prop in sorted(os.listdir(root)):
        if only and prop not in only:
            continue
        b = os.path.join(root, prop, 'out', 'benign')
        if not os.path.isdir(b):
            continue
        for k in sorted(os.listdir(b)):
            if os.path.isfile(os.path.join(b, k, 'patch.diff')):
                todo.append((prop, k, os.path.join(b, k)))
    seed_eval.selftest.keys_for(seed_eval.extract.REPO, pids)
    def work(x):
        prop, k, d = x
        su = seed_eval.suite(d)
        delta = seed_eval.detect(d, pids)
        return prop, k, d, su, delta
    bad = []
    with concurrent.futures.ThreadPoolExecutor(max_workers=jobs) as ex:
        for prop, k, d, su, delta in ex.map(work, todo):
            bid = '%s-b%s' % (prop, k)
            try:
                meta = json.load(open(os.path.join(d, 'meta.json')))
            except Exception:
                meta = {}
            dst = os.path.join(VERIF, 'benign', bid)
            os.makedirs(dst, exist_ok=True)
            shutil.copy(os.path.join(d, 'patch.diff'), dst)
            m = {'id': bid, 'anchored_in_property': prop, 'kind': meta.get('kind'), 'summary': meta.get('summary'), 'files': meta.get('files'),
                 'why_equivalent': meta.get('why_equivalent'), 'author': 'independent sub-agent given only the property text and a scratch worktree',
                 'suite_with_change': su, 'new_violation_keys': delta, 'silent': not delta}
            json.dump(m, open(os.path.join(dst, 'meta.json'), 'w'), indent=1)
            print('%-8s suite=%s %s' % (bid, su[:12], 'silent' if not delta else 'ALARM ' + json.dumps(delta)[:300]))
            if delta:
                bad.append(bid)
    print('benign refactors: %d, silent: %d, alarms: %s' % (len(todo), len(todo) - len(bad), bad))

if __name__ == '__main__':
    main(sys.argv[1:])
