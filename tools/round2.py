#!/usr/bin/env python3
"""Round 2 of independently written changes: /tmp/seed2/<PID>A/out/<k> (breaking) and /tmp/seed2/<PID>B/out/benign/<k>
(behaviour-preserving).  Confirms each (suite passes with it; demo fails with / passes without for breaking ones),
stores it under seeded/<PID>-%s-<k> or benign/<PID>-%sb<k>, and records which checks fire.
usage: round2.py C14A C14B ...   [--jobs N]"""
import concurrent.futures, json, os, shutil, sys
HERE = os.path.dirname(os.path.abspath(__file__))
VERIF = os.path.dirname(HERE)
sys.path.insert(0, HERE)
import seed_eval
ROOT = os.environ.get("SEED_ROOT", "/tmp/seed3")
TAG = os.environ.get("SEED_TAG", "r3")

def main(argv):
    jobs = int(argv[argv.index('--jobs') + 1]) if '--jobs' in argv else 8
    ids = [a for a in argv if a[0] == 'C']
    manifest = json.load(open(os.path.join(VERIF, 'MANIFEST.json')))
    pids = [c['property_id'] for c in manifest['checks']]
    todo = []
    for i in ids:
        pid, kind = i[:3], i[3]
        base = os.path.join(ROOT, i, 'out') if kind == 'A' else os.path.join(ROOT, i, 'out', 'benign')
        if not os.path.isdir(base):
            continue
        for k in sorted(os.listdir(base)):
            d = os.path.join(base, k)
            if os.path.isfile(os.path.join(d, 'patch.diff')) and k.isdigit():
                todo.append((pid, kind, k, d))
    seed_eval.selftest.keys_for(seed_eval.extract.REPO, pids)
    def work(x):
        pid, kind, k, d = x
        if kind == 'A':
            conf = seed_eval.confirm(d)
            delta = seed_eval.detect(d, pids) if conf.get('confirmed') else {}
            return x, conf, delta
        su = seed_eval.suite(d)
        delta = seed_eval.detect(d, pids)
        return x, su, delta
    with concurrent.futures.ThreadPoolExecutor(max_workers=jobs) as ex:
        for (pid, kind, k, d), info, delta in ex.map(work, todo):
            try:
                meta = json.load(open(os.path.join(d, 'meta.json')))
            except Exception:
                meta = {}
            if kind == 'A':
                sid = '%s-%s-%s' % (pid, TAG, k)
                if not info.get('confirmed'):
                    print('%-10s NOT CONFIRMED %s' % (sid, {k_: v for k_, v in info.items() if k_ in ('suite_with_change', 'demo_with_change', 'demo_without_change', 'error')}))
                    continue
                dst = os.path.join(VERIF, 'seeded', sid)
                os.makedirs(dst, exist_ok=True)
                shutil.copy(os.path.join(d, 'patch.diff'), dst)
                shutil.copy(os.path.join(d, 'demo.rs'), dst)
                flat = [x for v in delta.values() for x in v]
                m = {'id': sid, 'round': int(TAG[1:]) if TAG[1:].isdigit() else TAG, 'breaks_property': pid, 'summary': meta.get('summary'), 'files': meta.get('files'), 'mechanism': meta.get('mechanism'),
                     'needs_to_manifest': meta.get('needs'), 'why_existing_tests_pass': meta.get('why_tests_pass'),
                     'author': 'independent sub-agent given only the property text and a scratch worktree of /repo (nothing from /verif)', 'author_commands': meta.get('commands'),
                     'confirmed_here': {'how': 'tools/seed_eval.py confirm (scratch copy outside /repo and /verif): suite with the change, demo with and without it',
                                        'suite_with_change': info.get('suite_with_change'), 'demo_with_change': info.get('demo_with_change'), 'demo_without_change': info.get('demo_without_change')},
                     'detection': {'how': 'every claimed check run with --repo <scratch copy with the patch>', 'new_violation_keys': delta, 'detected': bool(delta),
                                   'detected_by_own_property_check': pid in delta, 'only_anchor_lost': bool(flat) and all(x.startswith('anchor-lost') for x in flat),
                                   'first_run_before_any_rule_change': {'detected': bool(delta), 'keys': delta}}}
                json.dump(m, open(os.path.join(dst, 'meta.json'), 'w'), indent=1)
                print('%-10s %s %s' % (sid, 'detected' if delta else 'MISSED  ', '; '.join(flat)[:200]))
            else:
                bid = '%s-%sb%s' % (pid, TAG, k)
                if not str(info).startswith('pass'):
                    print('%-10s SUITE FAILS with the refactor: %s' % (bid, str(info)[:200]))
                    continue
                dst = os.path.join(VERIF, 'benign', bid)
                os.makedirs(dst, exist_ok=True)
                shutil.copy(os.path.join(d, 'patch.diff'), dst)
                m = {'id': bid, 'round': int(TAG[1:]) if TAG[1:].isdigit() else TAG, 'anchored_in_property': pid, 'kind': meta.get('kind'), 'summary': meta.get('summary'), 'files': meta.get('files'), 'why_equivalent': meta.get('why_equivalent'),
                     'author': 'independent sub-agent given only the property text and a scratch worktree', 'suite_with_change': info, 'new_violation_keys': delta, 'silent': not delta,
                     'first_run_before_any_rule_change': {'silent': not delta, 'keys': delta}}
                json.dump(m, open(os.path.join(dst, 'meta.json'), 'w'), indent=1)
                print('%-10s %s %s' % (bid, 'silent  ' if not delta else 'ALARM   ', json.dumps(delta)[:220] if delta else ''))

if __name__ == '__main__':
    main(sys.argv[1:])
