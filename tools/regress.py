#!/usr/bin/env python3
"""Regression of the rules against the two patch sets written by independent sub-agents:
  seeded/<id>/patch.diff   breaking changes   -> at least one new violation key expected
  benign/<id>/patch.diff   behaviour-preserving refactors -> no new violation key allowed
Each patch is applied to a scratch copy of /repo (never /repo); facts are cached by tree hash, so
re-runs after a rule change only re-run the rules.
usage: regress.py [--props C14,C13] [--only substr] [--set seeded|benign] [--jobs N] [--update]
  --update  rewrite the detection fields of the meta.json files (needs all properties)"""
import concurrent.futures, json, os, shutil, subprocess, sys, hashlib
HERE = os.path.dirname(os.path.abspath(__file__))
VERIF = os.path.dirname(HERE)
sys.path.insert(0, os.path.join(VERIF, 'rules'))
import extract, selftest
SCR = '/tmp/cfr-regress'

def keys_on_patch(pdir, pids, slot):
    d = os.path.join(SCR, 'slot%d' % slot, 'repo')
    shutil.rmtree(d, ignore_errors=True)
    os.makedirs(os.path.dirname(d), exist_ok=True)
    shutil.copytree(extract.REPO, d, ignore=shutil.ignore_patterns('target', '.git'))
    subprocess.run(['git', 'init', '-q'], cwd=d)
    p = subprocess.run(['git', 'apply', '--whitespace=nowarn', os.path.join(pdir, 'patch.diff')], cwd=d, stdout=subprocess.PIPE, stderr=subprocess.STDOUT, text=True)
    if p.returncode:
        return {'error': {'patch does not apply: ' + p.stdout[-200:]}}
    shutil.rmtree(os.path.join(d, '.git'), ignore_errors=True)
    open(os.path.join(d, '.patch_id'), 'w').write(os.path.basename(pdir))
    ks = selftest.keys_for(d, pids)
    t = os.path.join(extract.WORK, 'target-default-%s' % hashlib.sha1(d.encode()).hexdigest()[:8])
    return ks

def main(argv):
    def opt(n, dflt=None):
        return argv[argv.index(n) + 1] if n in argv else dflt
    manifest = json.load(open(os.path.join(VERIF, 'MANIFEST.json')))
    allp = [c['property_id'] for c in manifest['checks']]
    pids = opt('--props').split(',') if opt('--props') else allp
    only = opt('--only')
    which = opt('--set')
    jobs = int(opt('--jobs', '10'))
    update = '--update' in argv and pids == allp
    items = []
    for s in ('seeded', 'benign'):
        if which and which != s:
            continue
        root = os.path.join(VERIF, s)
        if os.path.isdir(root):
            for i in sorted(os.listdir(root)):
                if os.path.isfile(os.path.join(root, i, 'patch.diff')) and (only is None or only in i):
                    items.append((s, i, os.path.join(root, i)))
    base = selftest.keys_for(extract.REPO, pids)
    import threading
    free = list(range(jobs)); lock = threading.Lock()
    def work(it):
        with lock:
            slot = free.pop()
        try:
            ks = keys_on_patch(it[2], pids, slot)
        finally:
            with lock:
                free.append(slot)
        delta = {}
        for p in ks:
            n = sorted(set(ks[p]) - base.get(p, set()))
            if n:
                delta[p] = n
        return it, delta
    res = {'seeded': [0, 0, []], 'benign': [0, 0, []]}
    with concurrent.futures.ThreadPoolExecutor(max_workers=jobs) as ex:
        for (s, i, d), delta in ex.map(work, items):
            res[s][0] += 1
            flat = [k for v in delta.values() for k in v]
            anchor_only = bool(flat) and all(k.startswith('anchor-lost') for k in flat)
            if s == 'seeded':
                ok = bool(delta)
                print('%-9s %s %s' % (i, 'detected' if ok else 'MISSED  ', ('; '.join(flat))[:230] + (' [anchor-lost only]' if anchor_only else '')))
            else:
                ok = not delta
                print('%-9s %s %s' % (i, 'silent  ' if ok else 'ALARM   ', ('; '.join(flat))[:230]))
            res[s][1] += ok
            if not ok:
                res[s][2].append(i)
            if update:
                mp = os.path.join(d, 'meta.json')
                m = json.load(open(mp))
                if s == 'seeded':
                    first = (m.get('detection') or {}).get('first_run_before_any_rule_change')
                    m['detection'] = {'how': 'tools/regress.py: patch applied to a scratch copy of /repo, every claimed check run with --repo <copy>; keys = violation keys added with respect to the unchanged tree',
                                      'new_violation_keys': delta, 'detected': bool(delta), 'detected_by_own_property_check': m.get('breaks_property') in delta, 'only_anchor_lost': anchor_only}
                    if first is not None:
                        m['detection']['first_run_before_any_rule_change'] = first
                else:
                    m['new_violation_keys'] = delta
                    m['silent'] = not delta
                json.dump(m, open(mp, 'w'), indent=1)
    shutil.rmtree(SCR, ignore_errors=True)
    selftest.cleanup()
    print('SEEDED: %d of %d detected; missed: %s' % (res['seeded'][1], res['seeded'][0], res['seeded'][2]))
    print('BENIGN: %d of %d silent; alarms: %s' % (res['benign'][1], res['benign'][0], res['benign'][2]))

if __name__ == '__main__':
    main(sys.argv[1:])
