"""decision table of Game::solve (method x one-thread -> solver called, outcome), by abstract interpretation"""
import absint
import facts
from facts import short


class SolveClient(absint.Client):
    def param(self, f, l):
        if 'SolveMethod' in f.locals[l]['ty']:
            return ('sym', 'method', _adt(f, 'SolveMethod'))
        return None

    def call(self, f, bi, t, args, it):
        p = t['callee'].get('path') or ''
        s = short(p)
        if s in ('eq', 'ne') and 'NonZero' in p and 'PartialEq' in p:
            v = ('b', 'one')
            return v if s == 'eq' else ('not', v)
        if s == 'get' and 'NonZero' in p:
            return ('i1', 'one')
        if s == 'from_residual':
            return ('var', 'std::result::Result', 'Err')
        if s.startswith('solve_') and t['callee'].get('local'):
            it.solver_calls.setdefault(bi, s)
        return None

    def enter(self, f, bi, st, tokens, it):
        t = f.blocks[bi]['term']
        if t['t'] == 'call' and short(t['callee'].get('path') or '').startswith('solve_') and t['callee'].get('local'):
            prev = tokens.get('solver')
            name = short(t['callee']['path'])
            return dict(tokens, solver=name if prev is None else prev + '+' + name)
        return None

    def at_return(self, f, bi, st, tokens, it):
        r = it.resolve(st.get(0), tokens)
        return (tokens.get('solver'), r[2] if r is not None and r[0] == 'var' else '?')


def _adt(f, name):
    for k in f.crate.adts:
        if k == name or k.endswith('::' + name):
            return k
    return name


class _Interp(absint.Interp):
    """records the solver call each path passes through and the variant returned"""

    def __init__(self, f, client, **kw):
        super().__init__(f, client, **kw)
        self.solver_calls = {}

    def rvalue(self, rv, bi, st):
        if rv['r'] == 'agg' and rv['kind'].get('k') == 'adt' and rv['kind'].get('path', '').endswith('result::Result'):
            return ('var', 'std::result::Result', rv['kind']['variant'], tuple(self.operand(o, bi, st) for o in rv['ops']))
        if rv['r'] == 'bin' and rv['op'] in ('Eq', 'Ne'):
            a, b = self.operand(rv['a'], bi, st), self.operand(rv['b'], bi, st)
            for x, y in ((a, b), (b, a)):
                if x is not None and y is not None and x[0] == 'i1' and y[0] == 'k':
                    if y[1] != 1:
                        return None
                    v = ('b', x[1])
                    return v if rv['op'] == 'Eq' else ('not', v)
        return super().rvalue(rv, bi, st)

    def _edges(self, t, d, tokens, bi):
        if d is not None and d[0] == 'i1':
            out = []
            done = set()
            for lab, tb in t['targets']:
                out.append((tb, dict(tokens, **{d[1]: lab == '1'})) if lab == '1' else (tb, dict(tokens, **{d[1]: False})))
                done.add(lab)
            if '1' in done:
                out.append((t['otherwise'], dict(tokens, **{d[1]: False})))
            else:
                out.append((t['otherwise'], dict(tokens, **{'?%d' % bi: 'else'})))
            return [(tb, tk) for tb, tk in out if not (d[1] in tokens and tokens[d[1]] != tk.get(d[1]))]
        return super()._edges(t, d, tokens, bi)



def solve_table(f, cap=20000):
    it = _Interp(f, SolveClient(), cap=cap)
    it.run()
    return it
