"""The solver iteration loops (shared by C02, C07, C08, C09, C10).

A solver loop is a natural loop whose header advances a `RangeInclusive<u64>` iterator, inside
`solve::vanilla` / `solve::external` (function bodies and the scope closures).  Counted by hand: 4
(solve_generic_single, scope closure of solve_generic_multi, scope closure of solve_external_multi,
solve_external_single).
"""
import facts
import q
from facts import norm, short, strip_refs, is_const

FLOOR = 4


class SolverLoop:
    pass


def find(lib):
    out = []
    for f in lib.non_test_fns():
        if not (f.name.startswith('solve::vanilla::') or f.name.startswith('solve::external::')):
            continue
        for header, body in f.loops:
            # the header block (or its successor) calls Iterator::next on an integer range
            nxt = None
            for bi in sorted(body):
                t = f.blocks[bi]['term']
                if t['t'] == 'call' and short(t['callee'].get('path') or t['callee'].get('def') or '') == 'next' and bi == header:
                    nxt = (bi, t)
            if nxt is None:
                continue
            e = f.call_expr(nxt[1], nxt[0])
            rng = q.find_sub(e, lambda s: s[0] == 'call' and 'RangeInclusive' in s[1] and short(s[1]) == 'new')
            is_int_range = rng is not None or 'ops::Range' in facts.show(e) or 'range::' in e[1]
            if not is_int_range or 'u64' not in (nxt[1]['callee'].get('path', '') + ' '.join(nxt[1]['callee'].get('args', [])) + f.locals[nxt[1]['dest']['l']]['ty']):
                continue
            L = SolverLoop()
            L.fn, L.header, L.body, L.next_block, L.next_expr, L.range = f, header, body, nxt[0], e, rng
            # induction variable: the Some payload of that next()
            L.it = None
            for bi, si, st in f.assigns():
                if bi in body and not st['pl']['p']:
                    ex = f.rvalue_expr(st['rv'], bi)
                    if ex[0] == 'field' and ex[1][0] == 'downcast' and ex[1][2] == 'Some' and ex[1][1][0] == 'call' and ex[1][1][3] == e[3]:
                        if L.it is None or (f.local_name(st['pl']['l']) and not f.local_name(L.it[0])):
                            L.it = (st['pl']['l'], ex)
            # exits
            L.exits = []
            for bi in sorted(body):
                for s in f.succ[bi]:
                    if s in f.reach and s not in body and f.blocks[s]['term']['t'] != 'unreachable':
                        L.exits.append((bi, s))
            out.append(L)
    return out


def trivially_joins(f, a, b, limit=8):
    """blocks a and b reach a common block through blocks that only contain unit assignments, plain moves of
    a value between locals (`return regs` spelled as `_0 = regs; dest = move _0`), gotos and drops — and both
    ways move the same values (so an early stop yields what exhaustion yields)"""
    dataless = set()
    flags = set()

    def mentions(x, ls):
        if isinstance(x, dict):
            if 'l' in x and 'p' in x and x['l'] in ls:
                return True
            return any(mentions(v, ls) for v in x.values())
        if isinstance(x, list):
            return any(mentions(v, ls) for v in x)
        return False

    def chain(x):
        seen = [x]
        moves = []
        while len(seen) < limit:
            blk = f.blocks[x]
            t = blk['term']
            ok = True
            for st in blk['stmts']:
                if st['s'] != 'assign':
                    continue
                rv = st['rv']
                if rv['r'] == 'use' and rv['a']['o'] == 'const' and rv['a']['c'].get('ty') == '()':
                    continue
                dty = f.locals[st['pl']['l']]['ty']
                if not st['pl']['p'] and (dty == '()' or ('ControlFlow<' in dty and dty.rstrip('>').endswith(('<()', ', ()')))):
                    dataless.add(st['pl']['l'])      # the data-less outcome of a try_for_each: fine if nobody branches on it later
                    continue
                if not st['pl']['p'] and dty == 'bool' and rv['r'] == 'use' and rv['a']['o'] == 'const':
                    flags.add(st['pl']['l'])         # `let _stopped = (1..=n).any(..)`: which way the loop was left, as a flag
                    continue
                if not st['pl']['p'] and rv['r'] == 'discr' and rv['pl']['l'] in dataless:
                    dataless.add(st['pl']['l'])
                    continue
                if rv['r'] == 'use' and rv['a']['o'] in ('copy', 'move') and not st['pl']['p']:
                    moves.append(facts.show(facts.norm(f.rvalue_expr(rv, x))))
                    continue
                ok = False
            if not ok or t['t'] not in ('goto', 'drop'):
                break
            x = t['to']
            seen.append(x)
        return seen, moves
    (ca, ma), (cb, mb) = chain(a), chain(b)
    common = [x for x in ca if x in cb]
    if not common:
        return None
    if sorted(set(ma)) != sorted(set(mb)):
        return None
    if flags:
        # the flag is never read: not after the join, and not on the way to it
        seen, todo = {common[0]}, [common[0]]
        while todo:
            x = todo.pop()
            for y in f.succ[x]:
                if y not in seen and y in f.reach:
                    seen.add(y)
                    todo.append(y)
        for x in seen | set(ca) | set(cb):
            blk = f.blocks[x]
            for st in blk['stmts']:
                if st['s'] == 'assign' and (mentions(st['rv'], flags) or (st['pl']['p'] and mentions(st['pl'], flags))):
                    return None
            t = blk['term']
            if t['t'] != 'drop' and mentions({k: v for k, v in t.items() if k != 'dest'}, flags):
                return None
    if dataless:
        # nothing after the join may branch on which way the loop was left
        seen, todo = {common[0]}, [common[0]]
        while todo:
            x = todo.pop()
            t = f.blocks[x]['term']
            if t['t'] == 'switch' and t['d'].get('o') in ('copy', 'move') and t['d']['pl']['l'] in dataless:
                return None
            for st in f.blocks[x]['stmts']:
                if st['s'] == 'assign' and not st['pl']['p'] and ((st['rv']['r'] == 'use' and st['rv']['a'].get('o') in ('copy', 'move') and st['rv']['a']['pl']['l'] in dataless) or
                                                                  (st['rv']['r'] == 'discr' and st['rv']['pl']['l'] in dataless)):
                    dataless.add(st['pl']['l'])
            for y in f.succ[x]:
                if y not in seen and y in f.reach:
                    seen.add(y)
                    todo.append(y)
    return common[0]


TRAVERSALS = {'recurse_single', 'recurse_multi', 'recurse_regret', 'single_player_iter'}


def find_while(lib):
    """solver iteration loops that are *not* `for it in 1..=N` range loops (a `while` / `loop` rewrite): the
    outermost loop of a solver driver (solve_* function or its closures, helpers inlined) that contains a
    traversal call and is neither a range loop nor nested in one.  Returns [(fn, header, body, exits)]."""
    ranged = {(L.fn.name, L.header): L.body for L in find(lib)}
    out = []
    for f in lib.non_test_fns():
        top = q.top(f.name).split('::')[-1]
        if not f.name.startswith(('solve::vanilla::', 'solve::external::')) or not top.startswith('solve_'):
            continue
        trav = {bi for bi, t, p in f.calls() if short(p) in TRAVERSALS}
        cands = [(h, body) for h, body in f.loops if trav & body and (f.name, h) not in ranged
                 and not any(fn == f.name and h in b for (fn, hh), b in ranged.items())]
        # outermost only
        cands = [(h, body) for h, body in cands if not any(h != h2 and h in b2 for h2, b2 in cands)]
        for h, body in cands:
            exits = []
            for bi in sorted(body):
                for s_ in f.succ[bi]:
                    if s_ in f.reach and s_ not in body and f.blocks[s_]['term']['t'] != 'unreachable':
                        exits.append((bi, s_))
            out.append((f, h, body, exits))
    return out
