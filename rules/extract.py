"""Fact extraction: run the cfr-facts rustc driver over /repo's current working tree.

Facts are cached under /verif/.cache/<tree-hash>/<config>/ ; the hash covers every file of /repo
outside target/ and .git/, the driver binary and the flag set, so a changed tree always
re-extracts.  Dependency artefacts live in /verif/.work/target-<config> (git-ignored).
"""
import fcntl
import glob
import hashlib
import json
import os
import shutil
import subprocess
import sys
import time

VERIF = os.path.dirname(os.path.dirname(os.path.abspath(__file__)))
REPO = os.environ.get('CFR_REPO', '/repo')
DRIVER = os.path.join(VERIF, 'driver', 'target', 'debug', 'cfr-facts')
CACHE = os.path.join(VERIF, '.cache')
WORK = os.path.join(VERIF, '.work')

ROOTS = [
    'vanilla::solve_full_single', 'vanilla::solve_full_multi',
    'vanilla::solve_sampled_single', 'vanilla::solve_sampled_multi',
    'external::solve_external_single', 'external::solve_external_multi',
    'Game::<I, A>::solve', 'Game::<I, A>::from_root', 'Game::<I, A>::from_named',
    'Game::<I, A>::from_named_eq', 'Strategies::<\'a, I, A>::as_named',
    'Strategies::<\'a, I, A>::truncate', 'Strategies::<\'a, I, A>::distance',
    'Strategies::<\'a, I, A>::get_info', 'regret::regret',
    'main', 'json::from_reader', 'json::from_str', 'gambit::from_reader', 'gambit::from_str',
    'auto::from_reader', 'RegretParams::new',
]

CONFIGS = {
    # name: (cargo args, description)
    'default': (['--lib', '--bins'], 'default features, library + binary'),
    'nodefault': (['--lib', '--no-default-features'], 'library without the binary feature'),
    'tests': (['--lib', '--bins', '--tests'], 'cfg(test) builds of library and binary'),
    'examples': (['--examples'], 'examples'),
}

RUSTFLAGS = '-Zmir-opt-level=0 -Zalways-encode-mir -Awarnings'


def tree_hash(repo=None):
    repo = repo or REPO
    h = hashlib.sha256()
    files = []
    for root, dirs, fs in os.walk(repo):
        dirs[:] = sorted(d for d in dirs if not (root == repo and d in ('target', '.git')))
        for f in sorted(fs):
            if root == repo and f == '.patch_id':
                continue      # label written by the patch-set replayer, not part of the tree
            files.append(os.path.join(root, f))
    for p in files:
        rel = os.path.relpath(p, repo)
        h.update(rel.encode())
        h.update(b'\0')
        try:
            with open(p, 'rb') as fh:
                h.update(hashlib.sha256(fh.read()).digest())
        except OSError:
            h.update(b'?')
    with open(DRIVER, 'rb') as fh:
        h.update(hashlib.sha256(fh.read()).digest())
    h.update(RUSTFLAGS.encode())
    h.update(','.join(ROOTS).encode())
    return h.hexdigest()[:24]


def sysroot():
    return subprocess.check_output(['rustc', '+nightly', '--print', 'sysroot'], text=True).strip()


class ExtractError(Exception):
    pass


def ensure_facts(config='default', repo=None, quiet=False):
    """Return (dir, info) with fact files for the current tree in the given build config."""
    repo = repo or REPO
    if not os.path.exists(DRIVER):
        raise ExtractError('driver not built: run /verif/setup.sh')
    if not os.path.isfile(os.path.join(repo, 'Cargo.toml')) or not os.path.isdir(os.path.join(repo, 'src')):
        # fail closed: an absent / empty tree must not be answered from a cached fact set
        raise ExtractError('no crate to analyse at %s (Cargo.toml / src missing)' % repo)
    th = tree_hash(repo)
    out = os.path.join(CACHE, th, config)
    marker = os.path.join(out, 'ok.json')
    if os.path.exists(marker):
        try:
            os.utime(out)   # LRU: keep entries that are in use
            os.utime(os.path.dirname(out))
        except OSError:
            pass
        return out, json.load(open(marker))
    os.makedirs(CACHE, exist_ok=True)
    os.makedirs(WORK, exist_ok=True)
    lock = open(os.path.join(WORK, 'extract-%s.lock' % config), 'w')
    fcntl.flock(lock, fcntl.LOCK_EX)
    try:
        if os.path.exists(marker):
            return out, json.load(open(marker))
        t0 = time.time()
        tmp = out + '.tmp%d' % os.getpid()
        shutil.rmtree(tmp, ignore_errors=True)
        os.makedirs(tmp)
        # a scratch repo uses its own target dir so that parallel self-tests do not collide
        tname = 'target-%s' % config if repo == REPO else 'target-%s-%s' % (config, hashlib.sha1(repo.encode()).hexdigest()[:8])
        target = os.path.join(WORK, tname)
        if repo != REPO and not os.path.exists(target):
            # seed the scratch target dir with the dependency artefacts of the main one
            main_t = os.path.join(WORK, 'target-%s' % config)
            if os.path.exists(main_t):
                subprocess.run(['cp', '-a', main_t, target])
        # cargo's freshness cache would skip the wrapper: drop the workspace members' fingerprints
        for fp in glob.glob(os.path.join(target, 'debug', '.fingerprint', 'cfr-*')):
            shutil.rmtree(fp, ignore_errors=True)
        for fp in glob.glob(os.path.join(target, 'debug', '.fingerprint', 'liars_dice-*')):
            shutil.rmtree(fp, ignore_errors=True)
        env = dict(os.environ)
        env.update({
            'LD_LIBRARY_PATH': sysroot() + '/lib',
            'RUSTFLAGS': RUSTFLAGS,
            'RUSTC_WORKSPACE_WRAPPER': DRIVER,
            'CARGO_TARGET_DIR': target,
            'CARGO_NET_OFFLINE': 'true',
            'CFR_FACTS_DIR': tmp,
            'CFR_ROOTS': ','.join(ROOTS),
        })
        env.pop('RUSTC_WRAPPER', None)
        cmd = ['cargo', '+nightly', 'check', '--offline', '--quiet'] + CONFIGS[config][0]
        p = subprocess.run(cmd, cwd=repo, env=env, stdout=subprocess.PIPE, stderr=subprocess.STDOUT, text=True)
        if p.returncode != 0:
            shutil.rmtree(tmp, ignore_errors=True)
            raise ExtractError('cargo check failed for config %s (the tree does not compile?):\n%s' % (config, p.stdout[-4000:]))
        files = sorted(glob.glob(os.path.join(tmp, 'facts-*.json')))
        if not files:
            shutil.rmtree(tmp, ignore_errors=True)
            raise ExtractError('driver produced no fact file (freshness cache?)\n' + p.stdout[-2000:])
        info = {'tree': th, 'config': config, 'files': [], 'extract_s': round(time.time() - t0, 2)}
        for f in files:
            d = json.load(open(f))
            root = d.get('root', '')
            base = 'lib' if 'lib.rs' in root else 'bin' if 'main.rs' in root else ('bin' if d['is_bin'] else 'lib')
            if 'examples/' in root or 'benches/' in root:
                base = 'example'
            kind = base + ('-test' if d['is_test'] else '')
            name = '%s-%s.json' % (d['crate'], kind)
            os.rename(f, os.path.join(tmp, name))
            info['files'].append({'name': name, 'crate': d['crate'], 'kind': kind, 'fns': len(d['fns'])})
        json.dump(info, open(os.path.join(tmp, 'ok.json'), 'w'))
        shutil.rmtree(out, ignore_errors=True)
        os.rename(tmp, out)
        _prune_cache(keep=th)
        if not quiet:
            print('[extract] %s: %s in %.1fs' % (config, ', '.join('%s(%d fns)' % (x['name'], x['fns']) for x in info['files']), info['extract_s']), file=sys.stderr)
        return out, info
    finally:
        fcntl.flock(lock, fcntl.LOCK_UN)
        lock.close()


def _prune_cache(keep, limit=1500, min_age=7200):
    """drop the oldest fact sets beyond `limit` — never one younger than `min_age` seconds: another process replaying
    a patch set may be reading it (a half-deleted set makes a check see a tree without its binary crate)"""
    try:
        now = time.time()
        ents = [(os.path.getmtime(os.path.join(CACHE, e)), e) for e in os.listdir(CACHE) if e != keep]
        ents.sort()
        for mt, e in ents[:-limit] if len(ents) > limit else []:
            if now - mt > min_age:
                shutil.rmtree(os.path.join(CACHE, e), ignore_errors=True)
    except OSError:
        pass


def load(config='default', repo=None):
    d, info = ensure_facts(config, repo)
    out = {}
    for f in info['files']:
        out[(f['crate'], f['kind'])] = json.load(open(os.path.join(d, f['name'])))
    return out, info


if __name__ == '__main__':
    cfg = sys.argv[1] if len(sys.argv) > 1 else 'default'
    d, info = ensure_facts(cfg)
    print(d, json.dumps(info))
