"""E3 — precondition typestate for containers.

Forward dataflow over {E (definitely empty), M (maybe non-empty), IN (as at entry; summary mode)}
per container place, fix-point over loops, interprocedural through summaries computed from the
callee's own MIR.  Obligations are *preconditions at use sites*, so it does not matter whether a
workspace is emptied at the end of an iteration, at its start, or inside the callee.

Frozen instances (confirmed by reading, one line of reason each) live in REQUIRE below.
"""
import facts
from facts import norm, short

E, M, IN = 'E', 'M', 'IN'

EMPTYING = {'clear'}
GROWING = {'push', 'extend', 'par_extend', 'insert', 'append', 'extend_from_slice', 'push_back', 'push_front',
           'entry', 'resize', 'extend_from_within', 'or_insert', 'or_insert_with'}
OBSERVING = {'pop', 'len', 'is_empty', 'iter', 'iter_mut', 'get', 'get_mut', 'contains_key', 'contains', 'first',
             'last', 'get_payoff', 'into_iter', 'par_iter', 'values', 'keys', 'remove', 'swap_remove', 'split_off', 'retain',
             'drain', 'par_drain', 'index', 'index_mut', 'deref', 'deref_mut', 'as_slice', 'as_mut_slice'}
NEUTRAL = {'capacity', 'reserve', 'shrink_to_fit', 'with_capacity', 'new', 'as_ptr'}
CREATORS = {'with_capacity', 'new', 'default'}


def is_container_ty(ty):
    t = ty.replace('&mut ', '').replace('&', '').strip()
    return t.startswith(('std::vec::Vec<', 'std::collections::HashMap<', 'std::collections::VecDeque<',
                         'std::collections::HashSet<', 'std::collections::BTreeMap<'))


def key_of(e):
    """container key (base, fields) from an expression, or None"""
    e = norm(e)
    fields = []
    while e[0] == 'field':
        fields.append(e[2])
        e = norm(e[1])
    if e[0] == 'param':
        return (('param', e[1]), tuple(reversed(fields)))
    if e[0] == 'var':
        return (('var', e[1]), tuple(reversed(fields)))
    if e[0] == 'upvar':
        return (('upvar', e[1]), tuple(reversed(fields)))
    return None


class Summary:
    def __init__(self):
        self.requires = {}   # key(param-rooted) -> reason text (first op that needs it empty)
        self.exit = {}       # key(param-rooted) -> E|M|IN
        self.done = False


class E3:
    """REQUIRE: list of (predicate on (callee Fn), selector of args) giving frozen preconditions."""

    def __init__(self, crate, observe_requires, par_extend_requires=True):
        self.crate = crate
        self.summaries = {}
        self.in_progress = set()
        self.observe_requires = observe_requires   # fn name -> True: content present at entry is consumed as own data
        self.par_extend_requires = par_extend_requires
        self.reports = {}     # key -> dict
        self.sites = 0        # transfer functions applied at call sites
        self.analysed = set()
        self.obligation_sites = {}   # key -> status (for evidence: discharged ones too)
        self.par_extend_sites = set()

    # -- state helpers
    @staticmethod
    def join(a, b):
        if a is None:
            return dict(b)
        r = {}
        for k in set(a) | set(b):
            va, vb = a.get(k), b.get(k)
            if va is None or vb is None:
                # untracked on one side: created later on the other; keep known value pessimistically
                r[k] = va if vb is None else vb
                if va is not None and vb is not None and va != vb:
                    r[k] = M
            elif va == vb:
                r[k] = va
            else:
                r[k] = M
        return r

    def summary(self, callee):
        s = self.summaries.get(callee.name)
        if s and s.done:
            return s
        if callee.name in self.in_progress:
            return None   # recursion: treated as unknown callee
        self.in_progress.add(callee.name)
        s = self.summaries.setdefault(callee.name, Summary())
        ex = self.analyse(callee, summary=s)
        for k, v in ex.items():
            if k[0][0] == 'param':
                s.exit[k] = v
        s.done = True
        self.in_progress.discard(callee.name)
        return s

    def top_fn(self, name):
        return name.split('::{closure')[0]

    def report(self, fn, bi, what, state, reason):
        line = fn.line_of(bi)
        key = 'E3.workspace-empty:%s:%s' % (self.top_fn(fn.name), what)
        status = 'violated' if state == M else 'ok'
        prev = self.obligation_sites.get(key)
        if prev is None or status == 'violated':
            self.obligation_sites[key] = {'status': status, 'site': fn.where(bi), 'fn': fn.name, 'reason': reason, 'line': line}

    def get(self, st, k, fn, summary):
        if k in st:
            return st[k]
        if k is not None and summary is not None and k[0][0] == 'param':
            return IN
        if k is not None and k[0][0] in ('param', 'upvar'):
            return IN
        return None

    def analyse(self, fn, summary=None):
        """returns exit state; records obligations. summary!=None: params start as IN and
        requirements on them are recorded into the summary instead of being reported."""
        self.analysed.add(fn.name)
        instate = {0: {}}
        work = [0]
        exit_state = None
        iters = 0
        while work:
            bi = work.pop()
            iters += 1
            if iters > 20000:
                break
            st = dict(instate[bi])
            t = fn.blocks[bi]['term']
            if t['t'] == 'call':
                self.transfer(fn, bi, t, st, summary)
            if t['t'] == 'return':
                exit_state = self.join(exit_state, st)
            for s in fn.succ[bi]:
                if s not in fn.reach:
                    continue
                new = self.join(instate.get(s), st)
                if new != instate.get(s):
                    instate[s] = new
                    work.append(s)
        return exit_state or {}

    def need_empty(self, fn, bi, st, k, summary, what, reason):
        """precondition 'k is empty here'"""
        s = self.get(st, k, fn, summary)
        if s == IN:
            if summary is not None and k[0][0] == 'param':
                summary.requires.setdefault(k, reason)
            # at a root (nobody supplies the state) nothing can be decided: not an alarm
            return
        if s is None:
            return
        self.report(fn, bi, what, s, reason)

    def transfer(self, fn, bi, t, st, summary):
        c = t['callee']
        path = c.get('path') or c.get('def') or ''
        sh = short(path)
        args = [fn.operand_expr(a, bi) for a in t['args']]
        keys = [fn.root_place(a) if a['o'] in ('copy', 'move') else None for a in t['args']]
        argtys = [fn.locals[a['pl']['l']]['ty'] if a['o'] in ('copy', 'move') and not a['pl']['p'] else (a['pl']['ty'] if a['o'] in ('copy', 'move') else '') for a in t['args']]
        self.sites += 1
        dest_key = fn.root_place(t['dest']) if not t['dest']['p'] else None
        if dest_key is not None and dest_key[0][0] != 'var':
            dest_key = None
        elif dest_key is not None:
            dest_key = (('var', t['dest']['l']), ())
        dest_ty = fn.locals[t['dest']['l']]['ty'] if not t['dest']['p'] else ''
        # creation
        if sh in CREATORS and dest_key is not None and (is_container_ty(dest_ty) or self.struct_of_containers(dest_ty)):
            if is_container_ty(dest_ty):
                st[dest_key] = E
            else:
                for f in self.struct_of_containers(dest_ty):
                    st[(dest_key[0], dest_key[1] + (f,))] = E
            return
        k0 = keys[0] if keys else None
        recv_is_container = bool(argtys) and is_container_ty(argtys[0])
        local = self.crate.fns.get(path)
        if local is not None:
            # local callee with MIR: apply its summary to every container reachable from &mut args
            if any(('&mut' in ty) for ty in argtys):
                s = self.summary(local)
                if s is None:
                    for k, ty in zip(keys, argtys):
                        if k is not None and '&mut' in ty:
                            self.smash(st, k)
                    return
                cname = '::'.join(self.top_fn(local.name).split('::')[-2:])
                cargs = [a for a in c.get('args', []) if a in ('true', 'false') or a.isdigit()]
                if cargs:
                    cname += '::<%s>' % ','.join(cargs)
                for (base, fields), reason in sorted(s.requires.items()):
                    pi = base[1] - 1
                    if pi < len(keys) and keys[pi] is not None:
                        k = (keys[pi][0], keys[pi][1] + fields)
                        what = '%s.arg%d%s' % (cname, base[1], ''.join('.' + f for f in fields))
                        self.need_empty(fn, bi, st, k, summary, what, 'callee %s: %s' % (local.name, reason))
                for (base, fields), v in sorted(s.exit.items()):
                    pi = base[1] - 1
                    if pi < len(keys) and keys[pi] is not None and '&mut' in argtys[pi]:
                        k = (keys[pi][0], keys[pi][1] + fields)
                        if v != IN:
                            st[k] = v
            return
        if 'mem::swap' in path and len(keys) == 2:
            a, b = keys
            if a is not None and b is not None:
                sa, sb = self.get(st, a, fn, summary), self.get(st, b, fn, summary)
                if sb is not None:
                    st[a] = sb
                if sa is not None:
                    st[b] = sa
            return
        if 'mem::take' in path and k0 is not None:
            st[k0] = E
            return
        if not recv_is_container or k0 is None:
            # unknown callee: &mut containers escape
            for k, ty in zip(keys, argtys):
                if k is not None and '&mut' in ty and is_container_ty(ty) and sh not in NEUTRAL:
                    if self.get(st, k, fn, summary) is not None:
                        st[k] = M
            return
        cur = self.get(st, k0, fn, summary)
        consumes_entry = summary is not None and self.observe_requires.get(self.top_fn(fn.name))
        if sh in EMPTYING:
            st[k0] = E
        elif sh in ('drain', 'par_drain'):
            if consumes_entry and cur == IN:
                summary.requires.setdefault(k0, 'drained before being emptied (%s)' % fn.where(bi))
            if any('RangeFull' in a for a in c.get('args', [])):
                st[k0] = E
        elif sh == 'truncate' and len(args) > 1 and facts.is_const(args[1], 0):
            st[k0] = E
        elif sh in GROWING:
            if sh == 'par_extend' and self.par_extend_requires:
                self.par_extend_sites.add(self.top_fn(fn.name))
                self.need_empty(fn, bi, st, k0, summary, 'par_extend-receiver', 'the payoff cache filled by par_extend is valid for one pass only')
            elif consumes_entry and cur == IN:
                summary.requires.setdefault(k0, 'grown before being emptied (%s)' % fn.where(bi))
            st[k0] = M
        elif sh in OBSERVING:
            if consumes_entry and cur == IN:
                summary.requires.setdefault(k0, 'its content at entry is observed by %s (%s)' % (sh, fn.where(bi)))
        elif sh in NEUTRAL:
            pass
        else:
            if '&mut' in argtys[0] and cur is not None:
                st[k0] = M

    def smash(self, st, k):
        for kk in list(st):
            if kk[0] == k[0] and kk[1][:len(k[1])] == k[1]:
                st[kk] = M

    def struct_of_containers(self, ty):
        """field names of a local struct type all of whose fields are containers (a workspace)"""
        name = ty.split('<')[0]
        adt = self.crate.adts.get(name)
        if not adt or len(adt) != 1:
            return None
        ftys = adt[0].get('ftys', [])
        if ftys and all(is_container_ty(t) for t in ftys):
            return adt[0]['fields']
        return None
