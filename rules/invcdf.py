"""C10 — interval clause of the categorical sampler, decided as a *form* of its scan loop.

"The categorical sampler returns index k exactly when its uniform variate lies in the k-th
cumulative-probability interval."  For a sampler written as one forward scan over the weights with
scalar state that is updated linearly — the shape of `Multinomial::sample`, in either the
"remaining -= w" or the "acc += w" idiom — this is a fact about the loop's form:

  * the variate u is drawn once, outside the loop;
  * every float state variable x satisfies  x_j = I_x(u) + d_x * S_{j-1}   (S = running sum of the
    weights already passed), because its per-iteration update is  x' = x + d_x * w ;
  * the loop continues past weight j  iff  E > 0 (or >= 0)  where, after substituting the closed forms,
    E  must be a positive multiple of   u - S_{j-1} - w_j  = u - S_j   (continue while the variate lies
    beyond the j-th cumulative bound);  E ~ u - S_{j-1} is an off-by-one (index k+1 is returned),
    E ~ -(u - S_j) is a reversed comparison;
  * the returned value equals the number of completed iterations (counter from 0, +1 per continue,
    unchanged on the break edge), and the scan is forward.

The analysis is an abstract interpretation of the loop body over linear forms in {u, S, w, 1}; nothing
is executed and no solver is used.  It is three-valued: a sampler that does not have the recognised
shape (no scan loop, non-linear state, iterator adaptors, a different algorithm such as an alias
table) is reported `not proved` (S-rule, never an alarm); a recognised scan whose form is not the
k-th-interval form is a violation (N-rule).  Boundary closedness (`<` vs `<=`) is a measure-zero
difference the statement does not fix and is accepted either way.
"""
import e1
import facts
import q
from facts import norm, short, strip_refs

U, S, W, ONE = 'u', 'S', 'w', 1


class Unrecognised(Exception):
    pass


def l_add(a, b, s=1.0):
    r = dict(a)
    for k, c in b.items():
        v = r.get(k, 0.0) + s * c
        if abs(v) < 1e-15:
            r.pop(k, None)
        else:
            r[k] = v
    return r


def l_scale(a, s):
    return {k: c * s for k, c in a.items() if c * s != 0}


def show_lin(p):
    if not p:
        return '0'
    out = []
    for k in sorted(p, key=str):
        c = p[k]
        nm = '' if k == ONE else (k if isinstance(k, str) else 'x%s' % (k,))
        out.append(('%+g' % c) + ('*' + nm if nm else ''))
    return ' '.join(out)


OPASSIGN = {'add_assign': 1.0, 'sub_assign': -1.0}


class Scan:
    """symbolic evaluation of the paths of one loop iteration"""

    def __init__(self, f, header, body, item_site, tracked, enumerated=False):
        self.f, self.header, self.body, self.item_site, self.tracked = f, header, body, item_site, tracked
        self.enumerated = enumerated

    def lin(self, e, state):
        e = strip_refs(e)
        if e[0] == 'const':
            if e[1] is None:
                raise Unrecognised('constant without value')
            try:
                v = float(e[1])
            except (TypeError, ValueError):
                raise Unrecognised('non-numeric constant')
            return {ONE: v} if v else {}
        if e[0] == 'var' and e[1] in state:
            return dict(state[e[1]])
        if e[0] == 'field' and e[2] in ('0', '1') and self.enumerated:
            tup = strip_refs(e[1])
            if tup[0] == 'field' and tup[2] == '0':
                inner = strip_refs(tup[1])
                if inner[0] == 'downcast' and inner[2] == 'Some' and strip_refs(inner[1])[0] == 'call' and strip_refs(inner[1])[3] == self.item_site:
                    return {W: 1.0} if e[2] == '1' else {'j': 1.0}
        if e[0] == 'field' and e[2] == '0' and not self.enumerated:
            inner = strip_refs(e[1])
            if inner[0] == 'downcast' and inner[2] == 'Some' and strip_refs(inner[1])[0] == 'call' and strip_refs(inner[1])[3] == self.item_site:
                return {W: 1.0}
            if inner[0] == 'bin':        # (value, overflow).0 of a checked integer op
                return self.lin(inner, state)
        if e[0] == 'call' and short(e[1]) in ('gen', 'sample', 'random') and ('rand' in e[1]):
            return {U: 1.0}
        if e[0] == 'cast':
            return self.lin(e[1], state)
        if e[0] == 'bin' and e[1] in ('Add', 'Sub', 'AddWithOverflow', 'SubWithOverflow', 'AddUnchecked', 'SubUnchecked'):
            a, b = self.lin(e[2], state), self.lin(e[3], state)
            return l_add(a, b, 1.0 if e[1].startswith('Add') else -1.0)
        if e[0] == 'bin' and e[1] == 'Mul':
            a, b = self.lin(e[2], state), self.lin(e[3], state)
            if set(a) <= {ONE}:
                return l_scale(b, a.get(ONE, 0.0))
            if set(b) <= {ONE}:
                return l_scale(a, b.get(ONE, 0.0))
            raise Unrecognised('non-linear product')
        if e[0] == 'un' and e[1] == 'Neg':
            return l_scale(self.lin(e[2], state), -1.0)
        if e[0] == 'call' and 'ops::' in e[1] and short(e[1]) in ('add', 'sub') and len(e[2]) == 2:
            return l_add(self.lin(e[2][0], state), self.lin(e[2][1], state), 1.0 if short(e[1]) == 'add' else -1.0)
        if e[0] == 'call' and 'ops::' in e[1] and short(e[1]) == 'neg' and len(e[2]) == 1:
            return l_scale(self.lin(e[2][0], state), -1.0)
        raise Unrecognised('value outside the linear fragment: %s' % facts.show(e)[:60])

    def paths(self):
        """yield (kind, conds, final state, exit block) per acyclic path of one iteration;
        kind 'continue' (back edge), 'exhausted' (iterator returned None), 'break' (any other exit)"""
        f = self.f
        init = {l: {('x', l): 1.0} for l in self.tracked}
        out = []

        def step(bi, state, conds, seen, exhausted):
            if len(out) > 64:
                raise Unrecognised('too many paths')
            state = dict(state)
            b = f.blocks[bi]
            for st in b['stmts']:
                if st['s'] != 'assign':
                    continue
                pl = st['pl']
                if pl['l'] in self.tracked:
                    if pl['p']:
                        raise Unrecognised('partial write to scan state')
                    state[pl['l']] = self.lin(f.rvalue_expr(st['rv'], bi), state)
            t = b['term']
            nxt = []
            if t['t'] == 'call':
                p = t['callee'].get('path') or t['callee'].get('def') or ''
                s = short(p)
                if s in OPASSIGN and 'ops::' in p and t['args']:
                    r = f.root_place(t['args'][0])
                    if r and r[0][0] == 'var' and r[0][1] in self.tracked and not r[1]:
                        l = r[0][1]
                        rhs = self.lin(f.operand_expr(t['args'][1], bi), state)
                        state[l] = l_add(state[l], rhs, OPASSIGN[s])
                elif s in ('mul_assign', 'div_assign') and t['args']:
                    r = f.root_place(t['args'][0])
                    if r and r[0][0] == 'var' and r[0][1] in self.tracked:
                        raise Unrecognised('multiplicative update of scan state')
                elif not t['dest']['p'] and t['dest']['l'] in self.tracked:
                    state[t['dest']['l']] = self.lin(f.call_expr(t, bi), state)
                else:
                    # any other call taking &mut of a tracked variable is outside the fragment
                    for a in t['args']:
                        r = f.root_place(a) if a.get('o') in ('copy', 'move') else None
                        if r and r[0][0] == 'var' and r[0][1] in self.tracked and f.locals[a['pl']['l']]['ty'].startswith('&mut'):
                            raise Unrecognised('scan state passed by &mut to %s' % s)
                if t['to'] >= 0:
                    nxt = [(t['to'], None)]
            elif t['t'] == 'switch':
                by_t = {}
                for v, tb in t['targets']:
                    by_t.setdefault(tb, []).append(v)
                by_t.setdefault(t['otherwise'], []).append('else')
                for tb, labels in by_t.items():
                    if f.blocks[tb]['term']['t'] == 'unreachable':
                        continue
                    nxt.append((tb, f.cond_of(bi, frozenset(labels))))
            elif t['t'] in ('goto', 'drop', 'assert'):
                nxt = [(t['to'], None)]
            elif t['t'] == 'return':
                out.append(('break', conds, state, bi))
                return
            for tb, c in nxt:
                cs = conds
                ex = exhausted
                if c is not None:
                    if c['kind'] == 'variant' and strip_refs(c['a'])[0] == 'call' and strip_refs(c['a'])[3] == self.item_site:
                        ex = ex or c['variants'] == ['None']
                    else:
                        if c['kind'] in ('Lt', 'Le', 'Gt', 'Ge'):
                            cs = conds + [(c['kind'], self.lin(c['a'], state), self.lin(c['b'], state), c['truth'], c['line'])]
                        else:
                            raise Unrecognised('branch on %s inside the scan' % c['kind'])
                if tb == self.header:
                    out.append(('continue', cs, state, bi))
                elif tb not in self.body:
                    out.append(('exhausted' if ex else 'break', cs, state, tb))
                elif tb in seen:
                    raise Unrecognised('inner loop')
                else:
                    step(tb, state, cs, seen | {tb}, ex)
        step(self.header, init, [], {self.header}, False)
        return out


def analyse(f):
    """returns (status, text) with status in 'ok' | 'violated' | 'unrecognised'"""
    # variate: exactly one RNG draw, outside every loop
    draws = [(bi, t) for bi, t, p in f.calls() if t['callee'].get('krate') in e1.RNG_CRATES and short(p) in ('gen', 'sample', 'random', 'gen_range')]
    if len(f.loops) == 0:
        r = strip_refs(f.local_expr(0))
        if r[0] == 'call' and short(r[1]) == 'count' and r[2]:
            inner = strip_refs(r[2][0])
            if inner[0] == 'call' and short(inner[1]) == 'filter':
                return 'violated', '`filter(..).count()` keeps scanning after the first weight that does not fit: later, smaller weights are counted too (a scan must stop there: take_while / position) @ %s' % f.where(0)
    if len(f.loops) != 1:
        raise Unrecognised('%d loops (expected one scan over the weights)' % len(f.loops))
    header, body = f.loops[0]
    if any(bi in body for bi, t in draws):
        return 'violated', 'a variate is drawn inside the scan loop (one uniform variate must select the interval) @ %s' % f.where([bi for bi, t in draws if bi in body][0])
    if len(draws) != 1:
        raise Unrecognised('%d RNG draws (expected the single uniform variate)' % len(draws))
    ht = f.blocks[header]['term']
    if ht['t'] != 'call' or short(ht['callee'].get('path') or '') != 'next':
        raise Unrecognised('loop header does not advance an iterator')
    it_e = f.call_expr(ht, header)
    chain = [short(s[1]) for s in facts.walk(it_e) if s[0] == 'call']
    enumerated = 'enumerate' in chain
    chain_ = [c for c in chain if c != 'enumerate']
    if any(c in ('rev', 'skip', 'step_by', 'filter', 'take', 'chain', 'zip', 'map', 'scan', 'skip_while', 'take_while') for c in chain_):
        if 'rev' in chain_ and not (set(chain_) & {'skip', 'step_by', 'filter', 'take', 'chain', 'zip', 'map', 'scan', 'skip_while', 'take_while'}):
            reverse = True
        else:
            raise Unrecognised('iterator adaptors in the scan: %s' % chain)
    else:
        reverse = False
    hp = ht['callee'].get('path') or ''
    if 'slice' not in hp and 'Enumerate' not in hp and not reverse:
        raise Unrecognised('scan is not over a slice')
    item_site = (f.name, header)
    # tracked state: scalar multi-def locals written inside the loop (directly or by op-assign)
    tracked = set()
    for l, ds in f.defs.items():
        if any(d[1] in body for d in ds) and facts.SCALAR_TY.match(f.locals[l]['ty']) and (len(ds) > 1 or l in f.mut_scalars):
            tracked.add(l)
    for bi in body:
        t = f.blocks[bi]['term']
        if t['t'] == 'call' and short(t['callee'].get('path') or '') in OPASSIGN and t['args']:
            r = f.root_place(t['args'][0])
            if r and r[0][0] == 'var' and not r[1] and facts.SCALAR_TY.match(f.locals[r[0][1]]['ty']):
                tracked.add(r[0][1])
    tracked.discard(0)
    if not tracked and not enumerated:
        raise Unrecognised('no scalar scan state')
    sc = Scan(f, header, body, item_site, tracked, enumerated)
    paths = sc.paths()
    cont = [p for p in paths if p[0] == 'continue']
    brk = [p for p in paths if p[0] == 'break']
    exh = [p for p in paths if p[0] == 'exhausted']
    if len(brk) == 0 and len(cont) == 2 and len(exh) == 1:
        # no early exit: one way round the loop advances the scan state, the other leaves it as it is and goes on to the
        # next weight — later (smaller) weights are then still subtracted / counted after the first one that did not fit
        idle = [p for p in cont if all(p[2].get(l) == {('x', l): 1.0} for l in tracked)]
        if len(idle) == 1:
            return 'violated', 'the scan has no exit at the first weight that does not fit: it goes on and may still count later, smaller weights @ %s' % f.where(header)
    if len(cont) != 1 or len(exh) != 1 or len(brk) != 1:
        raise Unrecognised('%d continue / %d break / %d exhaustion paths (expected 1/1/1)' % (len(cont), len(brk), len(exh)))
    # initial values (definitions outside the loop, dominating the header)
    init = {}
    for l in tracked:
        outs = [d for d in f.defs.get(l, []) if d[1] not in body]
        if len(outs) != 1 or not f.dominates(outs[0][1], header):
            raise Unrecognised('scan state %s has no unique initial value' % (f.local_name(l) or l))
        kind, bi, si, x = outs[0]
        e = f.rvalue_expr(x, bi) if kind == 'assign' else f.call_expr(x, bi)
        init[l] = sc.lin(e, {})
        if set(init[l]) - {U, ONE}:
            raise Unrecognised('initial value of scan state is not a function of the variate')
    # per-iteration deltas on the continue path
    closed = {}   # l -> linear form over {U, S, ONE, 'j'} valid at the start of iteration j
    cstate = cont[0][2]
    is_float = {l: f.locals[l]['ty'] in ('f64', 'f32') for l in tracked}
    for l in tracked:
        d = l_add(cstate[l], {('x', l): 1.0}, -1.0)
        if is_float[l]:
            if set(d) - {W}:
                # an affine update that does not accumulate (e.g. `lower = w` instead of `lower = upper`): the
                # variable is then not a function of the running sum; kept as an opaque atom
                if all((isinstance(k, tuple) and k[0] == 'x') or k in (W, U, ONE) for k in d):
                    closed[l] = {('X', f.local_name(l) or str(l)): 1.0}
                    continue
                raise Unrecognised('update of %s is not  x += d*w' % (f.local_name(l) or l))
            closed[l] = l_add(init[l], {S: d.get(W, 0.0)})
        else:
            if set(d) - {ONE}:
                raise Unrecognised('update of counter %s is not  k += const' % (f.local_name(l) or l))
            closed[l] = l_add(init[l], {'j': d.get(ONE, 0.0)})

    def subst(p):
        r = {}
        for k, c in p.items():
            if isinstance(k, tuple) and k[0] == 'x':
                r = l_add(r, closed[k[1]], c)
            else:
                r = l_add(r, {k: c})
        return r
    # the continue condition
    fc = [c for c in cont[0][1]]
    if len(fc) != 1:
        raise Unrecognised('%d comparisons on the continue path (expected one)' % len(fc))
    kind, a, b, truth, line = fc[0]
    E = subst(l_add(a, b, -1.0))           # a - b  (kind)  0  when truth
    if not truth:
        kind = {'Lt': 'Ge', 'Le': 'Gt', 'Gt': 'Le', 'Ge': 'Lt'}[kind]
    if kind in ('Lt', 'Le'):
        E = l_scale(E, -1.0)               # now: continue iff E > 0 (or >= 0)
    opaque = [k for k in E if isinstance(k, tuple) and k[0] == 'X']
    if opaque:
        return 'violated', 'the continue condition depends on `%s`, which is overwritten instead of accumulated in the scan and therefore is not the cumulative bound (%s) @ %s' % (
            opaque[0][1], 'continue iff  %s  > 0' % show_lin({(k[1] if isinstance(k, tuple) else k): v for k, v in E.items()}), f.where(line=line))
    if set(E) - {U, S, W, ONE}:
        raise Unrecognised('the continue condition depends on the counter')
    au, bs, gw, dc = E.get(U, 0.0), E.get(S, 0.0), E.get(W, 0.0), E.get(ONE, 0.0)
    where = f.where(line=line)
    form = 'continue iff  %s  > 0' % show_lin(E)
    if reverse:
        return 'violated', 'the weights are scanned in reverse while the index counts from 0 (%s) @ %s' % (form, where)
    if au == 0:
        return 'violated', 'the continue condition does not depend on the variate (%s) @ %s' % (form, where)
    if au < 0 and bs == -au and gw == -au and dc == 0:
        return 'violated', 'comparison reversed: the scan continues while the variate lies *below* the cumulative bound (%s) @ %s' % (form, where)
    if au > 0 and bs == -au and gw == 0 and dc == 0:
        return 'violated', 'off by one: the variate is compared with the cumulative sum *before* this weight, index k+1 is returned on the k-th interval (%s) @ %s' % (form, where)
    if not (au > 0 and bs == -au and gw == -au and dc == 0):
        return 'violated', 'the continue condition is not a positive multiple of  u - S_j  (%s) @ %s' % (form, where)
    # the returned index
    rets = q.multi_def_values(f, 0) or [(None, None, f.local_expr(0))]
    brk_tb, exh_tb = brk[0][3], exh[0][3]
    for bi, cs, v in rets:
        on_exh = bi is not None and (bi == exh_tb or f.dominates(exh_tb, bi)) and not (bi == brk_tb or f.dominates(brk_tb, bi))
        if on_exh:
            # value returned when every weight was passed: the number of weights (the counter, or len of the scanned slice)
            vv = strip_refs(v)
            if (vv[0] == 'call' and short(vv[1]) == 'len') or vv[0] == 'len':
                continue
            try:
                rv_ = sc.lin(v, {l: {('x', l): 1.0} for l in tracked})
            except Unrecognised:
                raise
            if subst(rv_) != {'j': 1.0}:
                return 'violated', 'the value returned after passing every weight is  %s  instead of the number of weights @ %s' % (show_lin(subst(rv_)), f.where(bi))
            continue
        rv = sc.lin(v, {l: {('x', l): 1.0} for l in tracked})
        # value returned when breaking at iteration j
        at_break = subst(l_add(rv, {}, 1.0))
        bstate = brk[0][2]
        rb = {}
        for k, c in rv.items():
            if isinstance(k, tuple) and k[0] == 'x':
                rb = l_add(rb, subst(bstate[k[1]]), c)
            else:
                rb = l_add(rb, {k: c})
        if rb != {'j': 1.0}:
            return 'violated', 'the value returned when the scan stops at weight j is  %s  instead of j @ %s' % (show_lin(rb), f.where(bi) if bi is not None else f.where(0))
    return 'ok', '%s ; returns the number of completed iterations' % form


def analyse_chain(lib, f):
    """the same sampler written as an iterator chain
        weights.iter().scan(0.0, |cum, w| { *cum += w; Some(*cum) }).take_while(|c| c < u).count()
    -> ('ok' | 'bad', text) or raises Unrecognised.  Correct iff the scan yields the *updated* running sum and the
    prefix is taken while that sum is strictly below the variate."""
    chain = None
    for bi, t, e in q.calls_named(f, 'count'):
        tw = strip_refs(e[2][0]) if e[2] else None
        if tw is not None and q.is_call(tw, 'take_while') and len(tw[2]) == 2:
            sc = strip_refs(tw[2][0])
            if q.is_call(sc, 'scan') and len(sc[2]) == 3:
                chain = (bi, tw, sc)
            elif (q.is_call(sc, 'iter') or q.is_call(sc, 'into_iter')) and sc[2] and q.find_sub(sc[2][0], lambda x: x[0] == 'field' and strip_refs(x[1])[0] in ('param', 'deref')) is not None:
                # take_while straight over the stored weights: each *single* weight is compared, nothing accumulates
                pred, pcf, _ = q.closure_pred(lib, tw[2][1])
                if pred is not None and pcf is not None and not any(st_['rv'].get('r') == 'bin' and st_['rv'].get('op') in ('Add', 'Sub') for b_ in pcf.blocks for st_ in b_['stmts'] if st_['s'] == 'assign'):
                    return 'bad', 'the prefix is taken while a single weight (not the cumulative bound) compares with the variate: `weights.iter().take_while(|w| w < u).count()` is exact for two actions only'
    if chain is None:
        raise Unrecognised('no scan/take_while/count chain')
    bi, tw, sc = chain
    if not facts.is_const(strip_refs(sc[2][1]), 0):
        return 'bad', 'the running sum starts at %s, not 0' % facts.show(sc[2][1])[:20]
    scf, _ = q.closure_of(lib, sc[2][2])
    twf, _ = q.closure_of(lib, tw[2][1])
    if scf is None or twf is None or not scf.is_closure or not twf.is_closure:
        raise Unrecognised('scan / take_while closures not found')
    state = ('param', 2, scf.local_name(2))
    upd = None
    for bj, st, pl, rhs in q.stores(scf):
        if strip_refs(pl) == state:
            r = strip_refs(rhs)
            if r[0] == 'bin' and r[1] == 'Add' and strip_refs(r[2]) == state and q.find_sub(r[3], lambda x: x[0] == 'param' and x[1] == 3) is not None:
                upd = bj
            else:
                return 'bad', 'the scan state is updated with %s, not state + weight' % facts.show(r)[:40]
    if upd is None:
        raise Unrecognised('no `*state += weight` in the scan closure')
    y = strip_refs(q.ret_expr(scf))
    if not (y[0] == 'agg' and y[1].endswith('Option::Some') and y[2]):
        raise Unrecognised('scan closure does not return Some(..)')
    yv = strip_refs(y[2][0])
    if yv != state:
        return 'bad', 'the scan yields %s instead of the updated running sum: take_while compares single weights, not cumulative bounds' % facts.show(yv)[:40]
    pred, pcf, _ = q.closure_pred(lib, tw[2][1])
    if pred is None:
        raise Unrecognised('take_while predicate not a comparison')
    kind, a, b = pred
    item_left = a is not None and q.find_sub(a, lambda x: x[0] == 'param' and x[1] == 2) is not None
    item_right = b is not None and q.find_sub(b, lambda x: x[0] == 'param' and x[1] == 2) is not None
    strict_below = (kind == 'Lt' and item_left and not item_right) or (kind == 'Gt' and item_right and not item_left)
    if not strict_below:
        return 'bad', 'the prefix is taken while %s(%s, %s): not `cumulative bound < variate` (strict)' % (kind, facts.show(a)[:20], facts.show(b)[:20] if b is not None else '')
    return 'ok', 'scan yields the updated running sum from 0, prefix taken while it is strictly below the variate, result = length of that prefix'


def sampler_form(ctx, pid):
    rule = '%s.sampler-interval' % pid
    lib = ctx.lib
    cands = [g for g in lib.non_test_fns() if 'Multinomial' in g.name and short(g.name) == 'sample' and not g.is_closure]
    if not cands:
        ctx.sres(False, rule, rule + ':form', 'the categorical sampler returns k exactly on the k-th cumulative interval', '',
                 'no scan-loop categorical sampler named Multinomial in the library (a different sampler is in use): not decided here')
        return
    for f in cands:
        ctx.touch(f)
        try:
            try:
                status, text = analyse(f)
            except Unrecognised:
                status, text = analyse_chain(lib, f)
        except Unrecognised as e:
            ctx.sres(False, rule, rule + ':form', 'the categorical sampler returns k exactly on the k-th cumulative interval', f.where(0),
                     'sampler not of the recognised linear-scan shape (%s): not decided' % e)
            continue
        if status == 'ok':
            ctx.ok(rule, rule + ':form', 'linear-scan sampler: continue past weight j iff u lies beyond the j-th cumulative bound; return the number of weights passed', f.where(0), text,
                   breaks='every external-sampling draw is biased')
        else:
            ctx.bad(rule, rule + ':form', 'linear-scan sampler: continue past weight j iff u lies beyond the j-th cumulative bound; return the number of weights passed', f.where(0), text,
                    breaks='every external-sampling draw is biased (wrong index for a given variate)')
    # index range: the scan covers all but the last weight, so the result is < number of weights (evidence only)
    g = lib.one('solve::multinomial::Multinomial::<\'a>::new') or next(iter(lib.find('Multinomial::<\'a>::new')), None)
    if g is not None:
        r = strip_refs(q.ret_expr(g))
        s = facts.show(r)
        ok = 'RangeTo' in s and 'Sub(len(' in s and ', 1)' in s
        ctx.sres(ok, rule, rule + ':index-in-range', 'the scan covers all but the last weight, so the returned index is < the number of weights whatever the rounding of their sum', g.where(0), s[:120])
