"""E1 — call-graph effects over the instance-resolved call graph produced by the driver.

Nodes are function *instances* (generic arguments substituted along the walk from each root,
trait calls resolved, closures and fn items passed as arguments followed).  Leaves without MIR,
intrinsics, virtual and indirect calls are kept as nodes, so effects are recognised by def-path.
"""
import re

RNG_CRATES = ('rand', 'rand_distr', 'rand_core', 'rand_chacha', 'getrandom')


PREFIXES = ('intrinsic:', 'virtual:', 'once-shim:', 'fnptr-shim:', 'drop-glue:', 'clone-shim:', 'shim:', 'unresolved:', 'indirect:')


def node_path(n):
    """def-path of a graph node (`[kind:]crate@path|generic args`)"""
    p = n.split('|')[0]
    for pre in PREFIXES:
        if p.startswith(pre):
            p = p[len(pre):]
    if '@' in p.split('::')[0].split('<')[0]:
        p = p.split('@', 1)[1]
    return p


def node_crate(n):
    """crate that *defines* the function of a node (from the compiler, not from the printed path,
    which may go through re-exports such as rand_distr::num_traits)"""
    p = n.split('|')[0]
    for pre in PREFIXES:
        if p.startswith(pre):
            p = p[len(pre):]
    head = p.split('::')[0].split('<')[0]
    return head.split('@')[0] if '@' in head else ''


def is_rng(n):
    return node_crate(n) in RNG_CRATES


def reach(crate, root_suffix):
    r = crate.root(root_suffix)
    if r is None:
        return None, None
    return r, crate.reach_from(r['node'])


def hits(crate, parent, pred):
    g = crate.graph
    return [x for x in parent if pred(g['nodes'][x])]


def local_nodes(crate, parent):
    """reached nodes that are functions of the analysed crate itself (have a fact body)"""
    out = {}
    for x in parent:
        p = node_path(crate.graph['nodes'][x])
        if p in crate.fns:
            out.setdefault(p, x)
    return out


def callers_of(crate, pred):
    """set of caller node paths (any root) with a direct call edge to a node satisfying pred"""
    g = crate.graph
    out = set()
    for a, b, line, kind in g['edges']:
        if pred(g['nodes'][b]):
            out.add((node_path(g['nodes'][a]), node_path(g['nodes'][b]), line))
    return out
