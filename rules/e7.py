"""E7 — ExactSizeIterator contract lint.

For every `impl ExactSizeIterator for T` in the analysed crates: `next()` is analysed for how each
field of self is advanced — exactly one element per yielded item (UNIT: next / next_back /
split_first / split_last, whose Option decides Some/None) or several (MULTI: find, filter, nth,
split_at, skip_while …) — and `size_hint()` must add up `len()` of exactly the UNIT sources, or
`clone().filter(P).count()` with the same predicate P for a source advanced by `find(P)`.
Enum-typed sources are handled per variant.
"""
import e2
import facts
import q
from facts import norm, short, strip_refs

UNIT = {'next', 'split_first', 'split_first_mut', 'next_back', 'split_last', 'split_last_mut'}
MULTI = {'find', 'find_map', 'filter', 'position', 'skip_while', 'nth', 'split_at', 'split_at_mut', 'take_while',
         'any', 'all', 'last', 'skip', 'step_by', 'nth_back', 'rfind', 'advance_by', 'try_fold', 'fold', 'for_each', 'count', 'sum'}


def self_path(e):
    """path of a self-rooted place expression: 'field:Variant.0' or None"""
    e = strip_refs(e)
    parts = []
    while True:
        e = strip_refs(e)
        if e[0] == 'field':
            parts.append(e[2])
            e = e[1]
        elif e[0] == 'downcast':
            parts.append(':' + e[2])
            e = e[1]
        elif e[0] == 'cast':
            e = e[1]
        elif e[0] == 'param' and e[1] == 1:
            break
        else:
            return None
    if not parts:
        return None
    out = ''
    for p in reversed(parts):
        out += p if (p.startswith(':') or not out) else '.' + p
    return out


def _item_path(e, is_root):
    """field path from the iterated item down to e (refs / derefs ignored), or None"""
    e = norm(e)
    parts = []
    for _ in range(12):
        if is_root(e):
            return tuple(reversed(parts))
        if e[0] == 'field':
            parts.append(e[2])
            e = norm(e[1])
        elif e[0] in ('downcast', 'cast'):
            e = norm(e[1])
        else:
            return None
    return None


def _desc(kind, a, b, is_root):
    """predicate descriptor independent of how the item is bound: (kind, path of the compared component, other side)"""
    pa, pb = _item_path(a, is_root), (_item_path(b, is_root) if b is not None else None)
    if pa is not None and pb is None:
        return (kind, pa, e2.shape(b) if b is not None else None)
    if pb is not None and pa is None:
        return (facts.SWAP.get(kind, kind), pb, e2.shape(a))
    return (kind, e2.shape(a), e2.shape(b) if b is not None else None)


def pred_shape(crate, closure_expr):
    pred, cf, agg = q.closure_pred(crate, closure_expr)
    if pred is None:
        return None
    ip = q.item_param(cf)
    return _desc(pred[0], pred[1], pred[2], lambda x: x[0] == 'param' and x[1] == ip)


def counting_loops(sh):
    """`let mut n = 0; for item in SRC.clone() { if P(item) { n += 1 } }` in size_hint: (source expr, descriptor, line)"""
    out = []
    for h, body in sh.loops:
        t = sh.blocks[h]['term']
        if t['t'] != 'call' or short(t['callee'].get('path') or '') != 'next' or not t['args']:
            continue
        it = sh.call_expr(t, h)
        site = it[3]
        is_item = lambda x: x[0] == 'field' and x[2] == '0' and norm(x[1])[0] == 'downcast' and norm(x[1])[2] == 'Some' and norm(norm(x[1])[1])[0] == 'call' and norm(norm(x[1])[1])[3] == site
        src = strip_refs(it[2][0])
        while src[0] == 'call' and short(src[1]) in ('into_iter', 'by_ref', 'iter') and src[2]:
            src = strip_refs(src[2][0])
        inner = src[2][0] if src[0] == 'call' and short(src[1]) == 'clone' and src[2] else src
        for l, ds in sh.defs.items():
            if not facts.SCALAR_TY.match(sh.locals[l]['ty']) or sh.locals[l]['ty'] in ('f64', 'f32', 'bool'):
                continue
            ins = [d for d in ds if d[1] in body and d[0] == 'assign']
            outs = [d for d in ds if d[1] not in body]
            if len(ins) != 1 or len(outs) != 1 or outs[0][0] != 'assign':
                continue
            init = sh.rvalue_expr(outs[0][3], outs[0][1])
            step = strip_refs(sh.rvalue_expr(ins[0][3], ins[0][1]))
            if step[0] == 'field':
                step = strip_refs(step[1])
            if not facts.is_const(init, 0) or not (step[0] == 'bin' and step[1] in ('Add', 'AddWithOverflow') and facts.is_const(step[3], 1)):
                continue
            conds = [c for c in sh.conds(ins[0][1]) if c['switch'] in body and c['kind'] in ('Gt', 'Ge', 'Lt', 'Le', 'Eq', 'Ne') and c.get('truth') is True]
            if len(conds) == 1:
                c = conds[0]
                out.append((inner, _desc(c['kind'], c['a'], c['b'], is_item), t['line']))
            elif not conds:
                out.append((inner, None, t['line']))
    return out


def analyse_next(crate, nx):
    """-> {path: {'kind': 'unit'|'multi', 'ops': set, 'pred': shape or None, 'governs': bool}}"""
    adv = {}
    for bi, t, p in nx.calls():
        s = short(p)
        if not t['args'] or (s not in UNIT and s not in MULTI):
            continue
        e = nx.call_expr(t, bi)
        recv = e[2][0]
        path = self_path(recv)
        hops = 0
        while path is None and hops < 3:
            r_ = strip_refs(recv)
            if r_[0] == 'call' and short(r_[1]) in ('into_iter', 'by_ref', 'iter') and r_[2]:
                recv = r_[2][0]
                path = self_path(recv)
                hops += 1
            else:
                break
        if path is None:
            continue
        rec = adv.setdefault(path, {'kind': 'unit', 'ops': set(), 'pred': None, 'governs': False, 'line': t['line']})
        rec['ops'].add(s)
        lp = nx.loop_of(bi)
        if s in UNIT and lp is not None:
            # `for x in &mut self.field { if P(x) { return Some(x) } }` advances the field like find(P)
            rec['kind'] = 'multi'
            rec['ops'].add('loop')
            site = e[3]
            is_item = lambda x: x[0] == 'field' and x[2] == '0' and norm(x[1])[0] == 'downcast' and norm(x[1])[2] == 'Some' and norm(norm(x[1])[1])[0] == 'call' and norm(norm(x[1])[1])[3] == site
            for bj in sorted(lp[1]):
                tt = nx.blocks[bj]['term']
                if tt['t'] != 'switch':
                    continue
                c = nx.cond_of(bj, frozenset(['else']))
                if c['kind'] in ('Gt', 'Ge', 'Lt', 'Le', 'Eq') and c.get('truth') is True and c.get('b') is not None:
                    # the yielding edge is the one that leaves the loop
                    tgt_true = tt['otherwise']
                    leaves = tgt_true not in lp[1] or any(nx.blocks[x]['term']['t'] == 'return' for x in [tgt_true])
                    pred_c = c if leaves else None
                    if pred_c is None:
                        c0 = nx.cond_of(bj, frozenset(['0']))
                        t0 = [tb for v, tb in tt['targets'] if v == '0']
                        if t0 and t0[0] not in lp[1] and c0['kind'] in ('Gt', 'Ge', 'Lt', 'Le', 'Eq'):
                            # yields on the false edge: the complementary comparison (exact for the values compared with a literal here)
                            comp = {'Gt': 'Le', 'Ge': 'Lt', 'Lt': 'Ge', 'Le': 'Gt'}.get(c0['kind'])
                            pred_c = dict(c0, kind=comp) if comp else None
                    if pred_c is not None:
                        rec['pred'] = _desc(pred_c['kind'], pred_c['a'], pred_c['b'], is_item)
        if s in MULTI:
            rec['kind'] = 'multi'
            if s in ('find', 'filter', 'position', 'skip_while', 'take_while') and len(e[2]) > 1:
                rec['pred'] = pred_shape(crate, e[2][1])
        # governing: the Option result is switched on, or mapped straight into the return value
        dest = t['dest']
        res = ('call', e[1], e[2], e[3])
        governs = False
        for bj in nx.reach:
            tt = nx.blocks[bj]['term']
            if tt['t'] == 'switch':
                d = nx.expr(tt['d'], bj)
                if d[0] == 'discr' and q.find_sub(d, lambda u: u[0] == 'call' and u[3] == e[3]) is not None:
                    governs = True
        r0 = nx.local_expr(0)
        if r0[0] == 'call' and short(r0[1]) in ('map', 'and_then', 'copied', 'cloned') and q.find_sub(r0, lambda u: u[0] == 'call' and u[3] == e[3]) is not None:
            governs = True
        # ... or is the return value itself (`fn next(&mut self) { self.iter.next() }`: pure delegation)
        if facts.strip_refs(r0)[0] == 'call' and len(facts.strip_refs(r0)) > 3 and facts.strip_refs(r0)[3] == e[3] and t['dest']['l'] == 0 and not t['dest']['p']:
            governs = True
        # multi-def return slot: any def that maps the result (directly, or through the return slot of a spliced helper)
        for d in nx.defs.get(0, []):
            if d[0] == 'call':
                ce = nx.call_expr(d[3], d[1])
                if short(ce[1]) in ('map', 'and_then') and q.find_sub(ce, lambda u: u[0] == 'call' and u[3] == e[3]) is not None:
                    governs = True
        for _, _, v in q.multi_def_values(nx, 0):
            v = facts.strip_refs(v)
            if v[0] == 'call' and short(v[1]) in ('map', 'and_then') and q.find_sub(v, lambda u: u[0] == 'call' and u[3] == e[3]) is not None:
                governs = True
        rec['governs'] = rec['governs'] or governs
    return adv


def analyse_hint(crate, sh):
    """-> {path: {'how': 'len'|'count', 'pred': shape}}"""
    hint = {}
    for bi, t, p in sh.calls():
        s = short(p)
        if not t['args']:
            continue
        e = sh.call_expr(t, bi)
        if s == 'len':
            path = self_path(e[2][0])
            if path is not None:
                hint[path] = {'how': 'len', 'pred': None, 'line': t['line']}
        elif s == 'count':
            # count(filter(clone(FIELD), P))
            fe = strip_refs(e[2][0])
            if q.is_call(fe, 'filter') and len(fe[2]) > 1:
                src = strip_refs(fe[2][0])
                inner = src[2][0] if src[0] == 'call' and short(src[1]) in ('clone', 'iter', 'by_ref') and src[2] else src
                path = self_path(inner)
                if path is None and src[0] == 'call':
                    path = self_path(src)
                if path is not None:
                    hint[path] = {'how': 'count', 'pred': pred_shape(crate, fe[2][1]), 'line': t['line']}
    for src, desc, line in counting_loops(sh):
        path = self_path(src)
        if path is not None and desc is not None:
            hint[path] = {'how': 'count', 'pred': desc, 'line': line}
    # plain field lengths through PtrMetadata (slice.len() is lowered to it at opt-level 0 sometimes)
    for bi, si, st in sh.assigns():
        e = sh.rvalue_expr(st['rv'], bi)
        if e[0] == 'len':
            path = self_path(e[1])
            if path is not None:
                hint.setdefault(path, {'how': 'len', 'pred': None, 'line': st['line']})
    return hint


def exact_size_impls(crate):
    out = []
    for im in crate.impls:
        if im['trait'].endswith('iter::ExactSizeIterator'):
            out.append(im['self'].split('<')[0])
    return sorted(set(out))


def check_type(crate, self_ty):
    """returns (findings, info) for one ExactSizeIterator type; finding = (instance, ok, detail, line)"""
    nx = sh = None
    for n, f in crate.fns.items():
        if f.j.get('impl_self', '').split('<')[0] == self_ty.split('<')[0] and f.j.get('impl_trait', '').endswith('iter::Iterator'):
            if n.endswith('::next'):
                nx = f
            elif n.endswith('::size_hint'):
                sh = f
    if nx is None:
        return None, None
    if sh is None:
        return [('size_hint', False, 'ExactSizeIterator without a size_hint override: the default (0, None) breaks len()', nx.line_of(0))], (nx, None)
    adv = analyse_next(crate, nx)
    hint = analyse_hint(crate, sh)
    out = []
    for path, rec in sorted(adv.items()):
        h = hint.get(path)
        if rec['kind'] == 'unit' and rec['governs']:
            out.append((path, bool(h) and h['how'] == 'len',
                        '`%s` is advanced one element per yielded item (%s) %s' % (path, '/'.join(sorted(rec['ops'])), 'and counted by len()' if h and h['how'] == 'len' else 'but is absent from size_hint'),
                        (h or rec)['line']))
        elif rec['kind'] == 'multi' and rec['governs']:
            good = bool(h) and h['how'] == 'count' and h['pred'] is not None and h['pred'] == rec['pred']
            out.append((path, good,
                        '`%s` is advanced by %s (several elements per yielded item) %s' % (
                            path, '/'.join(sorted(rec['ops'])),
                            'and counted with the same predicate' if good else ('but size_hint reports %s' % (('len()' if h['how'] == 'len' else 'a count with a different predicate %s vs %s' % (h['pred'], rec['pred'])) if h else 'nothing for it'))),
                        (h or rec)['line']))
        elif h is not None and h['how'] == 'len':
            out.append((path, False, '`%s` is counted by len() but next() does not advance it one-per-item (%s, does not decide Some/None)' % (path, '/'.join(sorted(rec['ops']))), h['line']))
    for path, h in sorted(hint.items()):
        if path not in adv:
            out.append((path, False, 'size_hint counts `%s`, which next() never advances' % path, h['line']))
    return out, (nx, sh)
