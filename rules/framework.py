"""Check orchestration: obligations, known findings, evidence, exit codes."""
import importlib
import json
import os
import sys
import time

HERE = os.path.dirname(os.path.abspath(__file__))
VERIF = os.path.dirname(HERE)
sys.path.insert(0, HERE)

import extract  # noqa: E402
import facts  # noqa: E402

KNOWN = os.path.join(VERIF, 'known_findings.txt')
EVID = os.path.join(VERIF, 'evidence')


class Ob(dict):
    """one obligation (rule instance) and its verdict.

    kind  'N' necessary-condition rule (may alarm) | 'S' sufficient-condition rule (evidence only)
    status 'ok' | 'violated' | 'proved' | 'not-proved'
    key   stable identity: rule:function:instance — never a line number
    """

    def __init__(self, rule, key, status, text, site='', detail='', kind='N', breaks=''):
        super().__init__(rule=rule, key=key, status=status, text=text, site=site, detail=detail, kind=kind)
        if breaks:
            self['breaks'] = breaks

    @property
    def violated(self):
        return self['kind'] == 'N' and self['status'] == 'violated'


class Ctx:
    """facts for one build configuration + counters"""

    def __init__(self, config='default', repo=None):
        self.config = config
        d, info = extract.ensure_facts(config, repo)
        self.info = info
        self.crates = facts.load_crates(d, info)
        self.lib = self.crates.get('lib')
        self.bin = self.crates.get('bin')
        self.obs = []
        self.undecided = []
        self._keys = {}
        self.stats = {'functions_inspected': set(), 'call_sites': 0, 'paths': 0}
        self.repo = repo or extract.REPO

    # --- reporting helpers
    def _uniq(self, key):
        n = self._keys.get(key, 0)
        self._keys[key] = n + 1
        return key if n == 0 else '%s#%d' % (key, n + 1)

    def ok(self, rule, key, text, site='', detail='', **kw):
        o = Ob(rule, self._uniq(key), 'ok', text, site, detail, **kw)
        self.obs.append(o)
        return o

    def bad(self, rule, key, text, site='', detail='', **kw):
        dr = self.drift_of(site)
        if dr is not None and os.environ.get('CFR_DRIFT_LOG'):
            pid_file = os.path.join(self.repo, '.patch_id')
            tag = open(pid_file).read().strip() if os.path.exists(pid_file) else self.repo
            with open(os.environ['CFR_DRIFT_LOG'], 'a') as fh:
                fh.write('%s\t%s\t%s\t%.3f\t%s\n' % (tag, key, getattr(site, 'fn', ''), dr, getattr(self, '_drift_abs', {}).get(getattr(site, 'fn', '').split('::{closure')[0], '?')))
        gone = self.collaborators_gone(site)
        if gone:
            # the function this verdict sits in used to work with crate-local functions that no longer exist (not
            # renamed, not moved: gone — e.g. turned into methods of a new context type): the code around the rule's
            # anchor has been redesigned and what the rule expects to see there is not evidence either way
            o = Ob(rule, self._uniq('restructured:%s' % key), 'not-proved', text, site,
                   'NOT DECIDED: %s worked with %s in the reference tree / works through it now: redesigned around the rule\'s anchor; the finding there (%s) is not taken as a violation' % (
                       getattr(site, 'fn', '?').split('::{closure')[0], ', '.join(sorted(gone)), str(detail)[:120]), kind='S')
            self.obs.append(o)
            self.undecided.append(o)
            return o
        o = Ob(rule, self._uniq(key), 'violated', text, site, detail, **kw)
        self.obs.append(o)
        return o

    def collaborators_gone(self, site):
        fn = getattr(site, 'fn', None)
        if not fn:
            return set()
        top = fn.split('::{closure')[0]
        if not hasattr(self, '_gone'):
            import inline
            kn = inline.known()
            self._gone = {}
            self._ref_calls = {}
            for kind, c in self.crates.items():
                if c is None or kind not in ('lib', 'bin'):
                    continue
                cur_short = {n.split('::')[-1] for n, f in c.fns.items() if not f.is_closure}
                # only functions of some size count: a one-line accessor deleted together with its only use is an edit,
                # a traversal / driver that disappears is a redesign
                shapes = kn.get(kind + '_shape') or {}
                ref_short = {n.split('::')[-1] for n in (kn.get(kind) or []) if sum((shapes.get(n) or {}).values()) >= 8}
                self._gone[kind] = ref_short - cur_short
                for n, calls in (kn.get(kind + '_calls') or {}).items():
                    self._ref_calls[n] = set(calls)
        out = set()
        import inline
        for kind, g in self._gone.items():
            c = self.crates.get(kind)
            if c is not None and (top in c.fns or any(n.startswith(top + '::{closure') for n in c.fns)):
                out |= (self._ref_calls.get(top, set()) & g)
                if top not in (inline.known().get(kind) or []) and g:
                    # a function the reference tree does not have, in a module from which reference functions of some
                    # size have disappeared: it is (part of) what replaced them — there is no reference shape to hold it to
                    segs = top.lstrip('<').split('::')
                    mod = '::'.join(segs[:2]) if segs[0] == 'solve' and len(segs) > 2 else segs[0]
                    gone_here = {n.split('::')[-1] for n in (inline.known().get(kind) or []) if n.startswith(mod + '::') and n.split('::')[-1] in g}
                    out |= gone_here
        return out

    def drift_of(self, site):
        """how far the function a verdict sits in has moved from its reference shape: 0 = same multiset of calls /
        operators / constructions, 1 = nothing in common (or a function the reference tree does not have)"""
        fn = getattr(site, 'fn', None)
        if not fn:
            return None
        top = fn.split('::{closure')[0]
        if not hasattr(self, '_drift'):
            self._drift = {}
        if top in self._drift:
            return self._drift[top]
        import inline
        kn = inline.known()
        val = None
        for kind, c in self.crates.items():
            f = c.fns.get(top) if c is not None else None
            if f is None:
                continue
            ref = (kn.get(kind + '_shape') or {}).get(top)
            if ref is None:
                val = 1.0
            else:
                cur = f.shape()
                keys = set(cur) | set(ref)
                inter = sum(min(cur.get(k, 0), ref.get(k, 0)) for k in keys)
                tot = max(sum(cur.values()), sum(ref.values()))
                val = (1.0 - inter / tot) if tot else 0.0
                self._drift_abs = getattr(self, '_drift_abs', {})
                self._drift_abs[top] = tot - inter
            break
        self._drift[top] = val
        return val

    def verdict(self, cond, rule, key, text, site='', detail='', **kw):
        return (self.ok if cond else self.bad)(rule, key, text, site, detail, **kw)

    def sres(self, cond, rule, key, text, site='', detail=''):
        o = Ob(rule, self._uniq(key), 'proved' if cond else 'not-proved', text, site, detail, kind='S')
        self.obs.append(o)
        return o

    def anchor_lost(self, rule, anchor, detail='', hard=False):
        """the construct a rule decides was not found.
        hard: a public API function, the binary's facts, an instance-graph root or a documentation anchor is
              gone — the property cannot be decided at all: fail closed (ANCHOR-LOST violation).
        soft (default): the anchored function exists but the construct inside it has a shape the rule does
              not recognise (a refactor, or a rewrite): reported as `not-proved` with a NOTE, never as an
              alarm — an unrecognised shape is not evidence that the behaviour changed."""
        if hard:
            return self.bad(rule, 'anchor-lost:%s:%s' % (rule, anchor),
                            'the code this rule decides must be present (fail closed, never pass vacuously)',
                            '', 'ANCHOR-LOST: cannot find %s %s' % (anchor, detail))
        o = Ob(rule, self._uniq('shape-unrecognised:%s:%s' % (rule, anchor)), 'not-proved',
               'the construct this rule decides must have a recognised shape to be decided', '',
               'NOT DECIDED: %s not found in a recognised shape %s' % (anchor, detail), kind='S')
        self.obs.append(o)
        self.undecided.append(o)
        return o

    def fn(self, crate, suffix, rule=None):
        """unique function by def-path suffix; records inspection; anchor-lost on failure"""
        c = self.crates.get(crate)
        f = c.one(suffix) if c else None
        if f is None:
            if rule:
                import inline
                vis = inline.known().get(crate + '_vis', {})
                private_mods = ('solve::', 'regret::', 'compact::', 'split::', '<solve::', '<compact::', '<split::', '<regret::')
                public = crate == 'lib' and any(v == 'Public' and not n.startswith(private_mods) for n, v in vis.items() if n == suffix or n.endswith('::' + suffix) or n.endswith(suffix))
                public = public or (crate == 'bin' and suffix == 'main')
                self.anchor_lost(rule, '%s::%s' % (crate, suffix), hard=public or c is None)
            return None
        self.stats['functions_inspected'].add(f.name)
        return f

    def touch(self, f):
        if f is not None:
            self.stats['functions_inspected'].add(f.name)


class SubCtx:
    """view of a Ctx that re-labels the rules of another property's module (shared sub-rules)"""

    def __init__(self, ctx, old, new):
        self._ctx, self._old, self._new = ctx, old, new

    def __getattr__(self, k):
        return getattr(self._ctx, k)

    def _r(self, s):
        return s.replace(self._old, self._new) if isinstance(s, str) else s

    def ok(self, rule, key, *a, **kw):
        return self._ctx.ok(self._r(rule), self._r(key), *a, **kw)

    def bad(self, rule, key, *a, **kw):
        return self._ctx.bad(self._r(rule), self._r(key), *a, **kw)

    def verdict(self, cond, rule, key, *a, **kw):
        return self._ctx.verdict(cond, self._r(rule), self._r(key), *a, **kw)

    def sres(self, cond, rule, key, *a, **kw):
        return self._ctx.sres(cond, self._r(rule), self._r(key), *a, **kw)

    def anchor_lost(self, rule, anchor, detail='', hard=False):
        return self._ctx.anchor_lost(self._r(rule), anchor, detail, hard=hard)

    def fn(self, crate, suffix, rule=None):
        return self._ctx.fn(crate, suffix, self._r(rule))


def read_known():
    known, fixed = {}, []
    if os.path.exists(KNOWN):
        for line in open(KNOWN):
            line = line.strip()
            if not line or line.startswith('#'):
                continue
            if line.startswith('known:'):
                parts = line[6:].split()
                kv = dict(p.split('=', 1) for p in parts[:2] if '=' in p)
                rest = line[6:].split(None, 2)[2] if len(line[6:].split(None, 2)) > 2 else ''
                known[(kv.get('property'), kv.get('key'))] = rest
            elif line.startswith('fixed:'):
                fixed.append(line)
    return known, fixed


NEEDS_BIN = {'C15', 'C16', 'C17'}


def run_property(pid, tier='quick', configs=None, repo=None):
    """run all rules of one property; returns (obs, module, ctxs)"""
    mod = importlib.import_module('props.%s' % pid.lower())
    if configs is None:
        configs = ['default'] if tier == 'quick' else ['default', 'nodefault', 'tests']
        if pid in NEEDS_BIN:
            # the library-only build has no binary, and rustc's test harness replaces the binary's `main`
            configs = ['default']
    all_obs = []
    ctxs = []
    for cfg in configs:
        ctx = Ctx(cfg, repo)
        if cfg == 'tests':
            # analyse the cfg(test) builds (test modules themselves are excluded by the rules)
            if 'lib-test' in ctx.crates:
                ctx.lib = ctx.crates['lib-test']
                ctx.crates['lib'] = ctx.lib
            if 'bin-test' in ctx.crates:
                ctx.bin = ctx.crates['bin-test']
                ctx.crates['bin'] = ctx.bin
        mod.run(ctx)
        for o in ctx.obs:
            o['config'] = cfg
        all_obs.extend(ctx.obs)
        ctxs.append(ctx)
    return all_obs, mod, ctxs


def main(argv):
    import argparse
    ap = argparse.ArgumentParser()
    ap.add_argument('pid')
    ap.add_argument('--tier', default=os.environ.get('VERIF_TIER', 'quick'))
    ap.add_argument('--replay')
    ap.add_argument('--repo')
    ap.add_argument('--no-evidence', action='store_true')
    ap.add_argument('--keys', action='store_true', help='print violation keys only (self-test use)')
    a = ap.parse_args(argv)
    pid = a.pid.upper()
    tier = a.tier if a.tier in ('quick', 'thorough') else 'quick'
    t0 = time.time()
    seed = int(os.environ.get('VERIF_SEED', '0') or 0)
    try:
        obs, mod, ctxs = run_property(pid, tier, repo=a.repo)
    except extract.ExtractError as e:
        print('ERROR: fact extraction failed: %s' % e)
        # the tree does not type-check: no verdict can be computed; fail closed
        rp = write_replay(pid, 0, {'rule': 'extract', 'key': 'extract-failed', 'detail': str(e)[-2000:]})
        print('VIOLATION property=%s replay=%s' % (pid, rp))
        return 1
    selftest_summary = None
    if tier == 'thorough' and not a.keys and not a.replay and not a.repo:
        # (c) configuration agreement: a rule instance must get the same verdict in every configuration
        by_key = {}
        for o in obs:
            by_key.setdefault((o['key'], o['kind']), set()).add(o['status'])
        for (k, kind), sts in sorted(by_key.items()):
            if len(sts) > 1 and kind == 'N':
                print('NOTE: %s has different verdicts across build configurations: %s' % (k, sorted(sts)))
        # (d) rule self-validation: replay the corpus entries of this property on scratch copies
        import selftest
        selftest_summary = selftest.run_for(pid, jobs=int(os.environ.get('VERIF_JOBS', '8')))
        for line in selftest_summary['lines']:
            print('  selftest ' + line)
        if selftest_summary['failed']:
            print('CHECKER-SELFTEST: %d corpus expectation(s) of %s not met on this tree (a defect of the checker, not a property violation)' % (selftest_summary['failed'], pid))
        # (e) the independently written patch sets: seeded breaking changes must still be caught, benign refactors must stay silent
        import patchsets
        ps = patchsets.run_for(pid, jobs=int(os.environ.get('VERIF_JOBS', '8')))
        for line in ps['lines']:
            print('  patchset ' + line)
        if ps['failed']:
            print('CHECKER-SELFTEST: %d patch-set expectation(s) of %s not met on this tree (a defect of the checker, not a property violation)' % (ps['failed'], pid))
        selftest_summary['patchsets'] = {k: v for k, v in ps.items() if k != 'lines'}
        selftest_summary['patchset_entries'] = ps['lines']
    known, fixed = read_known()
    viol = [o for o in obs if o.violated]
    # de-duplicate by key across configurations
    seen = {}
    for o in viol:
        seen.setdefault(o['key'], o)
    viol = list(seen.values())
    if a.keys:
        for o in viol:
            print(o['key'])
        return 0
    if a.replay:
        want = json.load(open(a.replay))
        hit = [o for o in viol if o['key'] == want.get('key')]
        if hit:
            print(json.dumps(hit[0], indent=1))
            print('VIOLATION property=%s replay=%s' % (pid, a.replay))
            return 1
        print('replay: key %s no longer violated on the current tree' % want.get('key'))
        return 0
    new, listed = [], []
    for o in viol:
        if (pid, o['key']) in known:
            listed.append(o)
        else:
            new.append(o)
    wall = time.time() - t0
    if not a.no_evidence:
        write_evidence(pid, tier, seed, obs, viol, listed, mod, ctxs, time.time() - t0, selftest_summary)
    for o in listed:
        print('KNOWN-FINDING: property=%s %s — %s [%s]' % (pid, o['key'], known[(pid, o['key'])], o['site']))
    n_ok = sum(1 for o in obs if o['status'] in ('ok', 'proved'))
    print('%s %s: %d obligations, %d ok/proved, %d violated (%d known), %d not-proved (S-rules), %.1fs' % (
        pid, tier, len(obs), n_ok, len(viol), len(listed), sum(1 for o in obs if o['status'] == 'not-proved'), wall))
    for o in obs:
        if o['kind'] == 'S' and o['key'].startswith('shape-unrecognised:'):
            print('NOTE: %s — %s' % (o['key'], o['detail']))
    rc = 0
    for i, o in enumerate(new):
        rp = write_replay(pid, i, o)
        print('  %s @ %s\n    rule: %s\n    required: %s\n    found: %s' % (o['key'], o['site'], o['rule'], o['text'], o['detail']))
        if o.get('breaks'):
            print('    breaks: %s' % o['breaks'])
        print('VIOLATION property=%s replay=%s' % (pid, rp))
        rc = 1
    return rc


def write_replay(pid, i, o):
    d = os.path.join(EVID, 'replay')
    os.makedirs(d, exist_ok=True)
    p = os.path.join(d, '%s-%d.json' % (pid, i))
    json.dump(dict(o), open(p, 'w'), indent=1)
    return p


def write_evidence(pid, tier, seed, obs, viol, listed, mod, ctxs, wall, selftest_summary=None):
    os.makedirs(EVID, exist_ok=True)
    n_ob = [o for o in obs if o['kind'] == 'N']
    s_ob = [o for o in obs if o['kind'] == 'S']
    fns = set()
    for c in ctxs:
        fns |= c.stats['functions_inspected']
    analysed = {}
    for c in ctxs:
        for f in c.info['files']:
            analysed['%s/%s' % (c.config, f['name'])] = f['fns']
    distinct = len({o['key'] for o in n_ob})
    samples = []
    for o in obs[:400]:
        samples.append({k: o[k] for k in ('rule', 'key', 'status', 'site', 'text', 'detail', 'kind') if o.get(k) not in (None, '')})
    ev = {
        'property_id': pid,
        'tier': tier,
        'seed': seed,
        'level': 'other',
        'coverage': {
            'explanation': getattr(mod, 'EXPLANATION', '').strip(),
            'rule': 'every rule instance (obligation) is enumerated from the MIR facts of the current /repo tree; '
                    'an instance is non-trivial when it names a concrete site (function, call, guard, table entry) that had to be decided; '
                    'distinct = distinct stable keys of N-rule instances',
            'evaluations': len(obs),
            'distinct_nontrivial': distinct,
            'obligations': len(n_ob),
            'discharged': sum(1 for o in n_ob if o['status'] == 'ok'),
            's_rules': len(s_ob),
            's_rules_proved': sum(1 for o in s_ob if o['status'] == 'proved'),
            'mir_bodies_analysed': analysed,
            'functions_inspected': sorted(fns),
            'configs': [c.config for c in ctxs],
            'tree_hash': ctxs[0].info['tree'] if ctxs else None,
            'known_findings_matched': [o['key'] for o in listed],
            'not_decided': getattr(mod, 'NOT_DECIDED', []),
            'samples': samples,
            'exhaustive': True,
            'checker_cmd': './check %s --tier %s' % (pid, tier),
            'trusted_base': ['rustc type checker, MIR construction and trait resolution (nightly 1.97)',
                             'cfr-facts driver serialisation', 'the Python rules and their frozen tables',
                             'contracts of third-party crates (rayon, std::sync, portable_atomic, rand_distr, serde_json, gambit-parser, indexmap)'],
        },
        'assumptions': getattr(mod, 'ASSUMPTIONS', []),
        'wall_s': round(wall, 3),
        'violations': len(viol),
    }
    if selftest_summary is not None:
        ev['coverage']['selftest'] = {k: v for k, v in selftest_summary.items() if k not in ('lines', 'patchset_entries')}
        ev['coverage']['selftest']['patchset_entries'] = selftest_summary.get('patchset_entries', [])
        ev['coverage']['selftest']['entries'] = selftest_summary['lines']
    json.dump(ev, open(os.path.join(EVID, '%s.json' % pid), 'w'), indent=1, sort_keys=False)


if __name__ == '__main__':
    sys.exit(main(sys.argv[1:]))
