"""MIR-level inlining of *new* private helpers (robustness of the rules to helper extraction).

The rules anchor on functions by resolved def-path.  When a maintainer extracts part of an anchored
function into a new private helper (or binds a local closure and calls it), the construct a rule
decides moves to a function no rule knows.  Rather than loosening every rule, the fact base is
normalised first: every call to a function of the same crate whose def-path is **not** in the frozen
reference list `known_fns.json` (the function names of the tree the rules were written against) is
replaced by the callee's MIR body, spliced into the caller:

  * callee locals / blocks / promoted constants are renumbered behind the caller's;
  * each argument is assigned to the callee's parameter local, the callee's `_0` is assigned to the
    call's destination on every `return`, which becomes a `goto` to the call's continuation;
  * a directly called local closure (`Fn*::call*` resolved to a closure of the same function) is
    treated the same way, its tupled arguments being untupled.

Known functions are never inlined (rules look for calls *to* them).  Recursion and depth are bounded.
A new helper that is private and whose every call site was inlined is then dropped from the function
table, so "every function" scans (e.g. the division rule) judge its body in the caller's context —
where the guards and the audited invariants live — and not out of context.

This is a transformation of the facts, not of /repo, and it is the identity on the reference tree.
"""
import copy
import json
import os

HERE = os.path.dirname(os.path.abspath(__file__))
KNOWN_FILE = os.path.join(HERE, 'known_fns.json')
MAX_DEPTH = 4
MAX_BLOCKS = 4000

_known = None
_CTX = {}


def known():
    global _known
    if _known is None:
        try:
            _known = {k: (set(v) if isinstance(v, list) else v) for k, v in json.load(open(KNOWN_FILE)).items()}
        except (OSError, ValueError):
            _known = {}
    return _known


def _shift_place(pl, dl):
    pl['l'] += dl
    for p in pl['p']:
        if p['k'] == 'index':
            p['l'] += dl


def _shift(x, dl, db, dp):
    """shift locals by dl, block indices by db, promoted indices by dp — in place, recursively"""
    if isinstance(x, list):
        for y in x:
            _shift(y, dl, db, dp)
        return
    if not isinstance(x, dict):
        return
    if 'l' in x and 'p' in x and isinstance(x['p'], list):
        _shift_place(x, dl)
        return
    if x.get('k') == 'promoted' and 'i' in x:
        x['i'] += dp
    for k, v in x.items():
        if k in ('to', 'otherwise') and isinstance(v, int):
            if v >= 0:
                x[k] = v + db
        elif k == 'targets' and isinstance(v, list):
            for tv in v:
                tv[1] += db
        elif isinstance(v, (dict, list)):
            _shift(v, dl, db, dp)


def _is_closure_call(c):
    d = c.get('def') or ''
    return d.rsplit('::', 1)[-1] in ('call', 'call_mut', 'call_once') and 'ops::' in d or d in ('std::ops::Fn::call', 'std::ops::FnMut::call_mut', 'std::ops::FnOnce::call_once')


def _field_operand(op, i, ty=''):
    """operand denoting field i of a tuple operand"""
    if op.get('o') in ('copy', 'move'):
        pl = copy.deepcopy(op['pl'])
        pl['p'].append({'k': 'field', 'i': i, 'n': ''})
        pl['ty'] = ty
        return {'o': op['o'], 'pl': pl}
    return None


def ref_kind(j):
    """which reference table a fact set is compared with: the library's (also its cfg(test) build, which rustc marks as an
    executable) or the binary's"""
    k = j.get('_kind')
    if k:
        return 'lib' if str(k).startswith('lib') else 'bin'
    return 'bin' if j.get('is_bin') else 'lib'


def inline_crate(j):
    """inline calls to unknown local helpers in every function of a crate's fact JSON (in place)"""
    kn = known().get(ref_kind(j))
    if kn is None:
        return {'inlined': 0, 'dropped': []}
    moved = _alias_moved(j, kn)
    renamed = moved + _alias_renamed(j, kn)
    renamed += _alias_fields(j)
    renamed += _alias_error_enums(j)
    by_name = {f['name']: f for f in j['fns']}
    _CTX['by_name'], _CTX['j'] = by_name, j
    stats = {'inlined': 0, 'dropped': [], 'sites': [], 'renamed': renamed}
    uninlined_calls = set()

    # new functions that are (mutually) recursive stay functions: splicing them multiplies their bodies
    unk_calls = {}
    for f_ in j['fns']:
        if f_['name'] in kn or f_.get('kind') == 'Closure':
            continue
        outs = set()
        for g_ in j['fns']:
            if g_['name'] == f_['name'] or g_['name'].startswith(f_['name'] + '::{closure'):
                for b_ in g_['blocks']:
                    t_ = b_['term']
                    if t_['t'] == 'call' and t_['callee'].get('local') and (t_['callee'].get('path') or '') in by_name and (t_['callee'].get('path') or '') not in kn:
                        outs.add(t_['callee']['path'])
        unk_calls[f_['name']] = outs
    recursive = set()
    for n_ in unk_calls:
        seen_, todo_ = set(), list(unk_calls[n_])
        while todo_:
            x_ = todo_.pop()
            if x_ == n_:
                recursive.add(n_)
                break
            if x_ in seen_:
                continue
            seen_.add(x_)
            todo_.extend(unk_calls.get(x_, ()))

    def target_of(caller, t):
        c = t['callee']
        if (c.get('def') or '') == 'std::convert::Into::into' and len(c.get('args') or []) == 2:
            # `x.into()` through core's blanket impl: the conversion is the crate's own `From` impl
            cand = '<impl std::convert::From<%s> for %s>::from' % (c['args'][0], c['args'][1])
            g = by_name.get(cand)
            if g is not None and cand not in kn:
                return g, 'fn'
        if _is_closure_call(c) and not c.get('path') and t['args']:
            # a call through a generic `impl Fn` parameter of a helper that has been inlined here: the callee is
            # the closure the caller passed, when that is a closure built in this very function
            cname = _trace_closure(caller, t['args'][0])
            g = by_name.get(cname) if cname else None
            top = caller['name'].split('::{closure')[0]
            if g is not None and cname.startswith(top + '::{closure') and cname != caller['name']:
                return g, 'closure'
        if not c.get('local'):
            return None, None
        path = c.get('path') or ''
        g = by_name.get(path)
        if g is None:
            return None, None
        if g.get('kind') == 'Closure':
            # a closure of the same top-level function, called directly
            top = caller['name'].split('::{closure')[0]
            if _is_closure_call(c) and path.startswith(top + '::{closure') and path != caller['name']:
                return g, 'closure'
            return None, None
        if path in kn or path in recursive:
            return None, None
        return g, 'fn'

    def inline_fn(f, stack, depth):
        if f.get('_inl_done'):
            return
        f['_inl_done'] = True
        bi = 0
        while bi < len(f['blocks']):
            b = f['blocks'][bi]
            t = b['term']
            if t['t'] == 'call' and (t['callee'].get('def') or '') == 'std::iter::Iterator::try_for_each' and len(t['args']) == 2 and \
                    (str(t['dest'].get('ty', '')).startswith('std::result::Result<(), ') or
                     (str(t['dest'].get('ty', '')).startswith('std::ops::ControlFlow<') and (str(t['dest']['ty']).endswith(', ()>') or str(t['dest']['ty']).count(',') == 0))):
                if _for_each_to_loop(f, bi, by_name, inline_fn, stack, depth, try_=True):
                    stats['inlined'] += 1
                    stats['sites'].append('%s <- for_each' % f['name'])
                    bi += 1
                    continue
            if t['t'] == 'call' and (t['callee'].get('def') or '') == 'std::iter::Iterator::fold' and len(t['args']) == 3:
                if _for_each_to_loop(f, bi, by_name, inline_fn, stack, depth, fold=True):
                    stats['inlined'] += 1
                    stats['sites'].append('%s <- for_each' % f['name'])
                    bi += 1
                    continue
            if t['t'] == 'call' and (t['callee'].get('def') or '') in VALUE_COMBINATORS and len(t['args']) == 2:
                if _lower_value_combinator(f, bi):
                    stats['inlined'] += 1
                    stats['sites'].append('%s <- for_each' % f['name'])
                    bi += 1
                    continue
            if t['t'] == 'call' and (t['callee'].get('def') or '') in OPTION_COMBINATORS and len(t['args']) == 2:
                if _lower_option_combinator(f, bi, by_name, inline_fn, stack, depth):
                    stats['inlined'] += 1
                    stats['sites'].append('%s <- for_each' % f['name'])
                    bi += 1
                    continue
            if t['t'] == 'call' and (t['callee'].get('def') or '') in ('std::iter::Iterator::any', 'std::iter::Iterator::all') and len(t['args']) == 2 \
                    and str(t['dest'].get('ty', '')) == 'bool':
                if _for_each_to_loop(f, bi, by_name, inline_fn, stack, depth, any_=t['callee']['def'].rsplit('::', 1)[1]):
                    stats['inlined'] += 1
                    stats['sites'].append('%s <- for_each' % f['name'])
                    bi += 1
                    continue
            if t['t'] == 'call' and (t['callee'].get('def') or '') == 'std::iter::Iterator::for_each' and len(t['args']) == 2:
                if _for_each_to_loop(f, bi, by_name, inline_fn, stack, depth):
                    stats['inlined'] += 1
                    stats['sites'].append('%s <- for_each' % f['name'])
                    bi += 1
                    continue
            if t['t'] == 'call':
                g, how = target_of(f, t)
                if g is not None and g['name'] not in stack and depth < MAX_DEPTH and len(f['blocks']) + len(g['blocks']) < MAX_BLOCKS:
                    inline_fn(g, stack | {g['name']}, depth + 1)
                    if _splice(f, bi, g, how):
                        stats['inlined'] += 1
                        stats['sites'].append('%s <- %s' % (f['name'], g['name']))
                        # re-examine the same block: its terminator is now a goto
                elif g is not None:
                    uninlined_calls.add(g['name'])
            bi += 1

    for f in list(j['fns']):
        inline_fn(f, {f['name']}, 0)
    # drop new private helpers whose every call site was inlined and that are not used as values
    inlined_names = {x.split('<- ', 1)[1] for x in stats['sites'] if not x.endswith('<- for_each')}
    for name, g in list(by_name.items()):
        if g.get('kind') == 'Closure' or name in kn or name not in inlined_names:
            continue
        if name in uninlined_calls or not str(g.get('vis', '')).startswith('Restricted'):
            continue
        tr = g.get('impl_trait')
        if tr:
            # methods of a *new crate-local* trait (a private extension trait) are ordinary helpers; impls of
            # foreign or pre-existing traits stay (they are reachable through the trait)
            local_mods = {n.split('::')[0] for n in kn if '::' in n and not n.startswith('<')}
            is_local = '::' not in tr or tr.split('::')[0] in local_mods
            if not is_local or any((' as %s>' % tr) in k or k.startswith(tr + '::') for k in kn):
                continue
        if _used_as_value(j, name):
            continue
        stats['dropped'].append(name)
    # closures whose only use was a for_each that is now a loop: their body lives in the parent
    cands = []
    for f in j['fns']:
        cands.extend(f.pop('_inlined_closures', []))
    changed = True
    while changed:
        changed = False
        gone = set(stats['dropped'])
        for cname in cands:
            if cname in gone:
                continue
            n_aggs = 0
            n_live = 0
            for f2 in j['fns']:
                if f2['name'] in gone:
                    continue
                for b in f2['blocks']:
                    for st in b['stmts']:
                        rv = st.get('rv') or {}
                        if rv.get('r') == 'agg' and rv.get('kind', {}).get('k') == 'closure' and rv['kind'].get('path') == cname:
                            n_aggs += 1
                            if not rv['kind'].get('consumed'):
                                n_live += 1
            if n_aggs <= 1 or n_live == 0:
                stats['dropped'].append(cname)
                changed = True
    # closures whose every call was inlined (called directly, or through an `impl Fn` parameter of an inlined helper)
    # and whose value reaches no remaining call: their body lives in the caller now
    for cname in sorted({x.split(' <- ', 1)[1] for x in stats['sites'] if '::{closure' in x.split(' <- ', 1)[1]}):
        if cname in stats['dropped'] or cname not in by_name:
            continue
        if not _closure_escapes(j, cname, set(stats['dropped'])):
            stats['dropped'].append(cname)
    # closures of a dropped helper that no retained function builds any more (their for_each became a loop in the
    # helper's body before that body was copied into the callers): judged in context there, not on their own
    changed = True
    while changed:
        changed = False
        gone = set(stats['dropped'])
        referenced = set()
        for f2 in j['fns']:
            if f2['name'] in gone:
                continue
            for b in f2['blocks']:
                for st in b['stmts']:
                    rv = st.get('rv') or {}
                    if rv.get('r') == 'agg' and rv.get('kind', {}).get('k') == 'closure':
                        referenced.add(rv['kind'].get('path'))
        for f2 in j['fns']:
            n = f2['name']
            if n in gone or f2.get('kind') != 'Closure' or n in referenced:
                continue
            if any(n.startswith(g + '::{closure') for g in gone):
                stats['dropped'].append(n)
                changed = True
    if stats['dropped']:
        drop = set(stats['dropped'])
        j['fns'] = [f for f in j['fns'] if f['name'] not in drop]
    for f in j['fns']:
        f.pop('_inl_done', None)
    # CFG normalisation of the functions that received a body: thread jumps over flags / variants the spliced body
    # returns, then split the multi-definition temporaries into def-use webs
    import cfgnorm
    # every function is normalised (a flag or an Option materialised in the function itself — `let ok = a && b;
    # if ok {..}` — has the same shape as one returned by a spliced helper); CFR_NORM_TOUCHED=1 restricts it to the
    # functions that received a body.  On the reference tree both settings give the same verdicts.
    touched = {f['name'] for f in j['fns']}
    if os.environ.get('CFR_NORM_TOUCHED'):
        touched = {x.split(' <- ')[0] for x in stats['sites']}
    stats['threaded'] = 0
    stats['webs'] = 0
    new_structs = _new_struct_paths(j)
    for f in j['fns']:
        if f['name'] in touched:
            stats['lowered'] = stats.get('lowered', 0) + cfgnorm.lower_branch(f) + cfgnorm.lower_fnptr_calls(f)
            stats['direct_stores'] = stats.get('direct_stores', 0) + cfgnorm.direct_stores(f)
            if new_structs:
                n_sr = cfgnorm.scalar_replace(f, new_structs)
                if n_sr:
                    stats['scalar_replaced'] = stats.get('scalar_replaced', 0) + n_sr
                    cfgnorm.direct_stores(f)
            for _ in range(4):
                n = cfgnorm.thread_jumps(f, j.get('adts') or {})
                stats['threaded'] += n
                if not n:
                    break
            stats['webs'] += cfgnorm.split_webs(f)
            # a switch whose selector has become single-valued after the split is a goto; that cuts off stale copies
            for _ in range(3):
                if not cfgnorm.fold_known_switches(f):
                    break
                cfgnorm.thread_jumps(f, j.get('adts') or {})
                stats['webs'] += cfgnorm.split_webs(f)
    return stats


def _new_struct_paths(j):
    """structs (one variant, named fields) defined by the analysed crate that the reference tree does not have under
    any path — nor under another name with the same field types (a renamed reference struct)"""
    ref = known().get(ref_kind(j) + '_adts')
    adts = j.get('adts') or {}
    if ref is None or not adts:
        return set()
    mods = {f['name'].split('::')[0] for f in j.get('fns', []) if not f['name'].startswith('<')}
    ref_last = {k.split('::')[-1] for k in ref}
    out = set()
    for path, vs in adts.items():
        if len(vs) != 1 or vs[0].get('name') != path.split('::')[-1] or not vs[0].get('fields') or str(vs[0]['fields'][0]).isdigit():
            continue
        if '::' in path and path.split('::')[0] not in mods:
            continue
        if path in ref or path.split('::')[-1] in ref_last:
            continue
        mine = sorted(vs[0].get('ftys', []))
        if any(k not in adts and len(rv) == 1 and sorted(t for _, t in rv[0]) == mine and not k.startswith(('std::', 'core::', 'alloc::')) for k, rv in ref.items()):
            continue
        out.add(path)
    return out


_PATH_RE = None


def _alias_moved(j, kn):
    """items (types, traits, functions) that kept their name but moved to another module of the crate — a private
    module split off or merged — get their reference paths back: `solve::sampling::SampledChance` is
    `solve::data::SampledChance` again, in every name, type and signature of the facts (textual, whole-path)"""
    import re
    global _PATH_RE
    if _PATH_RE is None:
        _PATH_RE = re.compile(r'[A-Za-z_][A-Za-z0-9_]*(?:::[A-Za-z_][A-Za-z0-9_]*)+')
    kind = ref_kind(j)
    k_adts = known().get(kind + '_adts') or {}
    names = {f['name'] for f in j['fns'] if f.get('kind') != 'Closure'}
    missing = [n for n in kn if n not in names]
    unknown = [n for n in names if n not in kn]
    item_map = {}
    # types
    cur_adts = j.get('adts') or {}
    ext = ('std::', 'core::', 'alloc::')
    for k in k_adts:
        if k in cur_adts or k.startswith(ext) or '::' not in k and False:
            continue
        last = k.split('::')[-1]
        cands = [c for c in cur_adts if c not in k_adts and c.split('::')[-1] == last and not c.startswith(ext)]
        if len(cands) == 1 and cands[0] != k:
            item_map[cands[0]] = k

    def canon(n):
        return _PATH_RE.sub(lambda m: m.group(0).split('::')[-1], n)
    if missing and unknown:
        by_canon = {}
        for u in unknown:
            by_canon.setdefault(canon(u), []).append(u)
        for m_ in missing:
            c = by_canon.get(canon(m_)) or []
            if len(c) != 1:
                continue
            pa, pb = _PATH_RE.findall(c[0]), _PATH_RE.findall(m_)
            if len(pa) != len(pb):
                continue
            for a, b in zip(pa, pb):
                if a != b and a.split('::')[-1] == b.split('::')[-1] and not a.startswith(ext) and not b.startswith(ext):
                    item_map.setdefault(a, b)
    # an inherent impl block moved to another module: `m::<impl a::T>::f` is `a::T::f`
    for u in unknown:
        mm = re.match(r'^([A-Za-z0-9_:]+)::<impl ([^<>]+(?:<[^<>]*>)?)>::([A-Za-z0-9_]+)$', u)
        if mm and ('%s::%s' % (mm.group(2), mm.group(3))) in missing:
            item_map.setdefault('%s::<impl %s>' % (mm.group(1), mm.group(2)), mm.group(2))
    # never map onto a path that still exists as something else
    item_map = {a: b for a, b in item_map.items() if a != b}
    if not item_map:
        return []
    txt = json.dumps(j)
    for a in sorted(item_map, key=len, reverse=True):
        txt = re.sub(r'(?<![A-Za-z0-9_:])' + re.escape(a) + r'(?![A-Za-z0-9_])', lambda _m, b_=item_map[a]: b_, txt)
    new = json.loads(txt)
    # two functions must not collapse onto one name
    fn_names = [f['name'] for f in new['fns']]
    if len(set(fn_names)) != len(fn_names):
        return []
    j.clear()
    j.update(new)
    return ['moved %s -> %s' % (a, b) for a, b in sorted(item_map.items())]


def _alias_renamed(j, kn):
    """a known private function that disappeared while exactly one new function with the same signature
    appeared in the same module / impl is a rename: give it its reference name back (facts only)"""
    names = {f['name']: f for f in j['fns'] if f.get('kind') != 'Closure'}
    missing = [n for n in kn if n not in names]
    unknown = [n for n in names if n not in kn]
    if not missing or not unknown:
        return []
    ref_sigs = known().get(ref_kind(j) + '_sigs', {})
    pairs = []
    taken = set()
    ref_calls = known().get(ref_kind(j) + '_calls', {})

    def par(n):
        return n.rsplit('::', 1)[0] if '::' in n else ''

    def related(a, b):
        # same impl / module, or an associated fn that became a free fn of the impl's module (and back), or the same
        # method of a crate-local trait that was renamed (`<S as T>::f` / `<S as T2>::f2` for the same S)
        pa, pb = par(a), par(b)
        if pa == pb or par(pa) == pb or pa == par(pb):
            return True
        for x, y in ((pa, pb), (pb, pa)):
            # a method of a single-impl crate-local trait folded into the type's inherent impl (and back)
            if x.startswith('<') and ' as ' in x and x[1:].rsplit(' as ', 1)[0] == y and not x[1:].rsplit(' as ', 1)[1].startswith(('std::', 'core::')):
                return True
        if pa.startswith('<') and pb.startswith('<') and ' as ' in pa and ' as ' in pb:
            sa, ta = pa[1:].rsplit(' as ', 1)
            sb, tb = pb[1:].rsplit(' as ', 1)
            return sa == sb and par(ta) == par(tb) and not ta.startswith(('std::', 'core::'))
        return False

    def callees(fn_, depth=0, seen=None):
        # what the body calls; calls of *new* helpers count as what those helpers call (an extracted step)
        out = set()
        seen = seen if seen is not None else set()
        seen.add(fn_['name'])
        for g in j['fns']:
            if g['name'] == fn_['name'] or g['name'].startswith(fn_['name'] + '::{closure'):
                for b in g['blocks']:
                    t = b['term']
                    if t['t'] == 'call':
                        cp = t['callee'].get('path') or t['callee'].get('def') or ''
                        if cp in names and cp not in kn and cp not in seen and depth < 3:
                            out |= callees(names[cp], depth + 1, seen)
                        else:
                            out.add(cp.split('::')[-1])
                    for st in b['stmts']:
                        if st['s'] == 'assign' and st['rv']['r'] == 'bin' and st['rv']['op'] in ('Add', 'Sub', 'Mul', 'Div'):
                            out.add('op:' + st['rv']['op'])
        return out

    def best(m, cands):
        # several candidates of equal signature: the one whose body calls the same things, if clearly ahead
        want = set(ref_calls.get(m) or [])
        if len(cands) == 1 and want:
            got = callees(names[cands[0]])
            # a lone candidate must still look like the function it replaces (a deleted function and an unrelated
            # new one of the same signature are not a rename)
            return cands[0] if len(want & got) / float(len(want | got) or 1) >= 0.34 else None
        if not want or len(cands) < 2:
            return cands[0] if len(cands) == 1 else None
        sc = sorted(((len(want & callees(names[u])) / float(len(want | callees(names[u])) or 1), u) for u in cands), reverse=True)
        return sc[0][1] if sc[0][0] >= 0.5 and sc[0][0] > sc[1][0] + 0.2 else None
    for m in sorted(missing):
        sig = ref_sigs.get(m) if isinstance(ref_sigs, dict) else None
        if sig is None:
            continue
        cands = [u for u in unknown if par(u) == par(m) and u not in taken and names[u].get('sig') == sig]
        if len(cands) == 1:
            pick = cands[0]      # same impl / module, same signature, the only one: a rename (whatever its body became)
        else:
            if not cands:
                cands = [u for u in unknown if related(u, m) and u not in taken and names[u].get('sig') == sig]
            pick = best(m, cands)
        if pick is not None:
            pairs.append((pick, m))
            taken.add(pick)
    # second chance: the rename came with a reshaped private parameter type (tuple -> struct, alias ...): same
    # module, same arity, same return type, and the only such pair
    def shape(sig):
        if not sig or 'fn(' not in sig:
            return None
        i = sig.index('fn(') + 3
        depth, n, j_, has = 1, 0, i, False
        while j_ < len(sig) and depth:
            c = sig[j_]
            if c in '([<':
                depth += 1
            elif c in ')]>' and not (c == '>' and sig[j_ - 1] == '-'):
                depth -= 1
            elif c == ',' and depth == 1:
                n += 1
            if depth and not c.isspace():
                has = True
            j_ += 1
        ret = sig[j_:].split('->', 1)[1].strip() if '->' in sig[j_:] else '()'
        return (n + 1 if has else 0, ret)
    paired_old = {m for _, m in pairs}
    for m in sorted(missing):
        if m in paired_old:
            continue
        parent = m.rsplit('::', 1)[0] if '::' in m else ''
        sh = shape(ref_sigs.get(m) if isinstance(ref_sigs, dict) else None)
        if sh is None:
            continue
        cands = [u for u in unknown if (u.rsplit('::', 1)[0] if '::' in u else '') == parent and u not in taken and shape(names[u].get('sig')) == sh]
        rivals = [m2 for m2 in missing if m2 not in paired_old and m2 != m and (m2.rsplit('::', 1)[0] if '::' in m2 else '') == parent and shape(ref_sigs.get(m2)) == sh]
        if len(cands) == 1 and not rivals and best(m, cands) is not None:
            pairs.append((cands[0], m))
            taken.add(cands[0])
            paired_old.add(m)
    if not pairs:
        return []
    ren = dict(pairs)
    tren = {}
    mren = {}
    for new_, old_ in pairs:
        pn, po = new_.rsplit('::', 1)[0], old_.rsplit('::', 1)[0]
        if pn.startswith('<') and po.startswith('<') and ' as ' in pn and ' as ' in po:
            t_new, t_old = pn[1:-1].rsplit(' as ', 1)[1], po[1:-1].rsplit(' as ', 1)[1]
            tren[t_new] = t_old
            mren[t_new + '::' + new_.rsplit('::', 1)[1]] = t_old + '::' + old_.rsplit('::', 1)[1]

    def fix(x):
        if isinstance(x, dict):
            for k, v in list(x.items()):
                if isinstance(v, str):
                    if k in ('impl_trait', 'trait') and v in tren:
                        x[k] = tren[v]
                    if k in ('path', 'def') and v in mren:
                        x[k] = mren[v]       # the trait method itself (unresolved calls in generic code)
                        continue
                    if k in ('name', 'path', 'def'):
                        for new, old in ren.items():
                            if v == new or v.startswith(new + '::{'):
                                x[k] = old + v[len(new):]
                                break
                else:
                    fix(v)
        elif isinstance(x, list):
            for y in x:
                fix(y)
    fix(j['fns'])
    return ['%s -> %s' % (a, b) for a, b in pairs]


def _alias_error_enums(j):
    """a *new* private enum of unit variants that a `From` impl maps, variant by variant, onto unit variants of an enum
    the reference tree has (`Violation::WeightsDiffer => GameError::ProbabilitiesNotEqual`) is an intermediate spelling
    of those errors: its literals are rewritten to the variants they are converted to, and explicit calls of the
    conversion become moves (the `?` operator converts through the same impl inside `from_residual`)."""
    import re
    ref = known().get(ref_kind(j) + '_adts')
    adts = j.get('adts') or {}
    if ref is None or not adts:
        return []
    ref_last = {k.split('::')[-1] for k in ref}
    out = []
    for f in list(j['fns']):
        n = f['name']
        m = re.match(r'^<(.+) as (?:std|core)::convert::From<(.+)>>::from$', n)
        if m:
            e_ty, t_ty = m.group(1), m.group(2)
        else:
            m = re.match(r'^(?:.*::)?<impl (?:std|core)::convert::From<(.+)> for (.+)>::from$', n)
            if not m:
                continue
            t_ty, e_ty = m.group(1), m.group(2)
        if t_ty not in adts or e_ty not in adts or t_ty in ref or t_ty.split('::')[-1] in ref_last or e_ty not in ref:
            continue
        tv, ev = adts[t_ty], adts[e_ty]
        if len(tv) < 2 or any(v.get('fields') for v in tv):
            continue
        unit_e = {v['name'] for v in ev if not v.get('fields')}
        b0 = f['blocks'][0]
        t0 = b0['term']
        if t0['t'] != 'switch' or not any(st['s'] == 'assign' and st['rv'].get('r') == 'discr' and st['rv']['pl']['l'] == 1 and not st['rv']['pl']['p'] for st in b0['stmts']):
            continue
        by_discr = {str(v.get('discr')): v['name'] for v in tv}
        mp = {}
        for val, tb in t0['targets']:
            w = by_discr.get(str(val))
            aggs = [st['rv']['kind'] for st in f['blocks'][tb]['stmts'] if st['s'] == 'assign' and st['pl']['l'] == 0 and not st['pl']['p'] and st['rv'].get('r') == 'agg'
                    and st['rv']['kind'].get('k') == 'adt' and st['rv']['kind'].get('path') == e_ty and not st['rv'].get('ops')]
            if w is None or len(aggs) != 1 or aggs[0]['variant'] not in unit_e:
                mp = None
                break
            mp[w] = aggs[0]['variant']
        if not mp or set(mp) != {v['name'] for v in tv}:
            continue

        def fix(x):
            if isinstance(x, dict):
                if x.get('k') == 'adt' and x.get('path') == t_ty and x.get('variant') in mp:
                    x['path'], x['variant'] = e_ty, mp[x['variant']]
                for v in x.values():
                    if isinstance(v, (dict, list)):
                        fix(v)
            elif isinstance(x, list):
                for y in x:
                    fix(y)
        for g in j['fns']:
            if g is f:
                continue
            fix(g['blocks'])
            for b in g['blocks']:
                t = b['term']
                if t['t'] == 'call' and (t['callee'].get('path') or '') == n and len(t['args']) == 1 and t.get('to') is not None and t['to'] >= 0:
                    b['stmts'].append({'s': 'assign', 'pl': copy.deepcopy(t['dest']), 'rv': {'r': 'use', 'a': copy.deepcopy(t['args'][0])}, 'line': t.get('line'), 'exp': True})
                    b['term'] = {'t': 'goto', 'to': t['to']}
        out.append('error enum %s -> %s (%d variants)' % (t_ty, e_ty, len(mp)))
    return out


def _alias_fields(j):
    """fields of a known private struct that were renamed (and possibly reordered) get their reference names back:
    matched by unchanged name first, then by type when the type identifies the field uniquely on both sides.
    Applied to field projections, struct literals and the ADT table; only when the new name is not a field name
    of any other type (the rename is by name)."""
    ref = known().get(ref_kind(j) + '_adts') or {}
    adts = j.get('adts') or {}
    if not ref or not adts:
        return []
    all_names = {}
    for n, vs in adts.items():
        for v in vs:
            for fn_ in v.get('fields', []):
                all_names.setdefault(fn_, set()).add(n)
    ren = {}
    for n, vs in adts.items():
        rvs = ref.get(n)
        if not rvs or len(rvs) != len(vs):
            continue
        for v, rv in zip(vs, rvs):
            new = list(zip(v.get('fields', []), v.get('ftys', [])))
            old = [tuple(x) for x in rv]
            if len(new) != len(old) or [x[0] for x in new] == [x[0] for x in old] or any(x[0].isdigit() for x in new + old):
                continue
            left_new = [x for x in new if x[0] not in {o[0] for o in old}]
            left_old = [x for x in old if x[0] not in {o[0] for o in new}]
            for fn_, ty in left_new:
                same_new = [x for x in left_new if x[1] == ty]
                same_old = [x for x in left_old if x[1] == ty]
                others = all_names.get(fn_, set()) - {n}
                # the other holders of the new name may only be types the reference does not have (their field
                # is renamed along, consistently everywhere — a new type's field names carry no meaning here),
                # and none of them may already have a field of the old name
                if len(same_new) == 1 and len(same_old) == 1 and all(
                        o not in ref and not any(same_old[0][0] in v_.get('fields', []) for v_ in adts[o]) for o in others):
                    ren[fn_] = same_old[0][0]
    if not ren:
        return []

    def fix(x):
        if isinstance(x, dict):
            if x.get('k') == 'field' and x.get('n') in ren:
                x['n'] = ren[x['n']]
            if x.get('k') == 'adt' and isinstance(x.get('fields'), list):
                x['fields'] = [ren.get(f_, f_) for f_ in x['fields']]
            for v in x.values():
                if isinstance(v, (dict, list)):
                    fix(v)
        elif isinstance(x, list):
            for y in x:
                fix(y)
    fix(j['fns'])
    for vs in adts.values():
        for v in vs:
            if 'fields' in v:
                v['fields'] = [ren.get(f_, f_) for f_ in v['fields']]
    return ['field .%s -> .%s' % kv for kv in sorted(ren.items())]


def _used_as_value(j, name):
    def walk(x):
        if isinstance(x, dict):
            if x.get('k') == 'fn' and x.get('path') == name:
                return True
            return any(walk(v) for v in x.values())
        if isinstance(x, list):
            return any(walk(v) for v in x)
        return False
    return any(walk(f['blocks']) for f in j['fns'] if f['name'] != name)


def _cparam_names(x, out):
    if isinstance(x, dict):
        if x.get('k') == 'cparam' and 'name' in x:
            out.add(x['name'])
        for v in x.values():
            _cparam_names(v, out)
    elif isinstance(x, list):
        for y in x:
            _cparam_names(y, out)


def _subst_const_generics(body, g, t):
    """a helper with one const generic parameter, called with a literal: specialise the spliced copy
    (the static analogue of monomorphisation), folding `if PARAM` switches"""
    names = set()
    _cparam_names(body, names)
    for b in body:
        bt = b['term']
        if bt['t'] == 'call':
            for a in bt['callee'].get('args', []):
                if isinstance(a, str) and a.isidentifier() and a.isupper():
                    names.add(a)
    lits = [a for a in t['callee'].get('args', []) if isinstance(a, str) and (a in ('true', 'false') or a.isdigit())]
    if len(names) != 1 or len(lits) != 1:
        return
    name, val = next(iter(names)), lits[0]
    ty = 'bool' if val in ('true', 'false') else 'usize'

    def fix(x):
        if isinstance(x, dict):
            if x.get('k') == 'cparam' and x.get('name') == name:
                x.clear()
                x.update({'k': 'val', 'v': val, 'ty': ty, 's': 'const ' + val})
                return
            if 'callee' in x and isinstance(x['callee'], dict) and 'args' in x['callee']:
                x['callee']['args'] = [val if a == name else a for a in x['callee']['args']]
            for v in x.values():
                fix(v)
        elif isinstance(x, list):
            for y in x:
                fix(y)
    fix(body)
    # closures built in the specialised copy are specialised too (they inherit the const parameter)
    def spec_closures(blocks, depth=0):
        by_name, j = _CTX.get('by_name'), _CTX.get('j')
        if by_name is None or depth > 3:
            return
        for b in blocks:
            for st in b['stmts']:
                rv = st.get('rv') or {}
                if rv.get('r') == 'agg' and rv.get('kind', {}).get('k') == 'closure':
                    old = rv['kind']['path']
                    cf = by_name.get(old)
                    if cf is None or old.endswith('>') and old.rsplit('<', 1)[-1] in ('true>', 'false>'):
                        continue
                    names2 = set()
                    _cparam_names(cf['blocks'], names2)
                    uses = name in names2 or any(name in (bb['term'].get('callee', {}).get('args') or []) for bb in cf['blocks'] if bb['term']['t'] == 'call')
                    if not uses:
                        continue
                    new_name = '%s<%s>' % (old, val)
                    if new_name not in by_name:
                        c2 = copy.deepcopy(cf)
                        c2['name'] = new_name
                        c2.pop('_inl_done', None)
                        fix(c2['blocks'])
                        _fold(c2['blocks'])
                        spec_closures(c2['blocks'], depth + 1)
                        by_name[new_name] = c2
                        j['fns'].append(c2)
                    rv['kind']['path'] = new_name

    def _fold(blocks):
        if ty != 'bool':
            return
        for b in blocks:
            bt = b['term']
            if bt['t'] != 'switch' or bt['d'].get('o') not in ('copy', 'move') or bt['d']['pl']['p']:
                continue
            l = bt['d']['pl']['l']
            src = [st for st in b['stmts'] if st['s'] == 'assign' and st['pl']['l'] == l and not st['pl']['p']]
            if len(src) == 1 and src[0]['rv']['r'] == 'use' and src[0]['rv']['a'].get('o') == 'const' and src[0]['rv']['a']['c'].get('k') == 'val' and src[0]['rv']['a']['c'].get('v') == val:
                tgt = None
                for v, tb in bt['targets']:
                    if (v == '0') == (val == 'false'):
                        tgt = tb
                if tgt is None:
                    tgt = bt['otherwise']
                b['term'] = {'t': 'goto', 'to': tgt}
    spec_closures(body)
    _fold(body)
    return
    if ty != 'bool':
        return
    for b in body:
        bt = b['term']
        if bt['t'] != 'switch' or bt['d'].get('o') not in ('copy', 'move') or bt['d']['pl']['p']:
            continue
        l = bt['d']['pl']['l']
        src = [st for st in b['stmts'] if st['s'] == 'assign' and st['pl']['l'] == l and not st['pl']['p']]
        if len(src) == 1 and src[0]['rv']['r'] == 'use' and src[0]['rv']['a'].get('o') == 'const' and src[0]['rv']['a']['c'].get('k') == 'val' and src[0]['rv']['a']['c'].get('v') == val:
            # switchInt on a bool: target for 0 (false) listed, otherwise = true
            tgt = None
            for v, tb in bt['targets']:
                if (v == '0') == (val == 'false'):
                    tgt = tb
            if tgt is None:
                tgt = bt['otherwise']
            b['term'] = {'t': 'goto', 'to': tgt}


def _impl_index():
    """{(trait path, method): {self type head: impl fn name}} of the crate's own trait impls"""
    j = _CTX.get('j')
    idx = _CTX.get('impl_index')
    if idx is not None and _CTX.get('impl_index_for') is j:
        return idx
    idx = {}
    for f_ in (j or {}).get('fns', []):
        n = f_['name']
        if not n.startswith('<') or ' as ' not in n or '>::' not in n:
            continue
        head, method = n.rsplit('>::', 1)
        if '::' in method:
            continue
        selfty, trait = head[1:].split(' as ', 1)
        idx.setdefault((trait.split('<')[0], method), {})[_type_head(selfty)] = n
    _CTX['impl_index'], _CTX['impl_index_for'] = idx, j
    return idx


def _type_head(t):
    t = t.strip()
    while t.startswith('&'):
        t = t[1:].lstrip()
        if t.startswith("'"):
            t = t.split(' ', 1)[1] if ' ' in t else t
        if t.startswith('mut '):
            t = t[4:]
    return t.split('<')[0]


def _devirtualise(body, t):
    """the spliced copy of a *generic* helper: a call of a method of a crate-local trait on one of the helper's type
    parameters is the method of the impl for the type the caller instantiates it with — when exactly one of the call
    site's generic arguments is a type with an impl of that trait (the static analogue of monomorphisation; what
    `walk(&mut Expectation { .. })` runs is `<Expectation as Visitor>::player`, not `Visitor::player`)"""
    targs = [a for a in (t['callee'].get('args') or []) if isinstance(a, str) and not a.startswith("'")]
    if not targs:
        return
    idx = _impl_index()
    for b in body:
        bt = b['term']
        if bt['t'] != 'call':
            continue
        c = bt['callee']
        if c.get('resolved') or c.get('path') or not c.get('trait') or not c.get('local'):
            continue
        method = (c.get('def') or '').rsplit('::', 1)[-1]
        impls = idx.get((c['trait'].split('<')[0], method))
        if not impls:
            continue
        hits = {impls[_type_head(a)] for a in targs if _type_head(a) in impls}
        if len(hits) == 1:
            name = next(iter(hits))
            # the impl's own generic arguments are not needed by anything downstream; const arguments of the instantiating
            # type are (`ReachCollector<'_, true, ..>`): pass the literal ones on
            lits = [x.strip() for a in targs if _type_head(a) in impls for x in a[a.find('<') + 1:a.rfind('>')].split(',') if x.strip() in ('true', 'false') or x.strip().isdigit()] if True else []
            bt['callee'] = {'def': name, 'args': lits, 'resolved': True, 'path': name, 'trait': c['trait'], 'self': '', 'local': True, 'krate': c.get('krate', ''), 'devirtualised': True}


def _splice(f, bi, g, how):
    """replace the call terminating block bi of f by the body of g"""
    t = f['blocks'][bi]['term']
    args = t['args']
    argc = g['argc']
    dl = len(f['locals'])
    db = len(f['blocks'])
    dp = len(f.get('promoted', []))
    body = copy.deepcopy(g['blocks'])
    _subst_const_generics(body, g, t)
    _devirtualise(body, t)
    _shift(body, dl, db, dp)
    # parameter passing
    pre = []
    line = t.get('line')
    if how == 'fn':
        if len(args) != argc:
            return False
        pairs = [(i + 1, a) for i, a in enumerate(args)]
    else:
        # closure: args = [closure (ref or value), tuple]; callee params: _1 env, _2.. untupled
        if len(args) != 2:
            return False
        pairs = [(1, args[0])]
        for k in range(argc - 1):
            fo = _field_operand(args[1], k, g['locals'][k + 2]['ty'])
            if fo is None:
                return False
            pairs.append((k + 2, fo))
    for pi, a in pairs:
        pre.append({'s': 'assign', 'pl': {'l': pi + dl, 'p': [], 'ty': g['locals'][pi]['ty']}, 'rv': {'r': 'use', 'a': copy.deepcopy(a)}, 'line': line, 'exp': False})
    # returns
    cont = t['to']
    dest = t['dest']
    for blk in body:
        bt = blk['term']
        if bt['t'] == 'return':
            if cont is not None and cont >= 0:
                blk['stmts'].append({'s': 'assign', 'pl': copy.deepcopy(dest), 'rv': {'r': 'use', 'a': {'o': 'move', 'pl': {'l': dl, 'p': [], 'ty': g['locals'][0]['ty']}}}, 'line': line, 'exp': False})
                blk['term'] = {'t': 'goto', 'to': cont}
            else:
                blk['term'] = {'t': 'unreachable'}
    f['locals'].extend(copy.deepcopy(g['locals']))
    f['blocks'].extend(body)
    f.setdefault('promoted', []).extend(copy.deepcopy(g.get('promoted', [])))
    for d in g.get('debug', []):
        d2 = copy.deepcopy(d)
        if 'l' in d2.get('v', {}):
            # parameters of a closure env (captures) keep their projections; only locals are renumbered
            d2['v']['l'] += dl
            if how == 'closure' and d['v']['l'] == 1 and d['v'].get('p'):
                continue
            if 1 <= d['v']['l'] <= argc and not d['v'].get('p'):
                continue    # parameters of the inlined callee are plain copies of the arguments: anonymous temporaries    # captured-variable names of the inlined closure: not meaningful in the caller
            f['debug'].append(d2)
    if t['callee'].get('devirtualised') or (how == 'fn' and g['name'].startswith('<') and ' as ' in g['name'].split('>::')[0]):
        # leave a trace of *which* impl method runs here (a unit assignment to a fresh local): a decision table whose
        # sinks are "which implementation is reached" reads it where the call used to be
        f['locals'].append({'ty': '()', 'adt': ''})
        pre.append({'s': 'assign', 'pl': {'l': len(f['locals']) - 1, 'p': [], 'ty': '()'}, 'rv': {'r': 'use', 'a': {'o': 'const', 'c': {'k': 'val', 'v': None, 'ty': '()', 's': 'const ()'}}},
                    'line': line, 'exp': True, 'spliced': g['name']})
    f['blocks'][bi]['stmts'].extend(pre)
    f['blocks'][bi]['term'] = {'t': 'goto', 'to': db}
    return True


def _closure_escapes(j, cname, gone):
    """is a value of closure `cname` still passed to some call (or stored / returned) in a retained function?"""
    for f in j['fns']:
        if f['name'] in gone:
            continue
        alias = set()
        for b in f['blocks']:
            for st in b['stmts']:
                rv = st.get('rv') or {}
                if st['s'] == 'assign' and rv.get('r') == 'agg' and rv.get('kind', {}).get('k') == 'closure' and rv['kind'].get('path') == cname:
                    if st['pl']['p']:
                        return True
                    alias.add(st['pl']['l'])
        if not alias:
            continue
        changed = True
        while changed:
            changed = False
            for b in f['blocks']:
                for st in b['stmts']:
                    if st['s'] != 'assign':
                        continue
                    rv = st['rv']
                    src = None
                    whole = lambda pl_: all(p_['k'] == 'deref' for p_ in pl_['p'])     # the closure itself, not a captured value read out of it
                    if rv['r'] == 'use' and rv['a'].get('o') in ('copy', 'move') and whole(rv['a']['pl']):
                        src = rv['a']['pl']['l']
                    elif rv['r'] in ('ref', 'rawptr') and whole(rv['pl']):
                        src = rv['pl']['l']
                    elif rv['r'] == 'agg' and any(o.get('o') in ('copy', 'move') and o['pl']['l'] in alias and whole(o['pl']) for o in rv.get('ops', [])):
                        if rv['kind'].get('k') == 'closure' and (rv['kind'].get('consumed') or rv['kind'].get('path') in gone):
                            continue     # captured by a closure whose body was itself spliced in
                        return True      # stored into a larger value
                    if src in alias:
                        if st['pl']['p'] or st['pl']['l'] == 0:
                            return True
                        if st['pl']['l'] not in alias:
                            alias.add(st['pl']['l'])
                            changed = True
        for b in f['blocks']:
            t = b['term']
            if t['t'] == 'call':
                for a in t['args']:
                    if a.get('o') in ('copy', 'move') and a['pl']['l'] in alias and all(p_['k'] == 'deref' for p_ in a['pl']['p']):
                        return True
    return False


def _trace_closure(f, op, depth=0):
    """name of the closure an operand denotes, following single-definition moves and borrows in f"""
    if depth > 6 or op.get('o') not in ('copy', 'move'):
        return None
    pl = op['pl']
    nd = [p for p in pl['p'] if p['k'] != 'deref']
    if nd:
        # a capture read out of another closure's environment (`(*env).0` where env is a closure built here, e.g.
        # the body of a lowered fold / for_each closure calling the closure it captured): the captured operand
        if len(nd) != 1 or nd[0]['k'] != 'field':
            return None
        agg = _closure_agg(f, pl['l'])
        ops = agg.get('ops', []) if agg else []
        if agg is None or nd[0]['i'] >= len(ops):
            return None
        return _trace_closure(f, ops[nd[0]['i']], depth + 1)
    l = pl['l']
    defs = []
    for b in f['blocks']:
        for st in b['stmts']:
            if st['s'] == 'assign' and st['pl']['l'] == l and not st['pl']['p']:
                defs.append(st['rv'])
        t = b['term']
        if t['t'] == 'call' and t['dest']['l'] == l and not t['dest']['p']:
            defs.append(None)
    if len(defs) != 1 or defs[0] is None:
        return None
    rv = defs[0]
    if rv['r'] == 'agg' and rv['kind'].get('k') == 'closure':
        return rv['kind']['path']
    if rv['r'] == 'use':
        return _trace_closure(f, rv['a'], depth + 1)
    if rv['r'] == 'ref':
        return _trace_closure(f, {'o': 'copy', 'pl': rv['pl']}, depth + 1)
    return None


def _closure_agg(f, l, depth=0):
    """the closure aggregate rvalue local l denotes (single-definition moves and borrows followed)"""
    if depth > 6:
        return None
    defs = []
    for b in f['blocks']:
        for st in b['stmts']:
            if st['s'] == 'assign' and st['pl']['l'] == l and not st['pl']['p']:
                defs.append(st['rv'])
        t = b['term']
        if t['t'] == 'call' and t['dest']['l'] == l and not t['dest']['p']:
            defs.append(None)
    if len(defs) != 1 or defs[0] is None:
        return None
    rv = defs[0]
    if rv['r'] == 'agg' and rv['kind'].get('k') == 'closure':
        return rv
    if rv['r'] == 'use' and rv['a'].get('o') in ('copy', 'move') and all(p['k'] == 'deref' for p in rv['a']['pl']['p']):
        return _closure_agg(f, rv['a']['pl']['l'], depth + 1)
    if rv['r'] == 'ref' and all(p['k'] == 'deref' for p in rv['pl']['p']):
        return _closure_agg(f, rv['pl']['l'], depth + 1)
    return None


def _closure_def(f, op):
    """(closure fn name, local holding the closure) when operand op is a closure built in f"""
    if op.get('o') not in ('copy', 'move') or op['pl']['p']:
        return None, None
    l = op['pl']['l']
    defs = []
    for b in f['blocks']:
        for st in b['stmts']:
            if st['s'] == 'assign' and st['pl']['l'] == l and not st['pl']['p']:
                defs.append(st['rv'])
        t = b['term']
        if t['t'] == 'call' and t['dest']['l'] == l and not t['dest']['p']:
            defs.append(None)
    if len(defs) == 1 and defs[0] is not None and defs[0]['r'] == 'agg' and defs[0]['kind'].get('k') == 'closure':
        return defs[0]['kind']['path'], l
    return None, None


# `map` / `and_then` are left alone: rules recognise them as calls on the reference tree (e.g. the iterators' next())
OPTION_COMBINATORS = {'std::option::Option::<T>::or_else': 'or_else', 'std::option::Option::<T>::unwrap_or_else': 'unwrap_or_else'}


VALUE_COMBINATORS = {'std::option::Option::<T>::ok_or': 'ok_or', 'std::result::Result::<T, E>::map': 'map_ctor'}


def _lower_value_combinator(f, bi):
    """combinators without a closure are the `match` they abbreviate:
        opt.ok_or(e):   Some(v) => Ok(v)        None => Err(e)
        res.map(Some):  Ok(v) => Ok(Some(v))    Err(e) => Err(e)      (the mapped function is the constructor `Some`)"""
    t = f['blocks'][bi]['term']
    kind = VALUE_COMBINATORS[t['callee']['def']]
    src, other = t['args']
    targs = t['callee'].get('args') or []
    if src.get('o') not in ('copy', 'move') or src['pl']['p'] or t['dest']['p'] or t['to'] is None or t['to'] < 0:
        return False
    if kind == 'ok_or':
        if len(targs) != 2:
            return False
        # only as the head of `opt.ok_or(e).map(Some)`: a plain `lookup.ok_or(Error)?` keeps its call form, which is what
        # the import rules (C14) and the thread-count rule (C05) read
        dl = t['dest']['l']
        feeds_map = any(b_['term']['t'] == 'call' and (b_['term']['callee'].get('def') or '') == 'std::result::Result::<T, E>::map' and len(b_['term']['args']) == 2
                        and b_['term']['args'][0].get('o') in ('copy', 'move') and b_['term']['args'][0]['pl']['l'] == dl and not b_['term']['args'][0]['pl']['p']
                        and b_['term']['args'][1].get('o') == 'const' and str(b_['term']['args'][1]['c'].get('path', '')).endswith('::Some') for b_ in f['blocks'])
        if not feeds_map:
            return False
    else:
        if len(targs) < 3 or other.get('o') != 'const' or other['c'].get('k') != 'fn' or not str(other['c'].get('path', '')).endswith('::Some'):
            return False
    line, cont, dest = t.get('line'), t['to'], copy.deepcopy(t['dest'])
    pl = lambda l_, ty, p=None: {'l': l_, 'p': p or [], 'ty': ty}
    sl, sty = src['pl']['l'], src['pl']['ty']
    L = len(f['locals'])
    f['locals'].append({'ty': 'isize', 'adt': ''})
    l_d = L
    B = len(f['blocks'])
    agg = lambda path, variant, ops: {'r': 'agg', 'kind': {'k': 'adt', 'path': path, 'variant': variant, 'fields': ['0'] if ops else []}, 'ops': ops}
    payload = lambda variant, v, ty: {'o': 'move', 'pl': pl(sl, ty, [{'k': 'downcast', 'v': v, 'n': variant}, {'k': 'field', 'i': 0, 'n': '0'}])}
    asg = lambda d_, rv: {'s': 'assign', 'pl': d_, 'rv': rv, 'line': line, 'exp': True}
    if kind == 'ok_or':
        b_some = {'cleanup': False, 'stmts': [asg(copy.deepcopy(dest), agg('std::result::Result', 'Ok', [payload('Some', 1, targs[0])]))], 'term': {'t': 'goto', 'to': cont}}
        b_none = {'cleanup': False, 'stmts': [asg(copy.deepcopy(dest), agg('std::result::Result', 'Err', [copy.deepcopy(other)]))], 'term': {'t': 'goto', 'to': cont}}
        f['blocks'].extend([b_some, b_none, {'cleanup': False, 'stmts': [], 'term': {'t': 'unreachable'}}])
        targets, adt = [['0', B + 1], ['1', B]], 'std::option::Option'
    else:
        f['locals'].append({'ty': targs[2], 'adt': 'std::option::Option'})
        l_tmp = L + 1
        b_ok = {'cleanup': False, 'stmts': [asg(pl(l_tmp, targs[2]), agg('std::option::Option', 'Some', [payload('Ok', 0, targs[0])])),
                                            asg(copy.deepcopy(dest), agg('std::result::Result', 'Ok', [{'o': 'move', 'pl': pl(l_tmp, targs[2])}]))], 'term': {'t': 'goto', 'to': cont}}
        b_err = {'cleanup': False, 'stmts': [asg(copy.deepcopy(dest), agg('std::result::Result', 'Err', [payload('Err', 1, targs[1])]))], 'term': {'t': 'goto', 'to': cont}}
        f['blocks'].extend([b_ok, b_err, {'cleanup': False, 'stmts': [], 'term': {'t': 'unreachable'}}])
        targets, adt = [['0', B], ['1', B + 1]], 'std::result::Result'
    blk = f['blocks'][bi]
    blk['stmts'].append(asg(pl(l_d, 'isize'), {'r': 'discr', 'pl': pl(sl, sty), 'adt': adt}))
    blk['term'] = {'t': 'switch', 'd': {'o': 'move', 'pl': pl(l_d, 'isize')}, 'targets': targets, 'otherwise': B + 2, 'line': line, 'exp': True}
    return True


def _lower_option_combinator(f, bi, by_name, inline_fn, stack, depth):
    """`opt.or_else(c)` / `and_then(c)` / `map(c)` / `unwrap_or_else(c)` with a closure built in this function is the
    `match` it abbreviates, with the closure body spliced into its arm:
        or_else:        Some(_) => opt            None => c()
        and_then:       Some(v) => c(v)           None => None
        map:            Some(v) => Some(c(v))     None => None
        unwrap_or_else: Some(v) => v              None => c()"""
    t = f['blocks'][bi]['term']
    kind = OPTION_COMBINATORS[t['callee']['def']]
    opt_op, cb_op = t['args']
    if opt_op.get('o') not in ('copy', 'move') or opt_op['pl']['p'] or t['dest']['p'] or t['to'] is None or t['to'] < 0:
        return False
    cname, cl = _closure_def(f, cb_op)
    g = by_name.get(cname) if cname else None
    want_argc = 1 if kind in ('or_else', 'unwrap_or_else') else 2
    if g is None or g['argc'] != want_argc or len(f['blocks']) + len(g['blocks']) > MAX_BLOCKS:
        return False
    inline_fn(g, stack | {g['name']}, depth + 1)
    opt_l, opt_ty = opt_op['pl']['l'], opt_op['pl']['ty']
    line, cont, dest = t.get('line'), t['to'], copy.deepcopy(t['dest'])
    pl = lambda l_, ty, p=None: {'l': l_, 'p': p or [], 'ty': ty}
    L = len(f['locals'])
    env_ty = g['locals'][1]['ty']
    item_ty = g['locals'][2]['ty'] if want_argc == 2 else '()'
    ret_ty = g['locals'][0]['ty']
    f['locals'].extend([{'ty': 'isize', 'adt': ''}, {'ty': env_ty, 'adt': ''}, {'ty': ret_ty, 'adt': ''}])
    l_d, l_env, l_ret = L, L + 1, L + 2
    B = len(f['blocks'])
    bSome, bNone, bU, bStub, bAfter = B, B + 1, B + 2, B + 3, B + 4
    some_item = pl(opt_l, item_ty, [{'k': 'downcast', 'v': 1, 'n': 'Some'}, {'k': 'field', 'i': 0, 'n': '0'}])
    env_stmts = []
    if env_ty.startswith('&'):
        env_stmts.append({'s': 'assign', 'pl': pl(l_env, env_ty), 'rv': {'r': 'ref', 'mut': env_ty.startswith('&mut'), 'pl': pl(cb_op['pl']['l'], cb_op['pl']['ty'])}, 'line': line, 'exp': True})
        env = {'o': 'move', 'pl': pl(l_env, env_ty)}
    else:
        env = {'o': 'move', 'pl': pl(cb_op['pl']['l'], cb_op['pl']['ty'])}
    none_agg = {'r': 'agg', 'kind': {'k': 'adt', 'path': 'std::option::Option', 'variant': 'None', 'fields': []}, 'ops': []}
    calls_on_some = kind in ('and_then', 'map')
    cargs = [env, {'o': 'move', 'pl': some_item}] if calls_on_some else [env]
    stub = {'cleanup': False, 'stmts': env_stmts, 'term': {'t': 'call', 'callee': {'def': g['name'], 'path': g['name'], 'local': True}, 'args': cargs, 'dest': pl(l_ret, ret_ty), 'to': bAfter, 'line': line, 'exp': False}}
    if kind == 'map':
        after_rv = {'r': 'agg', 'kind': {'k': 'adt', 'path': 'std::option::Option', 'variant': 'Some', 'fields': ['0']}, 'ops': [{'o': 'move', 'pl': pl(l_ret, ret_ty)}]}
    else:
        after_rv = {'r': 'use', 'a': {'o': 'move', 'pl': pl(l_ret, ret_ty)}}
    after = {'cleanup': False, 'stmts': [{'s': 'assign', 'pl': copy.deepcopy(dest), 'rv': after_rv, 'line': line, 'exp': True}], 'term': {'t': 'goto', 'to': cont}}
    if calls_on_some:
        some_blk = {'cleanup': False, 'stmts': [], 'term': {'t': 'goto', 'to': bStub}}
        none_blk = {'cleanup': False, 'stmts': [{'s': 'assign', 'pl': copy.deepcopy(dest), 'rv': none_agg, 'line': line, 'exp': True}], 'term': {'t': 'goto', 'to': cont}}
    else:
        keep = {'r': 'use', 'a': {'o': 'move', 'pl': pl(opt_l, opt_ty)}} if kind == 'or_else' else {'r': 'use', 'a': {'o': 'move', 'pl': some_item}}
        if kind == 'unwrap_or_else':
            some_item['ty'] = dest['ty']
        some_blk = {'cleanup': False, 'stmts': [{'s': 'assign', 'pl': copy.deepcopy(dest), 'rv': keep, 'line': line, 'exp': True}], 'term': {'t': 'goto', 'to': cont}}
        none_blk = {'cleanup': False, 'stmts': [], 'term': {'t': 'goto', 'to': bStub}}
    f['blocks'].extend([some_blk, none_blk, {'cleanup': False, 'stmts': [], 'term': {'t': 'unreachable'}}, stub, after])
    if not _splice(f, bStub, g, 'fn'):
        del f['blocks'][B:]
        del f['locals'][L:]
        return False
    f.setdefault('_inlined_closures', []).append(g['name'])
    for b_ in f['blocks']:
        for st_ in b_['stmts']:
            if st_['s'] == 'assign' and st_['pl']['l'] == cl and not st_['pl']['p'] and st_['rv'].get('r') == 'agg' and st_['rv']['kind'].get('k') == 'closure':
                st_['rv']['kind']['consumed'] = True
    blk = f['blocks'][bi]
    blk['stmts'].append({'s': 'assign', 'pl': pl(l_d, 'isize'), 'rv': {'r': 'discr', 'pl': pl(opt_l, opt_ty), 'adt': 'std::option::Option'}, 'line': line, 'exp': True})
    blk['term'] = {'t': 'switch', 'd': {'o': 'move', 'pl': pl(l_d, 'isize')}, 'targets': [['0', bNone], ['1', bSome]], 'otherwise': bU, 'line': line, 'exp': True}
    return True


def _for_each_to_loop(f, bi, by_name, inline_fn, stack, depth, fold=False, try_=False, any_=None):
    """`iter.for_each(closure)` (std Iterator, closure built in this function, or a fn item) is the loop
    `while let Some(x) = iter.next() { closure(x) }`: rewrite the call into exactly the MIR shape of a
    `for` loop, with the closure body spliced in, so that rules see one form for both spellings."""
    t = f['blocks'][bi]['term']
    if fold:
        # `iter.fold(init, |acc, x| body)` is `let mut acc = init; for x in iter { acc = body }; acc`
        it_op, init_op, cb_op = t['args']
    else:
        it_op, cb_op = t['args']
        init_op = None
    if it_op.get('o') not in ('copy', 'move'):
        return False
    it_ty = it_op['pl']['ty']
    if any_:
        # `iter.any(|x| p)` / `iter.all(|x| p)` take the iterator by `&mut`: `loop { match iter.next() { Some(x) =>
        # if p(x) [all: !p(x)] { break true [false] }, None => break false [true] } }`
        if not it_ty.startswith('&mut '):
            return False
        it_ty = it_ty[5:]
        # only a counted loop spelled this way (`(1..=n).any(|it| ..)`); over collections the predicate form is what
        # the rules read (an order-insensitive sink, a derived guard)
        if not it_ty.startswith(('std::ops::RangeInclusive<', 'std::ops::Range<')):
            return False
    line = t.get('line')
    cont = t['to']
    if cont is None or cont < 0:
        return False
    g = None
    fn_item = None
    if cb_op.get('o') == 'const' and cb_op['c'].get('k') == 'fn':
        fn_item = cb_op['c']
        item_ty = '?'
    else:
        cname, cl = _closure_def(f, cb_op)
        g = by_name.get(cname) if cname else None
        if g is None or g['argc'] != (3 if fold else 2) or len(f['blocks']) + len(g['blocks']) > MAX_BLOCKS:
            return False
        inline_fn(g, stack | {g['name']}, depth + 1)
        item_ty = g['locals'][3 if fold else 2]['ty']
    if (fold or try_ or any_) and g is None:
        return False
    L = len(f['locals'])
    l_it, l_ref, l_opt, l_d, l_unit = L, L + 1, L + 2, L + 3, L + 4
    f['locals'].extend([{'ty': it_ty, 'adt': ''}, {'ty': '&mut ' + it_ty, 'adt': ''}, {'ty': 'std::option::Option<%s>' % item_ty, 'adt': 'std::option::Option'},
                        {'ty': 'isize', 'adt': ''}, {'ty': '()', 'adt': ''}])
    B = len(f['blocks'])
    bH, bS, bU, bBody = B, B + 1, B + 2, B + 3
    pl = lambda l, ty, p=None: {'l': l, 'p': p or [], 'ty': ty}
    hdr_rv = {'r': 'use', 'a': dict(copy.deepcopy(it_op), o='copy')} if any_ else {'r': 'ref', 'mut': True, 'pl': pl(l_it, it_ty)}
    blkH = {'cleanup': False, 'stmts': [{'s': 'assign', 'pl': pl(l_ref, '&mut ' + it_ty), 'rv': hdr_rv, 'line': line, 'exp': True}],
            'term': {'t': 'call', 'callee': {'def': 'std::iter::Iterator::next', 'args': [it_ty], 'resolved': True, 'path': '<%s as std::iter::Iterator>::next' % it_ty,
                                             'trait': 'std::iter::Iterator', 'self': it_ty, 'local': False, 'krate': 'core'},
                     'args': [{'o': 'move', 'pl': pl(l_ref, '&mut ' + it_ty)}], 'dest': pl(l_opt, 'std::option::Option<%s>' % item_ty), 'to': bS, 'line': line, 'exp': True}}
    none_target = cont
    l_acc = None
    l_res = None
    if try_:
        # `iter.try_for_each(|x| -> Result<(), E>)`: stop at the first Err and return it; Ok(()) on exhaustion
        res_ty = t['dest']['ty']
        l_res = len(f['locals'])
        f['locals'].append({'ty': res_ty, 'adt': 'std::ops::ControlFlow' if res_ty.startswith('std::ops::ControlFlow<') else 'std::result::Result'})
        f['locals'].append({'ty': 'isize', 'adt': ''})
        f['locals'].append({'ty': '()', 'adt': ''})
        bBody += 3      # exit-ok block, result-switch block, exit-err block
    if any_:
        l_res = len(f['locals'])
        f['locals'].append({'ty': 'bool', 'adt': ''})
        bBody += 3      # exhaustion block, result-switch block, early-exit block
    if fold:
        acc_ty = g['locals'][2]['ty']
        l_acc = len(f['locals'])
        f['locals'].append({'ty': acc_ty, 'adt': ''})
        bBody += 1      # one extra block: the exit that hands the accumulator to fold's destination
    blkS = {'cleanup': False, 'stmts': [{'s': 'assign', 'pl': pl(l_d, 'isize'), 'rv': {'r': 'discr', 'pl': pl(l_opt, 'std::option::Option<%s>' % item_ty), 'adt': 'std::option::Option'}, 'line': line, 'exp': True}],
            'term': {'t': 'switch', 'd': {'o': 'move', 'pl': pl(l_d, 'isize')}, 'targets': [['0', (B + 3) if (fold or try_ or any_) else cont], ['1', bBody]], 'otherwise': bU, 'line': line, 'exp': True}}
    blkU = {'cleanup': False, 'stmts': [], 'term': {'t': 'unreachable'}}
    item = {'o': 'move', 'pl': pl(l_opt, item_ty, [{'k': 'downcast', 'v': 1, 'n': 'Some'}, {'k': 'field', 'i': 0, 'n': '0'}])}
    f['blocks'].extend([blkH, blkS, blkU])
    if fold:
        f['blocks'].append({'cleanup': False, 'stmts': [{'s': 'assign', 'pl': copy.deepcopy(t['dest']), 'rv': {'r': 'use', 'a': {'o': 'move', 'pl': pl(l_acc, acc_ty)}}, 'line': line, 'exp': True}],
                            'term': {'t': 'goto', 'to': cont}})
    if try_:
        unit = {'o': 'const', 'c': {'k': 'val', 'v': None, 'ty': '()', 's': 'const ()'}}
        # B+3: exhaustion -> dest = Ok(())
        is_cf = res_ty.startswith('std::ops::ControlFlow<')
        f['blocks'].append({'cleanup': False, 'stmts': [{'s': 'assign', 'pl': copy.deepcopy(t['dest']), 'rv': {'r': 'agg', 'kind': {'k': 'adt', 'path': 'std::ops::ControlFlow' if is_cf else 'std::result::Result', 'variant': 'Continue' if is_cf else 'Ok', 'fields': ['0']}, 'ops': [unit]}, 'line': line, 'exp': True}],
                            'term': {'t': 'goto', 'to': cont}})
        # B+4: switch on the closure's result
        f['blocks'].append({'cleanup': False, 'stmts': [{'s': 'assign', 'pl': pl(l_res + 1, 'isize'), 'rv': {'r': 'discr', 'pl': pl(l_res, res_ty), 'adt': 'std::ops::ControlFlow' if is_cf else 'std::result::Result'}, 'line': line, 'exp': True}],
                            'term': {'t': 'switch', 'd': {'o': 'move', 'pl': pl(l_res + 1, 'isize')}, 'targets': [['0', bH], ['1', B + 5]], 'otherwise': bU, 'line': line, 'exp': True}})
        # B+5: Err -> dest = that result
        f['blocks'].append({'cleanup': False, 'stmts': [{'s': 'assign', 'pl': copy.deepcopy(t['dest']), 'rv': {'r': 'use', 'a': {'o': 'move', 'pl': pl(l_res, res_ty)}}, 'line': line, 'exp': True}],
                            'term': {'t': 'goto', 'to': cont}})
    if any_:
        bconst = lambda v: {'o': 'const', 'c': {'k': 'val', 'v': '1' if v else '0', 'ty': 'bool', 's': 'true' if v else 'false'}}
        # B+3: exhaustion -> dest = false (any) / true (all)
        f['blocks'].append({'cleanup': False, 'stmts': [{'s': 'assign', 'pl': copy.deepcopy(t['dest']), 'rv': {'r': 'use', 'a': bconst(any_ == 'all')}, 'line': line, 'exp': True}],
                            'term': {'t': 'goto', 'to': cont}})
        # B+4: switch on the predicate's result
        stop, go = (B + 5, bH) if any_ == 'any' else (bH, B + 5)
        f['blocks'].append({'cleanup': False, 'stmts': [],
                            'term': {'t': 'switch', 'd': {'o': 'move', 'pl': pl(l_res, 'bool')}, 'targets': [['0', go]], 'otherwise': stop, 'line': line, 'exp': True}})
        # B+5: early exit -> dest = true (any) / false (all)
        f['blocks'].append({'cleanup': False, 'stmts': [{'s': 'assign', 'pl': copy.deepcopy(t['dest']), 'rv': {'r': 'use', 'a': bconst(any_ == 'any')}, 'line': line, 'exp': True}],
                            'term': {'t': 'goto', 'to': cont}})
    if fn_item is not None:
        c = {'def': fn_item['path'], 'args': fn_item.get('args', []), 'resolved': False, 'path': fn_item['path'], 'local': True, 'krate': ''}
        f['blocks'].append({'cleanup': False, 'stmts': [], 'term': {'t': 'call', 'callee': c, 'args': [item], 'dest': pl(l_unit, '()'), 'to': bH, 'line': line, 'exp': False}})
    else:
        # a stub block that "calls" the closure, immediately spliced
        env_ty = g['locals'][1]['ty']
        L2 = len(f['locals'])
        f['locals'].append({'ty': env_ty, 'adt': ''})
        stmts = []
        if env_ty.startswith('&'):
            stmts.append({'s': 'assign', 'pl': pl(L2, env_ty), 'rv': {'r': 'ref', 'mut': env_ty.startswith('&mut'), 'pl': pl(cb_op['pl']['l'], cb_op['pl']['ty'])}, 'line': line, 'exp': True})
            env = {'o': 'move', 'pl': pl(L2, env_ty)}
        else:
            env = {'o': 'move', 'pl': pl(cb_op['pl']['l'], cb_op['pl']['ty'])}
        cargs = [env, {'o': 'copy', 'pl': pl(l_acc, acc_ty)}, item] if fold else [env, item]
        cdest = pl(l_acc, acc_ty) if fold else (pl(l_res, res_ty) if try_ else pl(l_res, 'bool') if any_ else pl(l_unit, '()'))
        stub = {'cleanup': False, 'stmts': stmts, 'term': {'t': 'call', 'callee': {'def': g['name'], 'path': g['name'], 'local': True}, 'args': cargs, 'dest': cdest, 'to': (B + 4) if (try_ or any_) else bH, 'line': line, 'exp': False}}
        f['blocks'].append(stub)
        if not _splice(f, bBody, g, 'fn'):
            return False
        f.setdefault('_inlined_closures', []).append(g['name'])
        for b_ in f['blocks']:
            for st_ in b_['stmts']:
                if st_['s'] == 'assign' and st_['pl']['l'] == cl and not st_['pl']['p'] and st_['rv'].get('r') == 'agg' and st_['rv']['kind'].get('k') == 'closure':
                    st_['rv']['kind']['consumed'] = True     # survives copies of this body into callers
    # the original block: move the iterator into its slot and enter the loop
    if not any_:
        f['blocks'][bi]['stmts'].append({'s': 'assign', 'pl': pl(l_it, it_ty), 'rv': {'r': 'use', 'a': copy.deepcopy(it_op)}, 'line': line, 'exp': True})
    if fold:
        f['blocks'][bi]['stmts'].append({'s': 'assign', 'pl': pl(l_acc, acc_ty), 'rv': {'r': 'use', 'a': copy.deepcopy(init_op)}, 'line': line, 'exp': True})
    # the unit result of for_each
    f['blocks'][bi]['term'] = {'t': 'goto', 'to': bH}
    return True


def write_known(crates):
    """freeze the function names of the current tree (run once on the reference tree)"""
    out = {}
    for kind, c in crates.items():
        if kind in ('lib', 'bin'):
            out[kind] = sorted(n for n, f in c.fns.items() if not f.is_closure)
            out[kind + '_sigs'] = {n: f.j.get('sig', '') for n, f in sorted(c.fns.items()) if not f.is_closure}
            out[kind + '_vis'] = {n: ('Public' if str(f.j.get('vis', '')).startswith('Public') else 'Restricted') for n, f in sorted(c.fns.items()) if not f.is_closure}
            out[kind + '_adts'] = {n: [[(fn_, ty) for fn_, ty in zip(v.get('fields', []), v.get('ftys', []))] for v in vs] for n, vs in sorted(c.adts.items())}
            # body fingerprint (callee names, own closures included): tells renamed functions of equal signature apart
            out[kind + '_calls'] = {n: sorted({(t['callee'].get('path') or t['callee'].get('def') or '').split('::')[-1] for g in [f] + c.closures_of(f) for b in g.blocks for t in [b['term']] if t['t'] == 'call'} |
                                              {'op:' + st['rv']['op'] for g in [f] + c.closures_of(f) for b in g.blocks for st in b['stmts'] if st['s'] == 'assign' and st['rv']['r'] == 'bin' and st['rv']['op'] in ('Add', 'Sub', 'Mul', 'Div')})
                                    for n, f in sorted(c.fns.items()) if not f.is_closure}
            # coarse body shape after normalisation (helpers spliced in): reference for the restructuring gate
            out[kind + '_traits'] = sorted({(t['callee'].get('trait') or '').split('<')[0] for f in c.fns.values() for b in f.blocks for t in [b['term']] if t['t'] == 'call' and t['callee'].get('trait')} |
                                           {(f.j.get('impl_trait') or '').split('<')[0] for f in c.fns.values() if f.j.get('impl_trait')})
            out[kind + '_shape'] = {n: dict(sorted(f.shape().items())) for n, f in sorted(c.fns.items()) if not f.is_closure}
    json.dump(out, open(KNOWN_FILE, 'w'), indent=0)
    return out
