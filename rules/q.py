"""small query helpers shared by the property modules"""
import facts
from facts import norm, short, strip_refs, walk


def calls_named(fn, name, contains=None):
    out = []
    for bi, t, p in fn.calls():
        if short(p) == name and (contains is None or contains in p):
            out.append((bi, t, fn.call_expr(t, bi)))
    return out


def closure_of(crate, e):
    """Fn of a closure aggregate expression (searching inside refs)"""
    for sub in walk(e):
        if sub[0] == 'agg' and sub[1].startswith('closure:'):
            return crate.fns.get(sub[1][len('closure:'):]), sub
    return None, None


def ret_expr(fn):
    return fn.local_expr(0)


def closure_pred(crate, e):
    """comparison computed by a predicate closure: (kind, a, b) in the closure's own terms"""
    cf, agg = closure_of(crate, e)
    if cf is None:
        return None, None, None
    return facts.cmp_of(ret_expr(cf)), cf, agg


def defs_of_local(fn, l):
    return fn.defs.get(l, [])


def multi_def_values(fn, l):
    """for a multi-def local: list of (block, guards, expr) per definition"""
    out = []
    for d in fn.defs.get(l, []):
        kind, bi, si, x = d
        if kind == 'assign':
            out.append((bi, fn.conds(bi), fn.rvalue_expr(x, bi)))
        elif kind == 'call':
            out.append((bi, fn.conds(bi), fn.call_expr(x, bi)))
    return out


def find_sub(e, pred):
    for s in walk(e):
        if pred(s):
            return s
    return None


def is_call(e, name, contains=None):
    return e[0] == 'call' and short(e[1]) == name and (contains is None or contains in e[1])


def top(name):
    return name.split('::{closure')[0]


def stores(fn):
    """assignments through a projection (field / deref / index writes): (bi, stmt, place_expr, rhs_expr)"""
    for bi, si, st in fn.assigns():
        if st['pl']['p']:
            yield bi, st, fn.place_expr(st['pl'], bi), fn.rvalue_expr(st['rv'], bi)


def agg_sites(fn, path_suffix, variant=None):
    """aggregate constructions `Path::Variant {..}`: (bi, stmt, expr)"""
    for bi, si, st in fn.assigns():
        rv = st['rv']
        if rv['r'] == 'agg' and rv['kind'].get('k') == 'adt' and rv['kind']['path'].endswith(path_suffix):
            if variant is None or rv['kind']['variant'] == variant:
                yield bi, st, fn.rvalue_expr(rv, bi)
