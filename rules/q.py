"""small query helpers shared by the property modules"""
import facts
from facts import norm, short, strip_refs, walk


def calls_named(fn, name, contains=None):
    out = []
    for bi, t, p in fn.calls():
        if short(p) == name and (contains is None or contains in p):
            out.append((bi, t, fn.call_expr(t, bi)))
    return out


def closure_of(crate, e):
    """Fn of a closure aggregate expression (searching inside refs); a named fn item / method reference of
    the same crate passed where a closure is expected is returned as well (second component: the `fn` node)"""
    for sub in walk(e):
        if sub[0] == 'agg' and sub[1].startswith('closure:'):
            # remember which construction site the caller is looking at: a helper inlined into several functions
            # leaves one copy of its closure aggregates in each, and captures must resolve in *that* function
            if not hasattr(crate, '_last_agg'):
                crate._last_agg = {}
            crate._last_agg[sub[1][len('closure:'):]] = sub
            return crate.fns.get(sub[1][len('closure:'):]), sub
    for sub in walk(e):
        if sub[0] == 'fn' and sub[1] in crate.fns:
            return crate.fns[sub[1]], sub
    return None, None


def item_param(cf):
    """index of the parameter that receives the item: 2 for a closure (1 is its environment), 1 for a fn item"""
    return 2 if cf.is_closure else 1


def simplify(e, depth=0):
    """fold projections of aggregates that substitution exposes: field i of a closure / tuple aggregate"""
    if depth > 40 or not isinstance(e, tuple):
        return e
    k = e[0]
    if k == 'field':
        b = simplify(e[1], depth + 1)
        sb = strip_refs(b)
        if sb[0] == 'agg' and (sb[1].startswith('closure:') or sb[1] == 'tuple') and e[2].isdigit() and int(e[2]) < len(sb[2]):
            return simplify(sb[2][int(e[2])], depth + 1)
        return ('field', b, e[2])
    if k in ('deref', 'ref', 'subslice'):
        return (k, simplify(e[1], depth + 1))
    if k == 'downcast':
        return (k, simplify(e[1], depth + 1), e[2])
    if k == 'cast':
        return (k, simplify(e[1], depth + 1), e[2])
    if k == 'index':
        return (k, simplify(e[1], depth + 1), simplify(e[2], depth + 1))
    if k == 'bin':
        return (k, e[1], simplify(e[2], depth + 1), simplify(e[3], depth + 1))
    if k == 'un':
        return (k, e[1], simplify(e[2], depth + 1))
    if k == 'call':
        return (k, e[1], tuple(simplify(a, depth + 1) for a in e[2]), e[3])
    if k == 'agg':
        return (k, e[1], tuple(simplify(a, depth + 1) for a in e[2]))
    return e


def ret_expr(fn):
    return fn.local_expr(0)


def closure_pred(crate, e):
    """comparison computed by a predicate closure: (kind, a, b) in the closure's own terms"""
    cf, agg = closure_of(crate, e)
    if cf is None:
        return None, None, None
    return facts.cmp_of(ret_expr(cf)), cf, agg


def defs_of_local(fn, l):
    return fn.defs.get(l, [])


def multi_def_values(fn, l, _depth=0, _seen=None):
    """for a multi-def local: list of (block, guards, expr) per definition.  A definition that merely forwards
    another multi-definition temporary (`_0 = move _6` after the arms of a match assigned `_6`, as left by an inlined
    helper's return slot) is replaced by that temporary's definitions"""
    out = []
    seen = _seen if _seen is not None else {l}
    for d in fn.defs.get(l, []):
        kind, bi, si, x = d
        if kind == 'assign':
            e = fn.rvalue_expr(x, bi)
            if e[0] == 'var' and e[1] not in seen and _depth < 4 and not fn.local_name(e[1]) and e[1] not in fn.mut_scalars and len(fn.defs.get(e[1], [])) > 1 \
                    and x['r'] == 'use' and x['a'].get('o') in ('copy', 'move') and not x['a']['pl']['p']:
                seen.add(e[1])
                inner = multi_def_values(fn, e[1], _depth + 1, seen)
                if inner:
                    out.extend(inner)
                    continue
            out.append((bi, fn.conds(bi), e))
        elif kind == 'call':
            out.append((bi, fn.conds(bi), fn.call_expr(x, bi)))
    return out


def find_sub(e, pred):
    for s in walk(e):
        if pred(s):
            return s
    return None


def is_call(e, name, contains=None):
    return e[0] == 'call' and short(e[1]) == name and (contains is None or contains in e[1])


def top(name):
    return name.split('::{closure')[0]


def stores(fn):
    """assignments through a projection (field / deref / index writes): (bi, stmt, place_expr, rhs_expr)"""
    for bi, si, st in fn.assigns():
        if st['pl']['p']:
            yield bi, st, fn.place_expr(st['pl'], bi), fn.rvalue_expr(st['rv'], bi)


def agg_sites(fn, path_suffix, variant=None):
    """aggregate constructions `Path::Variant {..}`: (bi, stmt, expr)"""
    for bi, si, st in fn.assigns():
        rv = st['rv']
        if rv['r'] == 'agg' and rv['kind'].get('k') == 'adt' and rv['kind']['path'].endswith(path_suffix):
            if variant is None or rv['kind']['variant'] == variant:
                yield bi, st, fn.rvalue_expr(rv, bi)


def player_ctx(c):
    """context selector: player-number switches and const-generic bool switches"""
    if c['kind'] == 'variant' and set(c['variants']) <= {'One', 'Two'} and len(c['variants']) == 1:
        return ('num', c['variants'][0])
    if c['kind'] == 'bool' and c['a'][0] == 'cparam':
        return (c['a'][1], c['truth'])
    return None


def tags(e):
    """per-player array positions an expression is read from (constant indices into [T; 2])"""
    out = set()
    for s in walk(e):
        if s[0] == 'cidx' and not s[3]:
            out.add(s[2])
        elif s[0] == 'index' and s[2][0] == 'const' and s[2][1] is not None and str(s[2][1]).isdigit():
            out.add(int(s[2][1]))
    return out


def parent_agg(crate, cf):
    """(parent Fn, closure aggregate expression) of a closure"""
    pname = cf.name.rsplit('::{closure#', 1)[0]
    parent = crate.fns.get(pname)
    cands = ([parent] if parent is not None else []) + [g for g in crate.fns.values() if g is not parent]
    last = getattr(crate, '_last_agg', {}).get(cf.name)
    first = None
    for g in cands:
        for bi, si, st in g.assigns():
            rv = st['rv']
            if rv['r'] == 'agg' and rv['kind'].get('k') == 'closure' and rv['kind']['path'] == cf.name:
                e = g.rvalue_expr(rv, bi)
                if last is None or e == last:
                    return g, e
                if first is None:
                    first = (g, e)
    if first is not None:
        return first
    return parent, None


def subst_upvars(crate, cf, e):
    """replace captured variables by the parent's captured operands (one level)"""
    parent, agg = parent_agg(crate, cf)
    if agg is None:
        return e

    def go(x):
        if x[0] == 'upvar' and x[1] < len(agg[2]):
            return agg[2][x[1]]
        if x[0] in ('field', 'downcast'):
            return (x[0], go(x[1]), x[2])
        if x[0] in ('deref', 'ref', 'subslice'):
            return (x[0], go(x[1]))
        if x[0] == 'cast':
            return (x[0], go(x[1]), x[2])
        if x[0] == 'index':
            return (x[0], go(x[1]), go(x[2]))
        if x[0] == 'cidx':
            return (x[0], go(x[1]), x[2], x[3])
        if x[0] in ('call',):
            return (x[0], x[1], tuple(go(a) for a in x[2]), x[3])
        if x[0] == 'agg':
            return (x[0], x[1], tuple(go(a) for a in x[2]))
        if x[0] == 'bin':
            return (x[0], x[1], go(x[2]), go(x[3]))
        if x[0] == 'un':
            return (x[0], x[1], go(x[2]))
        return x
    return go(e)


def agg_fields(fn, bi, st):
    """field name -> operand expression of a struct aggregate statement"""
    rv = st['rv']
    names = rv['kind'].get('fields', [])
    ops = [fn.operand_expr(o, bi) for o in rv['ops']]
    return dict(zip(names, ops))


def struct_sites(fn, path_suffix):
    for bi, si, st in fn.assigns():
        rv = st['rv']
        if rv['r'] == 'agg' and rv['kind'].get('k') == 'adt' and rv['kind']['path'].endswith(path_suffix):
            yield bi, st, agg_fields(fn, bi, st)


def container_root(fn, operand, depth=0):
    """root place of a container operand, looking through deref_mut()/as_mut_slice()-style calls"""
    r = fn.root_place(operand)
    if r is None or depth > 6:
        return r
    base, fields = r
    if base[0] == 'var':
        ds = fn.defs.get(base[1], [])
        if len(ds) == 1 and ds[0][0] == 'call':
            t = ds[0][3]
            p = t['callee'].get('path') or t['callee'].get('def') or ''
            if short(p) in ('deref', 'deref_mut', 'as_mut_slice', 'as_slice', 'as_mut', 'as_ref', 'borrow_mut', 'borrow') and t['args'] and t['args'][0]['o'] in ('copy', 'move'):
                return container_root(fn, t['args'][0], depth + 1)
    return r


def def_site(fn, local):
    """(fn name, block) of the single call defining a local, or None"""
    ds = fn.defs.get(local, [])
    if len(ds) == 1 and ds[0][0] == 'call':
        return (fn.name, ds[0][1])
    return None


def _operands_of(fn):
    for bi in sorted(fn.reach):
        b = fn.blocks[bi]
        for st in b['stmts']:
            if st['s'] != 'assign':
                continue
            rv = st['rv']
            for k in ('a', 'b'):
                if k in rv and isinstance(rv[k], dict):
                    yield bi, st.get('line'), rv[k]
            for o in rv.get('ops', []):
                yield bi, st.get('line'), o
        t = b['term']
        if t['t'] == 'call':
            for a in t['args']:
                yield bi, t.get('line'), a
        elif t['t'] == 'switch':
            yield bi, t.get('line'), t['d']


def string_consts(fn, include_promoted=True):
    """(block, line, text) of every string / byte-string literal operand of a function"""
    out = []
    for bi, line, o in _operands_of(fn):
        if o.get('o') == 'const' and o['c'].get('k') == 'val':
            s = o['c'].get('s', '')
            if s.startswith('const '):
                s = s[6:]
            if s.startswith('"') or s.startswith('b"'):
                out.append((bi, line, s[s.index('"') + 1:].rstrip('"')))
    if include_promoted:
        for p in fn.promoted:
            for bi, line, text in string_consts(p, False):
                out.append((0, line, text))
    return out


def local_uses(fn, l, _seen=None):
    """places where local l is read: (block, kind, detail); a plain move / copy of the whole local into another
    local (`x = move l`, as left behind by an inlined helper's return) is followed to that local's uses"""
    seen = _seen if _seen is not None else set()
    if l in seen:
        return []
    seen.add(l)
    out = []
    for u in _local_uses1(fn, l):
        bi, kind, st = u
        if kind == 'stmt' and not st['pl']['p'] and st['rv']['r'] == 'use' and st['rv']['a'].get('o') in ('copy', 'move') and not st['rv']['a']['pl']['p'] \
                and st['pl']['l'] != 0 and not fn.local_name(st['pl']['l']):
            out.extend(local_uses(fn, st['pl']['l'], seen))
        else:
            out.append(u)
    return out


def _local_uses1(fn, l):
    uses = []
    for bi in sorted(fn.reach):
        b = fn.blocks[bi]
        for st in b['stmts']:
            if st['s'] != 'assign':
                continue
            rv = st['rv']
            ops = [rv[k] for k in ('a', 'b') if k in rv and isinstance(rv[k], dict)] + list(rv.get('ops', []))
            for o in ops:
                if o.get('o') in ('copy', 'move') and o['pl']['l'] == l:
                    uses.append((bi, 'stmt', st))
            if rv['r'] in ('ref', 'rawptr', 'discr') and rv['pl']['l'] == l:
                uses.append((bi, rv['r'], st))
            if st['pl']['l'] == l and st['pl']['p']:
                uses.append((bi, 'write-through', st))
        t = b['term']
        if t['t'] == 'call':
            for a in t['args']:
                if a.get('o') in ('copy', 'move') and a['pl']['l'] == l:
                    uses.append((bi, 'arg', t))
        elif t['t'] == 'switch':
            if t['d'].get('o') in ('copy', 'move') and t['d']['pl']['l'] == l:
                uses.append((bi, 'switch', t))
        elif t['t'] == 'assert':
            if t['cond'].get('o') in ('copy', 'move') and t['cond']['pl']['l'] == l:
                uses.append((bi, 'assert', t))
    return uses


def _iter_item(it):
    """abstract item of an iterator expression: ('elem', collection) | ('tuple', a, b) | ('enum', item) | None"""
    it = strip_refs(it)
    if it[0] != 'call':
        return None
    s = short(it[1])
    if s in ('into_iter', 'by_ref', 'rev', 'skip', 'take', 'peekable', 'fuse', 'copied', 'cloned', 'filter'):
        inner = _iter_item(it[2][0])
        return inner if inner is not None else ('elem', strip_refs(it[2][0]))
    if s in ('iter', 'iter_mut', 'into_floats_mut', 'par_iter_mut', 'par_iter', 'drain', 'values', 'keys'):
        return ('elem', strip_refs(it[2][0]))
    if s == 'zip' and len(it[2]) == 2:
        return ('tuple', _iter_item(it[2][0]), _iter_item(it[2][1]))
    if s == 'enumerate':
        return ('tuple', ('index',), _iter_item(it[2][0]))
    return None


def elem_of(e):
    """if e denotes (a component of) the current item of a for-loop over iterator chains, return
    the collection it is an element of; else None"""
    e = strip_refs(e)
    path = []
    while e[0] == 'field':
        path.append(e[2])
        e = strip_refs(e[1])
    if e[0] == 'downcast' and e[2] == 'Some' and is_call(strip_refs(e[1]), 'next'):
        it = strip_refs(e[1])[2][0]
        item = _iter_item(it)
        path = list(reversed(path))
        if not path or path[0] != '0':
            return None
        for k in path[1:]:
            if item is None or item[0] != 'tuple' or not k.isdigit() or int(k) + 1 >= len(item):
                return None
            item = item[int(k) + 1]
        if item is not None and item[0] == 'elem':
            return item[1]
    return None


def coll_fields(e):
    """identifier field names of the collection an element expression belongs to"""
    c = elem_of(e)
    if c is None:
        return []
    return [x[2] for x in walk(c) if x[0] == 'field' and not x[2].isdigit() and x[2] != 'pointer']


def ctor_field(crate, e, type_name, field, new_arg=None):
    """value given to `field` of a `type_name` value built anywhere inside expression e: either through
    the struct literal or through `Type::new(..)` (argument index new_arg) — robust to inlining / extracting
    the trivial constructor"""
    for sub in walk(e):
        if sub[0] == 'agg' and sub[1].startswith('adt:') and sub[1].split('::')[-2 if sub[1].count('::') else -1].split(':')[-1] == type_name or \
                (sub[0] == 'agg' and sub[1].startswith('adt:') and ('::' + type_name + '::') in (sub[1].replace('adt:', '::'))):
            adt = crate.adts.get(type_name) or next((v for k, v in crate.adts.items() if k.endswith('::' + type_name)), None)
            if adt and field in adt[0]['fields']:
                i = adt[0]['fields'].index(field)
                if i < len(sub[2]):
                    return sub[2][i]
        if new_arg is not None and sub[0] == 'call' and type_name in sub[1] and short(sub[1]) == 'new' and new_arg < len(sub[2]):
            return sub[2][new_arg]
    return None


def resolve_captures(crate, cf, e, depth=0):
    """rewrite an expression of a (possibly nested) closure in terms of its top-level function:
    captured variables are replaced by the captured operands, level by level"""
    while cf is not None and cf.is_closure and depth < 6:
        e2_ = simplify(subst_upvars(crate, cf, e))
        parent, agg = parent_agg(crate, cf)
        if agg is None:
            break
        e, cf = e2_, parent
        depth += 1
    return e


def len_lower_bound(fn, bi):
    """lower bound on `len()` of each collection implied by the guards of block bi: {normalised collection: lb}
    (value matches excluding small constants, is_empty, comparisons of len with constants)"""
    import facts as _f
    lbs = {}
    facts_ = []
    for c in fn.conds(bi):
        a = strip_refs(c['a']) if c.get('a') is not None else None
        if a is None:
            continue
        if c['kind'] == 'Is:is_empty' and c.get('truth') is False:
            facts_.append((norm(a), 'ge', 1))
        elif (a[0] == 'call' and short(a[1]) == 'len' and a[2]) or a[0] == 'len':
            coll = norm(a[2][0]) if a[0] == 'call' else norm(a[1])      # `.len()` or the length read by a slice pattern
            if c['kind'] == 'value':
                t = fn.blocks[c['switch']]['term']
                listed = sorted(int(v) for v, _ in t['targets'] if v.isdigit())
                if 'else' in c['values'] and not any(v.isdigit() for v in c['values']):
                    for v in listed:
                        facts_.append((coll, 'ne', v))
            elif c.get('b') is not None and c['b'][0] == 'const' and c['b'][1] is not None:
                try:
                    k = int(float(c['b'][1]))
                except (TypeError, ValueError):
                    continue
                kind, truth = c['kind'], c.get('truth')
                if kind == 'Eq' and truth is False:
                    facts_.append((coll, 'ne', k))
                elif kind == 'Gt' and truth is True or kind == 'Le' and truth is False:
                    facts_.append((coll, 'ge', k + 1))
                elif kind == 'Ge' and truth is True or kind == 'Lt' and truth is False:
                    facts_.append((coll, 'ge', k))
        elif a[0] == 'len':
            pass
    for coll, k, v in facts_:
        if k == 'ge':
            lbs[coll] = max(lbs.get(coll, 0), v)
    changed = True
    while changed:
        changed = False
        for coll, k, v in facts_:
            if k == 'ne' and lbs.get(coll, 0) == v:
                lbs[coll] = v + 1
                changed = True
    return lbs


def len_upper_bound(fn, bi):
    """upper bound on `len()` of each collection implied by the guards of block bi (is_empty true, a matched value,
    comparisons of len with constants): {normalised collection: ub}"""
    ubs = {}

    def put(coll, v):
        ubs[coll] = min(ubs.get(coll, v), v)
    for c in fn.conds(bi):
        a = strip_refs(c['a']) if c.get('a') is not None else None
        if a is None:
            continue
        if c['kind'] == 'Is:is_empty' and c.get('truth') is True:
            put(norm(a), 0)
        elif (a[0] == 'call' and short(a[1]) == 'len' and a[2]) or a[0] == 'len':
            coll = norm(a[2][0]) if a[0] == 'call' else norm(a[1])
            if c['kind'] == 'value':
                vs = [int(v) for v in c['values'] if str(v).isdigit()]
                if vs and 'else' not in c['values']:
                    put(coll, max(vs))
            elif c.get('b') is not None and c['b'][0] == 'const' and c['b'][1] is not None:
                try:
                    k = int(float(c['b'][1]))
                except (TypeError, ValueError):
                    continue
                kind, truth = c['kind'], c.get('truth')
                if kind == 'Eq' and truth is True:
                    put(coll, k)
                elif (kind == 'Gt' and truth is False) or (kind == 'Le' and truth is True):
                    put(coll, k)
                elif (kind == 'Ge' and truth is False) or (kind == 'Lt' and truth is True):
                    put(coll, k - 1)
    return ubs


# ---- per-player pairing of two expressions (zip / enumerate+index / array of pairs / constant indices)
def _plain_iter_of(e):
    """field name F when e is iter/iter_mut/into_iter (any nesting, refs and unsizing casts ignored) over `.F`"""
    x = e
    while True:
        x = strip_refs(x)
        if x[0] == 'cast':
            x = x[1]
            continue
        if x[0] == 'call' and short(x[1]) in ('iter', 'iter_mut', 'into_iter') and len(x[2]) == 1:
            x = x[2][0]
            continue
        break
    return x[2] if x[0] == 'field' else None


def _mentions_field(e, name):
    return find_sub(e, lambda s: s[0] == 'field' and s[2] == name) is not None


def same_player(a0, a1, f0, f1):
    """do a0 (derived from the per-player array field f0) and a1 (from f1) belong to the same player?
    True / False on a recognised pairing, None when the pairing is not recognised.  Returns (verdict, detail)."""
    t0, t1 = tags(a0), tags(a1)
    nexts0 = [s for s in walk(a0) if s[0] == 'call' and short(s[1]) == 'next']
    nexts1 = [s for s in walk(a1) if s[0] == 'call' and short(s[1]) == 'next']
    common = [n for n in nexts0 if n in nexts1]
    if not common:
        if len(t0) == 1 and len(t1) == 1 and _mentions_field(a0, f0) and _mentions_field(a1, f1):
            return t0 == t1, 'constant indices %s / %s' % (sorted(t0), sorted(t1))
        return None, 'no common iteration and no constant indices'
    for n in common:
        item = ('field', ('downcast', n, 'Some'), '0')
        it = n[2][0]
        while True:
            it = strip_refs(it)
            if it[0] == 'call' and short(it[1]) == 'into_iter' and len(it[2]) == 1:
                it = it[2][0]
                continue
            break

        def via(e, k):
            return find_sub(e, lambda s: s[0] == 'field' and s[2] == k and s[1] == item) is not None
        if is_call(it, 'zip') and len(it[2]) == 2:
            sides = [_plain_iter_of(it[2][0]), _plain_iter_of(it[2][1])]
            if None in sides:
                return None, 'zip of something else than plain iterations: %s' % (sides,)
            if sorted(sides) != sorted([f0, f1]):
                return False, 'zip pairs %s, expected %s with %s' % (sides, f0, f1)
            k0, k1 = str(sides.index(f0)), str(sides.index(f1))
            ok = via(a0, k0) and via(a1, k1)
            return (True if ok else None), 'zip(%s, %s): %s from item.%s, %s from item.%s: %s' % (sides[0], sides[1], f0, k0, f1, k1, ok)
        if is_call(it, 'enumerate') and len(it[2]) == 1:
            over = _plain_iter_of(it[2][0])
            if over not in (f0, f1):
                return None, 'enumerate over %s' % (over,)
            other, ao, av = (f1, a1, a0) if over == f0 else (f0, a0, a1)
            idx = ('field', item, '0')
            by_index = find_sub(ao, lambda s: s[0] == 'index' and strip_refs(s[1])[0] == 'field' and strip_refs(s[1])[2] == other and strip_refs(s[2]) == idx) is not None
            ok = via(av, '1') and by_index
            return (True if ok else None), 'enumerate(%s): value from item.1, %s[item.0]: %s' % (over, other, ok)
        if it[0] == 'agg' and it[1] == 'array' and it[2] and all(x[0] == 'agg' and x[1] == 'tuple' and len(x[2]) == 2 for x in it[2]):
            pairs = []
            for x in it[2]:
                c0 = [c for c in x[2] if _mentions_field(c, f0)]
                c1 = [c for c in x[2] if _mentions_field(c, f1)]
                if len(c0) != 1 or len(c1) != 1 or c0[0] is c1[0]:
                    return None, 'array of pairs with other components'
                pairs.append((tags(c0[0]), tags(c1[0]), x[2].index(c0[0]), x[2].index(c1[0])))
            if any(len(p[0]) != 1 or len(p[1]) != 1 for p in pairs):
                return None, 'array of pairs without constant indices'
            if any(p[0] != p[1] for p in pairs):
                return False, 'a pair combines %s of one player with %s of the other: %s' % (f0, f1, [(sorted(p[0]), sorted(p[1])) for p in pairs])
            k0, k1 = str(pairs[0][2]), str(pairs[0][3])
            ok = all(str(p[2]) == k0 and str(p[3]) == k1 for p in pairs) and via(a0, k0) and via(a1, k1)
            return (True if ok else None), 'array of (player p %s, player p %s) pairs: %s' % (f1, f0, ok)
    return None, 'iteration shape not recognised'


def is_num_actions(e):
    """`info.num_actions()` or the same thing spelled out, `info.actions.len()`"""
    e = strip_refs(e)
    if e[0] == 'call' and short(e[1]) == 'num_actions':
        return True
    inner = None
    if e[0] == 'call' and short(e[1]) == 'len' and e[2]:
        inner = strip_refs(e[2][0])
    elif e[0] == 'len':
        inner = strip_refs(e[1])
    while inner is not None and inner[0] in ('cast', 'deref', 'ref'):
        inner = strip_refs(inner[1])
    while inner is not None and inner[0] == 'field' and inner[2] in ('0', 'pointer'):
        inner = strip_refs(inner[1])       # Box<[A]> internals
    return inner is not None and inner[0] == 'field' and inner[2] == 'actions'


def maps_num_actions(crate, cf):
    """is cf (closure or fn item) `|info| info.num_actions()` / `PlayerInfoset::num_actions` / `|info| info.actions.len()`?"""
    if cf is None:
        return False
    if isinstance(cf, tuple):
        return cf[0] == 'fn' and short(cf[1]) == 'num_actions'
    if short(cf.name) == 'num_actions' or any(short(p) == 'num_actions' for _, _, p in cf.calls()):
        return True
    try:
        return is_num_actions(ret_expr(cf))
    except Exception:
        return False


def running_max(f, l):
    """local `l` is a running f64 maximum: `let mut m = it.next().unwrap()` (or -inf) and `m = f64::max(m, item)` with
    `item` an element of the same iterator — returns the iterated source expression, else None"""
    from facts import strip_refs, norm, short
    vals = [strip_refs(v) for _, _, v in multi_def_values(f, l)]
    me = ('var', l, f.local_name(l))
    upd = [v for v in vals if v[0] == 'call' and short(v[1]) == 'max' and 'f64' in v[1] and len(v[2]) == 2 and any(strip_refs(a) == me for a in v[2])]
    init = [v for v in vals if v not in upd]

    def next_of(e_):
        n_ = find_sub(e_, lambda s_: s_[0] == 'call' and short(s_[1]) == 'next')
        return norm(strip_refs(n_[2][0])) if n_ is not None and n_[2] else None

    def base(e_):
        while e_ is not None and e_[0] == 'call' and short(e_[1]) in ('into_iter', 'by_ref') and e_[2]:
            e_ = norm(strip_refs(e_[2][0]))
        while e_ is not None and e_[0] == 'var':
            vs = [strip_refs(v) for _, _, v in multi_def_values(f, e_[1])]
            if len(vs) != 1 or vs[0] == e_:
                break
            e_ = norm(vs[0])
            while e_[0] == 'call' and short(e_[1]) in ('into_iter', 'by_ref') and e_[2]:
                e_ = norm(strip_refs(e_[2][0]))
        return e_
    if len(upd) != 1 or len(init) != 1:
        return None
    other = [a for a in upd[0][2] if strip_refs(a) != me]
    i1 = next_of(other[0]) if other else None
    if i1 is None:
        return None
    if init[0][0] == 'const' and 'NEG_INFINITY' in str(init[0]):
        return base(i1)
    i0 = next_of(init[0])
    if i0 is not None and base(i0) == base(i1):
        return base(i0)
    return None


def record_field_init(f, l, field, depth=0):
    """value a field of record local `l` was constructed with — when that field is never written afterwards in `f`
    (`let mut acc = Acc { exponent: p, total: 0.0 }; .. acc.total += ..` : `acc.exponent` is still `p`)"""
    from facts import strip_refs, norm
    if depth > 4:
        return None
    me = ('var', l, f.local_name(l))
    for bi, st, pl, rhs in stores(f):
        x = norm(pl)
        while x[0] in ('field', 'index', 'cidx', 'downcast'):
            if x[0] == 'field' and x[2] == field and norm(x[1]) == me:
                return None
            x = x[1]
    ds = f.defs.get(l, [])
    whole = [d for d in ds if d[0] != 'partial']
    if len(whole) != 1 or whole[0][0] != 'assign':
        return None
    rv = whole[0][3]
    if rv['r'] == 'agg' and rv['kind'].get('k') == 'adt':
        e = f.rvalue_expr(rv, whole[0][1])
        adt = f.crate.adts.get(e[1][4:].rsplit('::', 1)[0])
        if adt and len(adt) == 1 and field in adt[0].get('fields', []):
            i = adt[0]['fields'].index(field)
            return e[2][i] if i < len(e[2]) else None
        if str(field).isdigit() and int(field) < len(e[2]):
            return e[2][int(field)]
        return None
    if rv['r'] == 'use' and rv['a'].get('o') in ('copy', 'move') and not rv['a']['pl']['p']:
        return record_field_init(f, rv['a']['pl']['l'], field, depth + 1)
    return None
