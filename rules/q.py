"""small query helpers shared by the property modules"""
import facts
from facts import norm, short, strip_refs, walk


def calls_named(fn, name, contains=None):
    out = []
    for bi, t, p in fn.calls():
        if short(p) == name and (contains is None or contains in p):
            out.append((bi, t, fn.call_expr(t, bi)))
    return out


def closure_of(crate, e):
    """Fn of a closure aggregate expression (searching inside refs)"""
    for sub in walk(e):
        if sub[0] == 'agg' and sub[1].startswith('closure:'):
            return crate.fns.get(sub[1][len('closure:'):]), sub
    return None, None


def ret_expr(fn):
    return fn.local_expr(0)


def closure_pred(crate, e):
    """comparison computed by a predicate closure: (kind, a, b) in the closure's own terms"""
    cf, agg = closure_of(crate, e)
    if cf is None:
        return None, None, None
    return facts.cmp_of(ret_expr(cf)), cf, agg


def defs_of_local(fn, l):
    return fn.defs.get(l, [])


def multi_def_values(fn, l):
    """for a multi-def local: list of (block, guards, expr) per definition"""
    out = []
    for d in fn.defs.get(l, []):
        kind, bi, si, x = d
        if kind == 'assign':
            out.append((bi, fn.conds(bi), fn.rvalue_expr(x, bi)))
        elif kind == 'call':
            out.append((bi, fn.conds(bi), fn.call_expr(x, bi)))
    return out


def find_sub(e, pred):
    for s in walk(e):
        if pred(s):
            return s
    return None


def is_call(e, name, contains=None):
    return e[0] == 'call' and short(e[1]) == name and (contains is None or contains in e[1])


def top(name):
    return name.split('::{closure')[0]


def stores(fn):
    """assignments through a projection (field / deref / index writes): (bi, stmt, place_expr, rhs_expr)"""
    for bi, si, st in fn.assigns():
        if st['pl']['p']:
            yield bi, st, fn.place_expr(st['pl'], bi), fn.rvalue_expr(st['rv'], bi)


def agg_sites(fn, path_suffix, variant=None):
    """aggregate constructions `Path::Variant {..}`: (bi, stmt, expr)"""
    for bi, si, st in fn.assigns():
        rv = st['rv']
        if rv['r'] == 'agg' and rv['kind'].get('k') == 'adt' and rv['kind']['path'].endswith(path_suffix):
            if variant is None or rv['kind']['variant'] == variant:
                yield bi, st, fn.rvalue_expr(rv, bi)


def player_ctx(c):
    """context selector: player-number switches and const-generic bool switches"""
    if c['kind'] == 'variant' and set(c['variants']) <= {'One', 'Two'} and len(c['variants']) == 1:
        return ('num', c['variants'][0])
    if c['kind'] == 'bool' and c['a'][0] == 'cparam':
        return (c['a'][1], c['truth'])
    return None


def tags(e):
    """per-player array positions an expression is read from (constant indices into [T; 2])"""
    out = set()
    for s in walk(e):
        if s[0] == 'cidx' and not s[3]:
            out.add(s[2])
        elif s[0] == 'index' and s[2][0] == 'const' and s[2][1] is not None and str(s[2][1]).isdigit():
            out.add(int(s[2][1]))
    return out


def parent_agg(crate, cf):
    """(parent Fn, closure aggregate expression) of a closure"""
    pname = cf.name.rsplit('::{closure#', 1)[0]
    parent = crate.fns.get(pname)
    if parent is None:
        return None, None
    for bi, si, st in parent.assigns():
        rv = st['rv']
        if rv['r'] == 'agg' and rv['kind'].get('k') == 'closure' and rv['kind']['path'] == cf.name:
            return parent, parent.rvalue_expr(rv, bi)
    return parent, None


def subst_upvars(crate, cf, e):
    """replace captured variables by the parent's captured operands (one level)"""
    parent, agg = parent_agg(crate, cf)
    if agg is None:
        return e

    def go(x):
        if x[0] == 'upvar' and x[1] < len(agg[2]):
            return agg[2][x[1]]
        if x[0] in ('field', 'downcast'):
            return (x[0], go(x[1]), x[2])
        if x[0] in ('deref', 'ref', 'subslice'):
            return (x[0], go(x[1]))
        if x[0] == 'cast':
            return (x[0], go(x[1]), x[2])
        if x[0] == 'index':
            return (x[0], go(x[1]), go(x[2]))
        if x[0] == 'cidx':
            return (x[0], go(x[1]), x[2], x[3])
        if x[0] in ('call',):
            return (x[0], x[1], tuple(go(a) for a in x[2]), x[3])
        if x[0] == 'agg':
            return (x[0], x[1], tuple(go(a) for a in x[2]))
        if x[0] == 'bin':
            return (x[0], x[1], go(x[2]), go(x[3]))
        if x[0] == 'un':
            return (x[0], x[1], go(x[2]))
        return x
    return go(e)
