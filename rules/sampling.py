"""Sampling rules shared by C07 and C10: draw-at-most-once typestate of the cached samplers, what
the samplers draw from, reset per pass, pass structure of the sampled solver loops, and the
provenance of the index that selects a sampled child."""
import e1
import facts
import loops
import q
from facts import norm, short, strip_refs, is_const

SAMPLERS = ['solve::data::SampledChance::sample', 'solve::external::CachedInfoset::sample']
TRAVERSALS = {'recurse_single', 'recurse_multi', 'recurse_regret', 'thread_threshold', 'single_player_iter', 'par_extend'}


def is_draw_call(f, bi, t, p):
    c = t['callee']
    if c.get('krate') in e1.RNG_CRATES:
        return True
    e = f.call_expr(t, bi)
    return any(q.find_sub(a, lambda s: q.is_call(s, 'thread_rng')) is not None for a in e[2])


def draw_once(ctx, pid):
    rule = '%s.draw-once' % pid
    for suf in SAMPLERS:
        f = ctx.fn('lib', suf, rule)
        if f is None:
            continue
        name = suf.split('::')[-2]
        # the cache cell: a field of self whose "unset" test (sentinel 0, or Option::None) guards the draw
        import e9
        draws = [(bi, t) for bi, t, p in f.calls() if is_draw_call(f, bi, t, p) and short(p) != 'thread_rng' and 'std::num::NonZero' not in p]    # (an encoder applied to the draw is not the draw)
        rngs = [(bi, t) for bi, t, p in f.calls() if short(p) == 'thread_rng' or t['callee'].get('krate') in e1.RNG_CRATES]
        # whatever the cache cell looks like: an encoding of the draw that has a niche must be injective on draws.
        # `NonZero::new(draw)` is `None` (= unset) for the draw 0 — only `NonZero::new(draw + 1)` remembers every draw
        for bi, st, pl, rhs in q.stores(f):
            r = strip_refs(rhs)
            if r[0] == 'call' and 'NonZero' in r[1] and short(r[1]) in ('new', 'new_unchecked') and r[2] and q.find_sub(pl, lambda s: s[0] == 'param' and s[1] == 1) is not None:
                a0 = strip_refs(norm(r[2][0]))
                raw = a0[0] == 'call' and any(facts.show(a0) == facts.show(strip_refs(norm(f.call_expr(t_, b_)))) for b_, t_ in draws)
                ctx.verdict(not raw, rule, '%s:%s:zero-draw-remembered' % (rule, name), 'a cached draw encoded with a niche keeps every draw apart from "unset": NonZero::new(draw + 1), never NonZero::new(draw)',
                            f.where(bi), 'stored %s' % facts.show(r)[:80], breaks='outcome 0 is never remembered: after drawing it, the next node of the same chance infoset draws again within the pass')
        cell = None
        for bi, t in draws + rngs:
            for c in f.conds(bi):
                x = e9.is_unset_test(c)
                if x is not None and x[0] == 'field' and norm(x[1]) == ('param', 1, f.local_name(1)):
                    cell = x
        if cell is None:
            ctx.anchor_lost(rule, suf + ': `unset` test of the cached draw guarding the RNG call')
            continue

        def unset_at(bi):
            return any(e9.is_unset_test(c, cell) is not None for c in f.conds(bi))

        def set_at(bi):
            return any(e9.is_set_test(c, cell) is not None for c in f.conds(bi))
        guarded = all(unset_at(bi) for bi, t in draws + rngs)
        ctx.verdict(bool(draws) and guarded, rule, '%s:%s:draw-only-when-unset' % (rule, name),
                    'every RNG call is control dependent on the "cache unset" edge (`cached == 0` / `None`)', f.where(draws[0][0]) if draws else f.where(0),
                    '%d RNG-related call(s), all on the unset edge: %s' % (len(draws + rngs), guarded), breaks='an infoset is re-drawn within a pass: nodes of one infoset follow different samples')
        # the draw is stored (as draw + 1, or Some(draw)) before returning it
        draw_e = f.call_expr(draws[-1][1], draws[-1][0]) if draws else None
        stored = False
        for bi, st, pl, rhs in q.stores(f):
            if norm(pl) == norm(cell) and unset_at(bi) and draw_e is not None:
                r = strip_refs(rhs)
                if r[0] == 'bin' and r[1] == 'Add' and ((is_const(r[3], 1) and strip_refs(r[2]) == draw_e) or (is_const(r[2], 1) and strip_refs(r[3]) == draw_e)):
                    stored = True
                if r[0] == 'agg' and r[1].endswith('Option::Some') and r[2] and strip_refs(r[2][0]) == draw_e:
                    stored = True
                if r[0] == 'call' and 'NonZero' in r[1] and short(r[1]) in ('new', 'new_unchecked') and r[2]:
                    # the niche form of the sentinel: Option<NonZeroUsize> holding draw + 1
                    a1 = strip_refs(r[2][0])
                    def is_draw_(x_):
                        x_ = strip_refs(x_)
                        return x_ == draw_e or (x_[0] == 'var' and strip_refs(f.local_expr(x_[1])) == draw_e)
                    if a1[0] == 'bin' and a1[1] == 'Add' and ((is_const(a1[3], 1) and is_draw_(a1[2])) or (is_const(a1[2], 1) and is_draw_(a1[3]))):
                        stored = True
        ctx.verdict(stored, rule, '%s:%s:cache-set' % (rule, name), 'on the drawing path the cache cell is assigned the draw (`draw + 1` / `Some(draw)`)', f.where(0), 'found: %s' % stored,
                    breaks='the next node of the same infoset draws again')
        # returned values
        vals = q.multi_def_values(f, 0) or [(0, [], f.local_expr(0))]
        ret_draw = any(draw_e is not None and strip_refs(v) == draw_e and unset_at(b) for b, cs, v in vals)

        def is_cached_value(v):
            v = strip_refs(v)
            if v[0] == 'bin' and v[1] == 'Sub' and norm(v[2]) == norm(cell) and is_const(v[3], 1):
                return True
            if v[0] == 'bin' and v[1] == 'Sub' and is_const(v[3], 1):
                g_ = strip_refs(norm(v[2]))
                if g_[0] == 'call' and 'NonZero' in g_[1] and short(g_[1]) == 'get' and q.find_sub(g_, lambda s_: norm(s_) == norm(cell)) is not None:
                    return True     # Option<NonZeroUsize> cell: Some(n) => n.get() - 1
            if v[0] == 'field' and v[2] == '0' and strip_refs(v[1])[0] == 'downcast' and strip_refs(v[1])[2] == 'Some':
                inner = norm(strip_refs(v[1])[1])
                # Some(d) of an Option cell, or the sentinel decoded by `cell.checked_sub(1)` (= cell - 1 when set)
                return inner == norm(cell) or (inner[0] == 'call' and short(inner[1]) == 'checked_sub' and len(inner[2]) == 2 and norm(inner[2][0]) == norm(cell) and is_const(inner[2][1], 1))
            return False
        ret_cached = any(is_cached_value(v) and set_at(b) for b, cs, v in vals)
        ctx.verdict(ret_draw and ret_cached, rule, '%s:%s:returns' % (rule, name), 'the drawing path returns the draw, the other path returns the cached draw and reaches no RNG', f.where(0),
                    'returns draw: %s; returns cached value: %s' % (ret_draw, ret_cached), breaks='the cached outcome is off by one from the drawn one')


def distributions(ctx, pid):
    rule = '%s.distribution-source' % pid
    lib = ctx.lib
    f = ctx.fn('lib', 'solve::data::SampledChance::new', rule)
    if f is not None:
        r = strip_refs(q.ret_expr(f))
        ok = False
        detail = facts.show(r)[:100]
        if r[0] == 'agg' and 'SampledChance' in r[1]:
            # whichever field holds the table (fields may be renamed / reordered): one operand is the alias table over
            # the parameter, another the unset cache value
            tabs = [x for x in r[2] if q.find_sub(x, lambda s: s[0] == 'call' and 'WeightedAliasIndex' in s[1] and short(s[1]) == 'new') is not None]
            w = q.find_sub(tabs[0], lambda s: s[0] == 'call' and 'WeightedAliasIndex' in s[1] and short(s[1]) == 'new') if len(tabs) == 1 else None
            src = q.find_sub(w, lambda s: s[0] == 'param') if w else None
            ok = w is not None and src is not None and src[1] == 1 and any(is_unset_value(x) for x in r[2] if x is not tabs[0])
        ctx.verdict(ok, rule, rule + ':chance-alias-table', 'the chance sampler is an alias table over exactly the weights it is given, and starts unset (cached = 0)', f.where(0), detail,
                    breaks='chance outcomes are not drawn proportionally to the declared weights')
    # every SampledChance::new call site passes the infoset's probs()
    n = 0
    for g in lib.non_test_fns():
        for bi, t, p in g.calls():
            if p == 'solve::data::SampledChance::new':
                n += 1
                e = g.call_expr(t, bi)
                a = strip_refs(e[2][0])
                ok = a[0] == 'call' and short(a[1]) == 'probs'
                ctx.touch(g)
                ctx.verdict(ok, rule, '%s:new-from-probs:%s' % (rule, q.top(g.name)), 'sampled chance infosets are built from the chance infoset\'s probs()', g.where(bi), 'argument = %s' % facts.show(a)[:60])
    if n < 4:
        ctx.anchor_lost(rule, 'SampledChance::new call sites', 'found %d of 4' % n)
    f = ctx.fn('lib', 'solve::external::CachedInfoset::sample', rule)
    if f is not None:
        ms = [(bi, t, e) for bi, t, e in q.calls_named(f, 'new') if 'Multinomial' in e[1]]
        if not ms:
            ctx.anchor_lost(rule, 'CachedInfoset::sample: Multinomial::new')
        for bi, t, e in ms:
            fields = [s[2] for s in facts.walk(e[2][0]) if s[0] == 'field' and not s[2].isdigit() and s[2] != 'pointer']
            ok = fields[:2] == ['strat', 'reg'] or fields[:1] == ['strat']
            ctx.verdict(ok and 'cum_strat' not in fields and 'cum_regret' not in fields, rule, rule + ':action-from-current-strategy',
                        'the sampled player\'s action is drawn from the current regret-matched strategy (`strat`), not the cumulative strategy or regrets', f.where(bi), 'drawn from self.%s' % '.'.join(reversed(fields)),
                        breaks='the non-updating player is sampled from the wrong distribution')


def cache_field(lib, adt_suffix):
    """name of the cached-draw field of a sampler struct, by type (usize sentinel or Option<usize>)"""
    for name, adt in lib.adts.items():
        if name == adt_suffix or name.endswith('::' + adt_suffix):
            for n, ty in zip(adt[0].get('fields', []), adt[0].get('ftys', [])):
                if ty == 'usize' or ty.replace(' ', '') in ('std::option::Option<usize>', 'Option<usize>'):
                    return n
    return 'cached'


def is_unset_value(rhs, depth=0):
    r = strip_refs(rhs)
    if is_const(r, 0) or (r[0] == 'agg' and r[1].endswith('Option::None')):
        return True
    if r[0] == 'call' and short(r[1]) == 'default' and not r[2]:
        return True         # Default::default() of the cache type: 0 / None
    # a one-field wrapper around the unset value (`SampleCache(None)`)
    return depth < 2 and r[0] == 'agg' and (r[1].startswith('adt:') or r[1] == 'tuple') and len(r[2]) == 1 and is_unset_value(r[2][0], depth + 1)


def resets(ctx, pid):
    rule = '%s.reset' % pid
    cf_chance = cache_field(ctx.lib, 'SampledChance')
    cf_info = cache_field(ctx.lib, 'CachedInfoset')
    f = ctx.fn('lib', 'solve::data::SampledChance::reset', rule)
    if f is not None:
        def on_field(pl_, name_):
            # the cache field itself, or the inside of a one-field wrapper around it (`self.cache.0 = None`)
            return pl_[0] == 'field' and (pl_[2] == name_ or (str(pl_[2]).isdigit() and strip_refs(pl_[1])[0] == 'field' and strip_refs(pl_[1])[2] == name_))
        ok = any(not f.conds(bi) and on_field(pl, cf_chance) and is_unset_value(rhs) for bi, st, pl, rhs in q.stores(f))
        ctx.verdict(ok, rule, rule + ':SampledChance::reset', 'reset() assigns cached = 0 unconditionally', f.where(0), 'found: %s' % ok, breaks='a chance infoset keeps last pass\'s outcome forever')
    def on_field(pl_, name_):
        return pl_[0] == 'field' and (pl_[2] == name_ or (str(pl_[2]).isdigit() and strip_refs(pl_[1])[0] == 'field' and strip_refs(pl_[1])[2] == name_))
    f = ctx.fn('lib', '<solve::external::CachedInfoset as solve::external::ActiveInfo>::advance', rule)
    if f is not None:
        rets = [bi for bi in f.reach if f.blocks[bi]['term']['t'] == 'return']
        ok = any(on_field(pl, cf_info) and is_unset_value(rhs) and all(f.dominates(bi, r) for r in rets) for bi, st, pl, rhs in q.stores(f))
        ctx.verdict(ok, rule, rule + ':CachedInfoset::advance', 'advance() assigns cached = 0 on every path', f.where(0), 'found: %s' % ok, breaks='a player infoset keeps the action sampled in an earlier pass')
    # the advance() of every sampled chance wrapper reaches reset
    lib = ctx.lib
    n = 0
    for name, g in lib.fns.items():
        if facts.is_test_path(name) or g.is_closure:
            continue
        if name.endswith('::advance') and 'SampledChance' in g.j.get('impl_self', '') and ('ChanceRecurse' in g.j.get('impl_trait', '') or 'ChanceInfo' in g.j.get('impl_trait', '')):
            n += 1
            ctx.touch(g)
            ok = any(p == 'solve::data::SampledChance::reset' for _, _, p in g.calls()) and not any(g.conds(bi) for bi, _, p in g.calls() if p.endswith('::reset'))
            ctx.verdict(ok, rule, '%s:advance-resets:%s' % (rule, g.j.get('impl_self')), 'advancing a sampled chance infoset resets its cached outcome', g.where(0), 'calls SampledChance::reset unconditionally: %s' % ok)
    if n < 3:
        ctx.anchor_lost(rule, 'advance() of sampled chance wrappers', 'found %d of 3' % n)


def arg_ty(f, t, i):
    a = t['args'][i]
    return a['pl']['ty'] if a['o'] in ('copy', 'move') else a['c'].get('ty', '')


def classify_event(lib, f, bi, t, p):
    """T: traversal, R: reset of the whole chance table, P: advance of a whole player slice.
    Tables are recognised by element type and array position, never by local names."""
    s = short(p)
    e = f.call_expr(t, bi)
    if s in ('recurse_single', 'recurse_multi', 'recurse_regret', 'thread_threshold', 'single_player_iter'):
        return ('T:' + s, e)
    if s == 'par_extend':
        return ('T:tasks', e)
    if s == 'for_each' and len(e[2]) >= 2:
        ty = arg_ty(f, t, 0)
        if 'IterMut' in ty and ('SampledChance' in ty or 'ChanceRecurse' in ty or 'ChanceInfo' in ty):
            cb = e[2][1]
            if cb[0] == 'fn' and short(cb[1]) == 'advance':
                return ('R:chance', e)
            cf, _ = q.closure_of(lib, cb)
            if cf is not None and any(short(pp) in ('advance', 'reset') for _, _, pp in cf.calls()):
                return ('R:chance', e)
    if s == 'sum':
        m = q.find_sub(e, lambda x: q.is_call(x, 'map'))
        if m is not None and len(m[2]) > 1:
            cf, _ = q.closure_of(lib, m[2][1])
            if cf is not None and any(short(pp) == 'advance' for _, _, pp in cf.calls()):
                return ('P', e)
    return None


def table_of(e):
    """the table a slice iterator ranges over: expression below iter_mut / par_iter_mut"""
    it = q.find_sub(e, lambda x: x[0] == 'call' and short(x[1]) in ('iter_mut', 'par_iter_mut'))
    return norm(it[2][0]) if it is not None else None


CHANCE_TYS = ('SampledChance', 'ChanceRecurse', 'ChanceInfo')
PLAYER_TYS = ('RegretInfoset', 'CachedInfoset')


def loop_events(f, blocks):
    """R / P events written as loops: `for info in table.iter_mut() { info.advance() }` (which is also
    what `table.iter_mut().for_each(..)` is normalised to by inline.py)"""
    out = []
    for h, body in f.loops:
        if h not in blocks or not (body < set(blocks)):
            continue
        t = f.blocks[h]['term']
        if t['t'] != 'call' or short(t['callee'].get('path') or t['callee'].get('def') or '') != 'next' or not t['args']:
            continue
        ty = arg_ty(f, t, 0)
        e = f.call_expr(t, h)
        if 'IterMut' not in ty:
            # an opaque iterator type (`impl IntoIterator` of an inlined helper, an adaptor): look at what it iterates
            if q.find_sub(e, lambda x: q.is_call(x, 'iter_mut')) is None:
                continue
            roots = [x for x in facts.walk(e) if x[0] in ('param', 'var') and x[1] < len(f.locals)]
            ty = ty + ' IterMut ' + ' '.join(f.locals[x[1]]['ty'] for x in roots)
        calls = {short(p) for bi, tt, p in f.calls() if bi in body and bi != h}
        # the element type may be a type parameter (`IterMut<C>` with `C: ChanceRecurse` in a generic state struct): then
        # the trait of the method called on the elements tells what table this is
        via = ' '.join((tt['callee'].get('trait') or '') + ' ' + (tt['callee'].get('def') or '') + ' ' + (tt['callee'].get('path') or '')
                       for bi, tt, p in f.calls() if bi in body and bi != h and short(p) in ('advance', 'reset'))
        if not any(x in ty for x in CHANCE_TYS + PLAYER_TYS) and 'IterMut' in ty:
            ty = ty + ' ' + via
        if any(x in ty for x in CHANCE_TYS) and calls & {'advance', 'reset'}:
            out.append((h, 'R:chance', e))
        elif any(x in ty for x in PLAYER_TYS) and 'advance' in calls:
            out.append((h, 'P', e))
    return out


def events_in(lib, f, blocks):
    ev = []
    inner = set()
    for h, k, e in loop_events(f, blocks):
        ev.append((h, k, e))
        inner |= dict(f.loops)[h] - {h}
    for bi, t, p in f.calls():
        if bi in blocks and bi not in inner:
            k = classify_event(lib, f, bi, t, p)
            if k:
                ev.append((bi, k[0], k[1]))

    # position of an event for ordering: the header of the outermost proper sub-loop of the unit containing it
    # (a loop body does not dominate what follows the loop; its header does)
    def anchor(bi):
        best = bi
        size = -1
        for h, body in f.loops:
            if bi in body and body < set(blocks) and len(body) > size:
                best, size = h, len(body)
        return best
    snapshot = [(anchor(b), k, e, b) for b, k, e in ev]

    def key(a):
        return sum(1 for b, _, _, _ in snapshot if f.dominates(b, a[0]) and b != a[0])
    srt = sorted(snapshot, key=key)
    ordered = all(f.dominates(srt[i][0], srt[i + 1][0]) for i in range(len(srt) - 1))
    ev = [(b, k, e) for _, k, e, b in srt]
    return ev, ordered


# passes per unit (frozen from reading): the vanilla loops make one pass per iteration, the external
# loops one per player, single_player_iter is one pass
PASSES = {'solve_generic_single': 1, 'solve_generic_multi': 1, 'solve_external_single': 2, 'solve_external_multi': 2, 'single_player_iter': 1}


def pass_structure(ctx, pid):
    """every pass = traversal(s) sharing one set of samples, then a reset of every chance infoset
    (and an advance of the updated player's whole slice) before the next pass"""
    rule = '%s.reset-per-pass' % pid
    lib = ctx.lib
    ls = loops.find(lib)
    if len(ls) < loops.FLOOR:
        ctx.anchor_lost(rule, 'solver loops', 'found %d' % len(ls))
    units = [(L.fn, L.body, q.top(L.fn.name)) for L in ls]
    sp = ctx.fn('lib', 'solve::external::single_player_iter', rule)
    if sp is not None:
        units.append((sp, set(sp.reach), 'solve::external::single_player_iter'))
    for f, blocks, name in units:
        ctx.touch(f)
        ev, ordered = events_in(lib, f, blocks)
        seq = [k for _, k, _ in ev]
        i, ok, passes = 0, ordered and bool(seq), 0
        pass_pairs = []   # (last traversal event, following P events)
        while ok and i < len(seq):
            if not seq[i].startswith('T:'):
                ok = False
                break
            if seq[i] == 'T:single_player_iter':
                passes += 1      # a whole pass; the callee holds the reset (checked as its own unit)
                i += 1
                continue
            while i < len(seq) and seq[i].startswith('T:') and seq[i] != 'T:single_player_iter':
                i += 1
            last_t = ev[i - 1]
            # after the traversals of a pass: the reset of the chance table and the advance of the updated
            # player's slice, in either order (they touch disjoint state), before the next traversal
            ps, nreset = [], 0
            while i < len(seq) and not seq[i].startswith('T:'):
                if seq[i].startswith('R:'):
                    nreset += 1
                elif seq[i] == 'P':
                    ps.append(ev[i])
                i += 1
            if nreset < 1:
                ok = False
                break
            passes += 1
            pass_pairs.append((last_t, ps))
        want_passes = PASSES.get(name.split('::')[-1])
        if want_passes is not None and passes != want_passes:
            ok = False
        if not ok and not any(x.startswith('T:') for x in seq):
            # no traversal recognised in this driver at all (its loop body lives in other functions now): nothing to order
            ctx.anchor_lost(rule, '%s: the traversals of a pass' % name, 'events recognised: %s' % (' '.join(seq) or 'none'))
            continue
        ctx.verdict(ok, rule, '%s:%s' % (rule, name),
                    'in every pass all traversals (frontier, tasks, root traversal) come first and are followed by a reset of the whole chance table before the next pass; no reset separates traversals of one pass',
                    f.where(ev[0][0]) if ev else f.where(0), 'event sequence: %s (%d pass(es), expected %s)' % (' '.join(seq), passes, want_passes),
                    breaks='chance outcomes are not redrawn for the next pass, or tasks and the root traversal of one pass follow different samples')
        if 'external' in name and ok and pass_pairs:
            # after player k's pass, the table advanced is the *active* table of that pass
            good = True
            detail = []
            for last_t, ps in pass_pairs:
                te = last_t[2]
                active = norm(te[2][2]) if last_t[1] == 'T:recurse_regret' and len(te[2]) > 2 else None
                tabs = [table_of(p[2]) for p in ps]
                same = len(tabs) == 1 and active is not None and tabs[0] is not None and (tabs[0] == active or facts.show(tabs[0]) == facts.show(active))
                detail.append('%s -> advance(%s)' % (facts.show(active)[-40:] if active else '?', facts.show(tabs[0])[-40:] if tabs and tabs[0] else 'none'))
                good &= same
            if not good and all(d_.startswith('? ->') for d_ in detail):
                ctx.anchor_lost(rule, '%s: the table each pass updates' % name, '; '.join(detail))
            else:
              ctx.verdict(good, rule, '%s:%s:player-advance' % (rule, name), 'each pass ends by advancing the whole slice of the player that pass updated (its active table), which resets that player\'s cached actions',
                        f.where(ev[0][0]) if ev else '', '; '.join(detail), breaks='a player\'s cached action survives into the next pass in which that player is sampled, or the wrong player is advanced')


def index_provenance(ctx, pid):
    """the table entry consulted for a node is the one indexed by that node's own infoset, and the
    sampled child is that node's child at the sampled index"""
    rule = '%s.shared-draw' % pid
    lib = ctx.lib
    n = 0
    for f in lib.non_test_fns():
        if not f.name.startswith(('solve::vanilla::', 'solve::external::')):
            continue
        for bi, t, p in f.calls():
            if short(p) not in ('next_nodes', 'next', 'next_update', 'recurse') or len(t['args']) < 2:
                continue
            e = f.call_expr(t, bi)
            recv = strip_refs(e[2][0])
            # receiver = TABLE[X.infoset] (possibly through get_mut().unwrap())
            idx = q.find_sub(recv, lambda s: s[0] == 'index' and strip_refs(s[2])[0] == 'field' and strip_refs(s[2])[2] == 'infoset')
            if idx is None:
                continue
            x = norm(strip_refs(idx[2])[1])
            y = norm(e[2][1])
            n += 1
            ctx.touch(f)
            ctx.verdict(x == y, rule, '%s:own-infoset:%s:%s' % (rule, q.top(f.name), short(p) + ('@' + facts.show(strip_refs(idx[1]))[-24:]).replace(' ', '')),
                        'the infoset entry consulted for a node is the one indexed by that node\'s own `.infoset`', f.where(bi), 'table index from %s, node argument %s' % (facts.show(x)[:50], facts.show(y)[:50]),
                        breaks='a node samples / updates another infoset\'s entry')
    if n < 8:
        ctx.anchor_lost(rule, 'infoset-indexed calls', 'found %d, expected at least 8' % n)
    # the child followed is outcomes[sample()] / actions[sample()] of the node passed in
    specs = [('<solve::data::SampledChance as solve::external::ChanceInfo>::next', 'outcomes', 2),
             ('<solve::external::CachedInfoset as solve::external::ExternalInfo>::next', 'actions', 2)]
    for suf, field, argi in specs:
        f = ctx.fn('lib', suf, rule)
        if f is None:
            continue
        r = strip_refs(q.ret_expr(f))
        ok = r[0] == 'index' and q.find_sub(r[1], lambda s: s[0] == 'field' and s[2] == field) is not None and \
            q.find_sub(r[1], lambda s: s[0] == 'param' and s[1] == argi) is not None and q.is_call(strip_refs(r[2]), 'sample')
        ctx.verdict(ok, rule, '%s:child-at-sample:%s' % (rule, suf.split('::')[-3] if '::' in suf else suf), 'the child followed is `node.%s[self.sample()]` of the node passed in' % field, f.where(0), 'returns %s' % facts.show(r)[:80],
                    breaks='the sampled index selects a child of a different node')
    for suf in ('<std::cell::RefCell<solve::data::SampledChance> as solve::vanilla::ChanceRecurse>::next_nodes',
                '<std::sync::Mutex<solve::data::SampledChance> as solve::vanilla::ChanceRecurse>::next_nodes'):
        f = ctx.fn('lib', suf, rule)
        if f is None:
            continue
        # chance.outcomes[ind..=ind] with ind = sample()
        idxc = [(bi, t, e) for bi, t, e in q.calls_named(f, 'index')]
        ok = False
        detail = 'no range index found'
        for bi, t, e in idxc:
            rng = strip_refs(e[2][1])
            if q.is_call(rng, 'new') and 'RangeInclusive' in rng[1]:
                a, b = strip_refs(rng[2][0]), strip_refs(rng[2][1])
                from_chance = q.find_sub(e[2][0], lambda s: s[0] == 'field' and s[2] == 'outcomes') is not None and q.find_sub(e[2][0], lambda s: s[0] == 'param' and s[1] == 2) is not None
                ok = a == b and q.is_call(a, 'sample') and from_chance
                detail = 'outcomes[%s..=%s] of the chance argument: %s' % (facts.show(a)[:30], facts.show(b)[:30], from_chance)
        ctx.verdict(ok, rule, '%s:child-at-sample:%s' % (rule, 'RefCell' if 'RefCell' in suf else 'Mutex'), 'the chance-sampled traversal follows exactly `chance.outcomes[ind..=ind]` with ind = sample(), weight 1.0', f.where(0), detail)


def lock_kinds(ctx, pid):
    rule = '%s.lock-kinds' % pid
    lib = ctx.lib
    import e9
    sites = e9.lock_sites(lib)
    if len(sites) < 5:
        ctx.anchor_lost(rule, 'Mutex acquisition sites', 'found %d of 5' % len(sites))
    for f, bi, kind, t in sites:
        ctx.touch(f)
        tr = f.j.get('impl_trait', '')
        if kind == 'try_lock' and not tr.endswith('ActiveRecurse') and not any(g_.j.get('impl_trait', '').endswith('ActiveRecurse') for g_ in lib.fns.values()):
            # the per-role wrapper traits are gone (one closure-taking wrapper instead): the non-blocking acquisition is
            # judged by who calls it — in recurse_regret only on elements of the updating player's table (parameter 3)
            rr = lib.one('solve::external::recurse_regret')
            uses = []
            if rr is not None:
                for g_ in [rr] + lib.closures_of(rr):
                    for bj, tj, ej in q.calls_named(g_, short(f.name)):
                        recv = q.resolve_captures(lib, g_, ej[2][0]) if g_.is_closure else ej[2][0]
                        ps = sorted({x[1] for x in facts.walk(recv) if x[0] == 'param' and '[' in rr.locals[x[1]]['ty']})
                        uses.append((g_.where(bj), ps))
            if not uses or any(len(ps) != 1 for _, ps in uses):
                ctx.anchor_lost(rule, 'try_lock wrapper %s: its uses in recurse_regret' % short(f.name), 'uses: %s' % uses)
            else:
                bad_ = [w for w, ps in uses if ps != [3]]
                ctx.verdict(not bad_, rule, '%s:try_lock:%s' % (rule, q.top(f.name)), 'the non-blocking try_lock is used only for the updating player\'s infosets, whose visit is unique', f.where(bi),
                            '%d uses of %s in recurse_regret; on another table than the updating player\'s: %s' % (len(uses), short(f.name), bad_), breaks='a second worker meeting a sampled-player or chance infoset fails instead of waiting')
        elif kind == 'try_lock':
            ok = tr.endswith('ActiveRecurse')
            ctx.verdict(ok, rule, '%s:try_lock:%s' % (rule, q.top(f.name)), 'the non-blocking try_lock is used only for the updating player\'s infosets (ActiveRecurse), whose visit is unique', f.where(bi), 'in impl of %s' % (tr or 'no trait'),
                        breaks='a second worker meeting a sampled-player or chance infoset fails instead of waiting')
        else:
            ok = not tr.endswith('ActiveRecurse')
            ctx.ok(rule, '%s:lock:%s' % (rule, q.top(f.name)), 'blocking lock() on tables that several workers may meet', f.where(bi), 'in impl of %s' % (tr or f.name))
    # which table goes with which trait in recurse_regret: the updating player's node uses the active table
    f = ctx.fn('lib', 'solve::external::recurse_regret', rule)
    if f is not None:
        for bi, t, p in f.calls():
            s = short(p)
            if s in ('recurse', 'next_update') and len(t['args']) >= 2:
                e = f.call_expr(t, bi)
                table = q.find_sub(e[2][0], lambda x: x[0] == 'param')
                cxs = f.contexts(bi, q.player_ctx)
                if not cxs or not all('num' in c and 'FIRST' in c for c in cxs):
                    ctx.bad(rule, '%s:table-role:%s' % (rule, s), 'role of the table follows (node player, FIRST)', f.where(bi), 'path contexts not recognised: %s' % cxs)
                    continue
                upd = {(c['num'] == 'One') == (c['FIRST'] is True) for c in cxs}
                is_updating = upd == {True}
                want_param = 3 if is_updating else 4
                want_call = 'recurse' if is_updating else 'next_update'
                ok = len(upd) == 1 and table is not None and table[1] == want_param and s == want_call
                ctx.verdict(ok, rule, '%s:table-role:%s' % (rule, s),
                            'a node of the updating player (One under FIRST, Two otherwise) uses the active table with recurse(); the other player\'s node uses the external table with next_update()', f.where(bi),
                            'contexts=%s table=param%s call=%s' % ([sorted(c.items()) for c in cxs], table and table[1], s),
                            breaks='the wrong player is sampled / updated in a pass')


def first_wiring(ctx, pid):
    """E10: under FIRST = true the updating (active) table is player one's (array position 0) and
    the sampled (external) table is player two's; mirrored under FIRST = false"""
    rule = '%s.first-wiring' % pid
    lib = ctx.lib
    n = 0
    for f in lib.non_test_fns():
        if not f.name.startswith('solve::external::solve_external_'):
            continue
        for bi, t, p in f.calls():
            s = short(p)
            cargs = [a for a in t['callee'].get('args', []) if a in ('true', 'false')]
            if s not in ('recurse_regret', 'single_player_iter') or not cargs:
                continue
            first = cargs[0] == 'true'
            e = f.call_expr(t, bi)
            if f.is_closure:
                e = q.subst_upvars(lib, f, e)
            if s == 'recurse_regret':
                act, ext = q.tags(e[2][2]), q.tags(e[2][3])
            else:
                arr = strip_refs(e[2][2])
                if arr[0] != 'agg' or len(arr[2]) != 2:
                    ctx.bad(rule, '%s:%s:%s' % (rule, q.top(f.name), cargs[0]), 'player tables are passed as [active, sampled]', f.where(bi), 'argument is %s' % facts.show(arr)[:60])
                    continue
                act, ext = q.tags(arr[2][0]), q.tags(arr[2][1])
            want = ({0}, {1}) if first else ({1}, {0})
            n += 1
            ctx.touch(f)
            ctx.verdict((act, ext) == want, rule, '%s:%s:%s<%s>' % (rule, q.top(f.name), s, cargs[0]),
                        'with FIRST = true the updating table is player one\'s (position 0) and the sampled table player two\'s; mirrored for false', f.where(bi),
                        'FIRST=%s active=%s sampled=%s' % (first, sorted(act), sorted(ext)), breaks='a pass updates the player it should sample')
    if n < 4:
        ctx.anchor_lost(rule, 'FIRST-instantiated traversal calls in the external solvers', 'found %d of 4' % n)
    # inside single_player_iter position 0 is the active table everywhere
    f = ctx.fn('lib', 'solve::external::single_player_iter', rule)
    if f is not None:
        for bi, t, p in f.calls():
            s = short(p)
            e = f.call_expr(t, bi)
            if s == 'recurse_regret':
                ok = q.tags(e[2][2]) == {0} and q.tags(e[2][3]) == {1}
                ctx.verdict(ok, rule, '%s:single_player_iter:root-traversal' % rule, 'the root traversal gets (active = position 0, sampled = position 1)', f.where(bi), 'active=%s sampled=%s' % (sorted(q.tags(e[2][2])), sorted(q.tags(e[2][3]))))
            elif s == 'thread_threshold':
                ok = q.tags(e[2][2]) == {1}
                ctx.verdict(ok, rule, '%s:single_player_iter:frontier' % rule, 'the frontier builder follows the sampled player\'s table (position 1)', f.where(bi), 'table=%s' % sorted(q.tags(e[2][2])))
        # the task closure forwards captures in the same roles
        import e9
        for kind, cf, agg, host, bi in e9.rayon_regions(lib):
            if host is f and kind == 'shared':
                for bj, t, e in q.calls_named(cf, 'recurse_regret'):
                    e2_ = q.subst_upvars(lib, cf, e)
                    ok = q.tags(e2_[2][2]) == {0} and q.tags(e2_[2][3]) == {1}
                    ctx.verdict(ok, rule, '%s:single_player_iter:tasks' % rule, 'tasks get (active = position 0, sampled = position 1)', cf.where(bj), 'active=%s sampled=%s' % (sorted(q.tags(e2_[2][2])), sorted(q.tags(e2_[2][3]))))
    # advance::<FIRST> is instantiated with the pass's FIRST
    for f in lib.non_test_fns():
        if not f.is_closure or not f.name.startswith('solve::external::'):
            continue
        for bi, t, p in f.calls():
            if short(p) == 'advance' and 'ActiveInfo' in (p + t['callee'].get('def', '') + t['callee'].get('trait', '')):
                cargs = [a for a in t['callee'].get('args', []) if a in ('true', 'false', 'FIRST')]
                parent, agg = q.parent_agg(lib, f)
                if parent is None or not cargs:
                    continue
                # the pass in the parent preceding this advance: for every creation of the closure, the nearest
                # recurse_regret instantiation dominating it
                cbs = [b for b, si, st in parent.assigns() if st['rv']['r'] == 'agg' and st['rv']['kind'].get('path') == f.name]
                insts = []
                for cb in cbs:
                    cands = []
                    for bj, tt, pp in parent.calls():
                        if short(pp) == 'recurse_regret':
                            ca = [a for a in tt['callee'].get('args', []) if a in ('true', 'false', 'FIRST')]
                            if ca and parent.dominates(bj, cb):
                                cands.append((bj, ca[0]))
                    near = [c for c in cands if all(parent.dominates(o[0], c[0]) for o in cands)]
                    if near:
                        insts.append(near[0][1])
                if not insts:
                    continue
                bad_i = [i for i in insts if i != cargs[0]]
                inst = bad_i[0] if bad_i else insts[0]
                ctx.verdict(cargs[0] == inst, rule, '%s:advance-instantiation:%s:%s' % (rule, q.top(f.name), inst), 'advance::<FIRST> uses the FIRST of the pass it closes (the off-by-one of the first player\'s average discount)', f.where(bi),
                            'pass FIRST=%s advance::<%s>' % (inst, cargs[0]), breaks='the average-strategy discount of one player is shifted by an iteration')
