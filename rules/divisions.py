"""The division rule (shared by C01, C05, C11, C14, C18, C19).

Every f64 division in non-test code of lib + bin must be (a) by a non-zero literal, (b) on the
non-zero edge of a dominating test of the divisor, or (c) an audited entry below.  Ownership maps
each function to the property whose statement the division serves; unknown functions default to
C05 ("never NaN / well-formed profile").
"""
import e2
import facts
from facts import norm, short

# (function suffix, divisor class, reason — the invariant that keeps the divisor non-zero, and the
#  rule that protects the invariant)
AUDITED = [
    ('solve::data::RegretInfoset::new', 'count',
     'number of actions of a decision infoset: infosets are created only in the `len >= 2` arm of construction (C11.arm-split)'),
    ('solve::vanilla::MutexRegretInfoset::new', 'count',
     'number of actions of a decision infoset (>= 2, C11.arm-split)'),
    ('solve::data::avg_strat', 'count',
     'length of one infoset\'s strategy slice (>= 2, C11.arm-split); only used on the zero-norm edge'),
    ('solve::data::RegretParams::regret_match', 'count',
     'length of one infoset\'s strategy slice (>= 2, C11.arm-split)'),
    ('solve::data::RegretParams::regret_match', 'sum-exp',
     'softmax normaliser: a sum of exp() terms that contains exp(0) = 1 for the maximal entry'),
    ('solve::data::RegretParams::discount_average_strat', 'plus-one',
     'float + 1.0 with float = iteration index >= 0'),
    ('solve::data::RegretParams::cum_regret', 'count',
     'iteration index: every solver loop starts at 1 (C09.O1-range)'),
    ('Game::<I, A>::init_recurse', 'sum',
     'sum of the chance weights of one node, each dominated by `> 0.0 && is_finite()` (C11.chance-weight), at least two of them'),
    ('regret::optimal_deviations', 'sum',
     'total reach of the nodes of one infoset: nodes are registered only below strictly positive probabilities (C01.positive-filter)'),
]

OWNER = [
    ('Strategies::<\'a, I, A>::truncate', 'C18'),
    ('Strategies::<\'a, I, A>::distance', 'C19'),
    ('Game::<I, A>::strat_into_box', 'C14'),
    ('Game::<I, A>::init_recurse', 'C11'),
    ('regret::', 'C01'),
    ('solve::', 'C05'),
    ('gambit::', 'C15'),
]


def owner_of(fname):
    base = fname.split('::{closure')[0]
    for pat, pid in OWNER:
        if pat in base:
            return pid
    return 'C05'


def divisor_class(crate, den):
    d = norm(den)
    if d[0] == 'cast':
        inner = norm(d[1])
        if inner[0] in ('param', 'len', 'var', 'upvar', 'field') or (inner[0] == 'call' and short(inner[1]) in ('len', 'num_actions')):
            return 'count'
    if d[0] == 'bin' and d[1] == 'Add' and (facts.is_const(d[3], 1) or facts.is_const(d[2], 1)):
        return 'plus-one'
    if d[0] == 'call' and short(d[1]) == 'sum':
        # does the summed map closure apply exp()?
        for sub in facts.walk(d):
            if sub[0] == 'agg' and sub[1].startswith('closure:'):
                cf = crate.fns.get(sub[1][len('closure:'):])
                if cf is not None and any(short(p) == 'exp' and 'f64' in p for _, _, p in cf.calls()):
                    return 'sum-exp'
        return 'sum'
    return 'other'


def _den(crate, f, dv):
    """the divisor, a captured one in terms of the function that built the closure"""
    if f.is_closure:
        import q
        try:
            return q.resolve_captures(crate, f, dv['den'])
        except Exception:
            return dv['den']
    return dv['den']


def orphan_audits(ctx):
    """audited divisions whose function no longer contains an (unguarded) division of that class: the audited
    computation was moved (into a new helper, a renamed or reshaped function)"""
    present = set()
    for kind in ('lib', 'bin'):
        crate = ctx.crates.get(kind)
        if crate is None:
            continue
        for f in crate.non_test_fns():
            base = f.name.split('::{closure')[0]
            for dv in e2.f64_divisions(f):
                cl, okflag, info = e2.classify_division(f, dv)
                if cl in ('literal', 'guarded'):
                    continue
                dclass = divisor_class(crate, _den(crate, f, dv))
                for a in AUDITED:
                    if base.endswith(a[0]) and a[1] == dclass:
                        present.add((a[0], a[1]))
    return [a for a in AUDITED if (a[0], a[1]) not in present]


def _stored_option_payload(den):
    import facts as _f
    x = _f.strip_refs(den)
    if not (x[0] == 'field' and str(x[2]) == '0'):
        return False
    d = _f.strip_refs(x[1])
    if not (d[0] == 'downcast' and d[2] == 'Some'):
        return False
    inner = _f.strip_refs(d[1])
    while inner[0] in ('field', 'deref', 'cidx', 'index'):
        inner = _f.strip_refs(inner[1])
    # an element handed out by an iterator (`next(..)` item) or read from a container, not a value computed here
    return inner[0] == 'downcast' and inner[2] == 'Some' and _f.strip_refs(inner[1])[0] == 'call' and _f.short(_f.strip_refs(inner[1])[1]) in ('next', 'get', 'pop')


def run(ctx, pid, rule_prefix=None):
    """emit the division obligations owned by property pid"""
    rule = '%s.division-guard' % pid
    used = set()
    count = 0
    orphans = None
    for kind in ('lib', 'bin'):
        crate = ctx.crates.get(kind)
        if crate is None:
            continue
        for f in crate.non_test_fns():
            if owner_of(f.name) != pid:
                continue
            divs = list(e2.f64_divisions(f))
            if not divs:
                continue
            ctx.touch(f)
            per_class = {}
            for dv in divs:
                count += 1
                base = f.name.split('::{closure')[0]
                cl, okflag, info = e2.classify_division(f, dv)
                dclass = divisor_class(crate, _den(crate, f, dv))
                n = per_class.get((cl, dclass), 0)
                per_class[(cl, dclass)] = n + 1
                key = '%s:%s:%s%s' % (rule, base, dclass, '' if n == 0 else '#%d' % n)
                text = 'every f64 division is by a non-zero literal, on the non-zero edge of a dominating test of its divisor, or an audited divisor'
                site = f.where(line=dv['line'])
                if cl == 'literal':
                    ctx.verdict(okflag, rule, key, text, site, 'divisor is the literal %s' % info)
                elif cl == 'guarded':
                    ctx.ok(rule, key, text, site, 'guarded: %s' % info)
                else:
                    aud = [a for a in AUDITED if base.endswith(a[0]) and a[1] == dclass]
                    if aud:
                        used.add((aud[0][0], aud[0][1]))
                        ctx.ok(rule, key, text, site, 'audited (%s): %s' % (dclass, aud[0][2]))
                    else:
                        if orphans is None:
                            orphans = orphan_audits(ctx)
                        moved = [a for a in orphans if a[1] == dclass]
                        if moved:
                            # an audited division of the same kind has left its function and this one appeared where
                            # no audit applies: the audited computation was moved, its invariant is not re-established here
                            ctx.anchor_lost(rule, 'audited division of %s (divisor class %s)' % (moved[0][0], dclass),
                                            'a division by `%s` now sits in %s, where the audit (%s) cannot be matched' % (info[:60], base, moved[0][2][:80]))
                        elif _stored_option_payload(dv['den']):
                            # the divisor is the payload of an `Option` taken out of a collection: whether it can be zero was
                            # decided where that collection was filled (`(total > 0.0).then_some(total)`), out of this rule's sight
                            ctx.anchor_lost(rule, 'division in %s: the divisor is a stored Option payload' % base, 'divisor `%s`' % info[:80])
                        else:
                            ctx.bad(rule, key, text, site,
                                    'divisor `%s` is neither tested against zero on a dominating edge nor audited' % info[:160],
                                    breaks='a zero divisor yields NaN / inf probabilities or distances')
    return count
