#!/usr/bin/env python3
"""debug helper: pretty-print the MIR facts of functions matching a substring"""
import sys, os
sys.path.insert(0, os.path.dirname(os.path.abspath(__file__)))
import extract, facts

def dump(f):
    print('=' * 100)
    print(f.name, f.span, 'argc', f.argc)
    for bi in range(f.n):
        b = f.blocks[bi]
        if bi not in f.reach: continue
        gs = ['%s@bb%d=%s' % (c['kind'], c['switch'], c.get('variants') or c.get('truth') if c['kind'] in ('variant',) or 'truth' in c else c.get('values')) for c in f.conds(bi)]
        print(' bb%d: preds=%s guards=%s' % (bi, f.preds[bi], gs))
        for st in b['stmts']:
            if st['s'] == 'assign':
                pl = st['pl']
                print('    L%s  %s := %s' % (st['line'], facts.show(f.project(('var', pl['l'], f.local_name(pl['l']) or '_%d' % pl['l']), pl['p'])), facts.show(f.rvalue_expr(st['rv'], bi))))
        t = b['term']
        if t['t'] == 'call':
            d = t['dest']
            print('    L%s  %s := CALL %s  -> bb%s' % (t['line'], facts.show(f.project(('var', d['l'], f.local_name(d['l']) or '_%d' % d['l']), d['p'])), facts.show(f.call_expr(t, bi)), t['to']))
            print('           path=%s' % (t['callee'].get('path') or t['callee'].get('def')))
        elif t['t'] == 'switch':
            d, names = f.switch_labels(bi)
            print('    L%s  SWITCH %s %s else->bb%d' % (t['line'], facts.show(d), ['%s(%s)->bb%d' % (v, names.get(v, ''), b2) for v, b2 in t['targets']], t['otherwise']))
        else:
            print('    %s' % {k: v for k, v in t.items() if k in ('t', 'to', 'line')})

if __name__ == '__main__':
    kind, pat = sys.argv[1], sys.argv[2]
    d, info = extract.ensure_facts('default')
    crates = facts.load_crates(d, info)
    for n, f in crates[kind].fns.items():
        if pat in n:
            dump(f)
