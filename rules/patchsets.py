"""Replay of the two patch sets written by independent sub-agents (seeded/: breaking changes, benign/:
behaviour-preserving refactors) against the rules of one property — part of the thorough tier.
Patches are applied to scratch copies of /repo under /tmp (removed afterwards), never to /repo."""
import concurrent.futures
import json
import os
import shutil
import subprocess
import threading

import extract
import selftest

VERIF = extract.VERIF
SCR = '/tmp/cfr-patchsets-%d' % os.getpid()


def keys_on_patch(pdir, pids, slot):
    d = os.path.join(SCR, 'slot%d' % slot, 'repo')
    shutil.rmtree(d, ignore_errors=True)
    os.makedirs(os.path.dirname(d), exist_ok=True)
    shutil.copytree(extract.REPO, d, ignore=shutil.ignore_patterns('target', '.git'))
    subprocess.run(['git', 'init', '-q'], cwd=d)
    p = subprocess.run(['git', 'apply', '--whitespace=nowarn', os.path.join(pdir, 'patch.diff')], cwd=d, stdout=subprocess.PIPE, stderr=subprocess.STDOUT, text=True)
    shutil.rmtree(os.path.join(d, '.git'), ignore_errors=True)
    if p.returncode:
        return None
    return selftest.keys_for(d, pids)


def run_for(pid, jobs=8):
    """expectations: a seeded change whose recorded detection names this property must still raise a key of
    this property; no benign refactor may raise one.  Patches that no longer apply are skipped."""
    items = []
    gaps = set()
    for s in ('seeded', 'benign'):
        root = os.path.join(VERIF, s)
        if not os.path.isdir(root):
            continue
        for i in sorted(os.listdir(root)):
            mp = os.path.join(root, i, 'meta.json')
            if not os.path.isfile(os.path.join(root, i, 'patch.diff')) or not os.path.isfile(mp):
                continue
            m = json.load(open(mp))
            if s == 'seeded':
                if pid not in (m.get('detection', {}).get('new_violation_keys') or {}):
                    continue
            if s == 'benign' and not m.get('silent', True) and pid in (m.get('new_violation_keys') or {}):
                gaps.add(i)       # a recorded, documented false alarm of the current rules (DESIGN §10.11): reported, not hidden
            items.append((s, i, os.path.join(root, i)))
    base = selftest.keys_for(extract.REPO, [pid]).get(pid, set())
    free = list(range(jobs))
    lock = threading.Lock()

    def work(it):
        with lock:
            slot = free.pop()
        try:
            ks = keys_on_patch(it[2], [pid], slot)
        finally:
            with lock:
                free.append(slot)
        return it, ks
    lines, ok, failed, skipped = [], 0, 0, 0
    with concurrent.futures.ThreadPoolExecutor(max_workers=jobs) as ex:
        for (s, i, d), ks in ex.map(work, items):
            if ks is None:
                skipped += 1
                lines.append('SKIPPED %-7s %s (patch no longer applies)' % (s, i))
                continue
            new = sorted(set(ks.get(pid, set())) - base)
            good = bool(new) if s == 'seeded' else not new
            if not good and i in gaps:
                ok += 1
                lines.append('%-7s %-7s %-10s %s' % ('KNOWN-GAP', s, i, 'recorded false alarm of the checker on this refactor (benign/INDEX.md): ' + ', '.join(new)[:120]))
                continue
            ok += good
            failed += (not good)
            lines.append('%-7s %-7s %-10s %s' % ('OK' if good else 'FAIL', s, i, ', '.join(new)[:160]))
    selftest.cleanup(keep_targets=os.environ.get('CFR_KEEP_SCRATCH') == '1', roots=[SCR])
    return {'entries': len(items), 'ok': ok, 'failed': failed, 'skipped': skipped,
            'seeded': sum(1 for x in items if x[0] == 'seeded'), 'benign': sum(1 for x in items if x[0] == 'benign'), 'lines': lines}
