"""E4 — signed-monomial forms of f64 expressions.

An expression tree (facts.py) is normalised to a polynomial: a map from monomials (sorted tuples of
atoms) to numeric coefficients.  Atoms are opaque sub-expressions (loads, call results, parameters),
`PosPart(x)` for f64::max(x, 0.0), `Max(a, b)`, `inv(x)` for division.  Add/Sub/Neg/Mul/Div are
interpreted, both as MIR operators and as core::ops trait calls on references.  The result is the
*form* of a float expression — signs, constant factors and which values multiply which — never its
numeric value.  Anything not understood is an opaque atom, which can fail to prove an obligation
but cannot prove one wrongly.
"""
import facts
from facts import norm, short, strip_refs

MAX_TERMS = 24
OPS = {'add': 'Add', 'sub': 'Sub', 'mul': 'Mul', 'div': 'Div', 'neg': 'Neg'}


class Top(Exception):
    pass


def const_val(e):
    if e[0] == 'const' and e[1] is not None:
        try:
            return float(e[1])
        except (TypeError, ValueError):
            return None
    return None


def p_const(c):
    return {(): c} if c != 0 else {}


def p_atom(a):
    return {(a,): 1.0}


def p_add(a, b, sign=1.0):
    r = dict(a)
    for m, c in b.items():
        v = r.get(m, 0.0) + sign * c
        if v == 0:
            r.pop(m, None)
        else:
            r[m] = v
    if len(r) > MAX_TERMS:
        raise Top()
    return r


def p_mul(a, b):
    r = {}
    for m1, c1 in a.items():
        for m2, c2 in b.items():
            m = tuple(sorted(m1 + m2, key=repr))
            v = r.get(m, 0.0) + c1 * c2
            if v == 0:
                r.pop(m, None)
            else:
                r[m] = v
    if len(r) > MAX_TERMS:
        raise Top()
    return r


def p_neg(a):
    return {m: -c for m, c in a.items()}


def canon(p):
    return tuple(sorted(((m, c) for m, c in p.items()), key=repr))


def binop_of(e):
    """recognise an arithmetic node: (op, a, b) / ('Neg', a, None) or None"""
    e = strip_refs(e)
    if e[0] == 'bin' and e[1] in ('Add', 'Sub', 'Mul', 'Div'):
        return e[1], e[2], e[3]
    if e[0] == 'un' and e[1] == 'Neg':
        return 'Neg', e[2], None
    if e[0] == 'call' and 'ops::' in e[1] and short(e[1]) in OPS:
        op = OPS[short(e[1])]
        if op == 'Neg' and len(e[2]) == 1:
            return 'Neg', e[2][0], None
        if len(e[2]) == 2:
            return op, e[2][0], e[2][1]
    return None


def poly(e, atomize=None, depth=0):
    """polynomial form of an expression; atomize(expr) may map a sub-expression to a named atom"""
    if depth > 40:
        raise Top()
    e = strip_refs(e)
    if atomize is not None:
        a = atomize(e)
        if a is not None:
            return p_atom(a)
    c = const_val(e)
    if c is not None:
        return p_const(c)
    b = binop_of(e)
    if b is not None:
        op, x, y = b
        if op == 'Neg':
            return p_neg(poly(x, atomize, depth + 1))
        px, py = poly(x, atomize, depth + 1), poly(y, atomize, depth + 1)
        if op == 'Add':
            return p_add(px, py)
        if op == 'Sub':
            return p_add(px, py, -1.0)
        if op == 'Mul':
            return p_mul(px, py)
        if op == 'Div':
            if list(py.keys()) == [()] and py[()] != 0:
                return p_mul(px, p_const(1.0 / py[()]))
            return p_mul(px, p_atom(('inv', canon(py))))
    if e[0] == 'call' and short(e[1]) == 'max' and 'f64' in e[1] and len(e[2]) == 2:
        x, y = poly(e[2][0], atomize, depth + 1), poly(e[2][1], atomize, depth + 1)
        if not y:
            return p_atom(('PosPart', canon(x)))
        if not x:
            return p_atom(('PosPart', canon(y)))
        return p_atom(('Max',) + tuple(sorted((canon(x), canon(y)), key=repr)))
    if e[0] == 'call' and short(e[1]) == 'abs' and 'f64' in e[1] and len(e[2]) == 1:
        return p_atom(('Abs', canon(poly(e[2][0], atomize, depth + 1))))
    if e[0] == 'cast' and e[2] in ('f64', 'f32'):
        return p_atom(('cast', norm(e[1])))
    return p_atom(('val', norm(e)))


def try_poly(e, atomize=None):
    try:
        return poly(e, atomize)
    except (Top, RecursionError):
        return None


def show_atom(a):
    if a[0] == 'val':
        return facts.show(a[1])[:60]
    if a[0] == 'cast':
        return '(%s as f64)' % facts.show(a[1])[:40]
    if a[0] in ('PosPart', 'Abs'):
        return '%s(%s)' % (a[0], show_canon(a[1]))
    if a[0] == 'inv':
        return 'inv(%s)' % show_canon(a[1])
    if a[0] == 'Max':
        return 'Max(%s)' % ', '.join(show_canon(x) for x in a[1:])
    if a[0] == 'name':
        return a[1]
    return str(a)[:60]


def show_canon(cp):
    return show_poly(dict(cp))


def show_poly(p):
    if p is None:
        return 'TOP'
    if not p:
        return '0'
    out = []
    for m, c in sorted(p.items(), key=repr):
        s = '*'.join(show_atom(a) for a in m)
        if not m:
            out.append('%g' % c)
        elif c == 1:
            out.append('+' + s)
        elif c == -1:
            out.append('-' + s)
        else:
            out.append('%+g*%s' % (c, s))
    return ' '.join(out)


def coeff(p, pred):
    """sum of coefficients of the degree-1 monomials whose single atom satisfies pred; also returns
    whether the atom occurs in any other (higher-degree) monomial"""
    total, elsewhere = 0.0, False
    for m, c in p.items():
        hit = [a for a in m if pred(a)]
        if len(m) == 1 and hit:
            total += c
        elif hit:
            elsewhere = True
    return total, elsewhere


def monomials_with(p, pred):
    return {m: c for m, c in p.items() if any(pred(a) for a in m)}
