"""E9 — lock order and effects inside parallel regions.

Parallel regions are closures handed to rayon adaptors.  Two kinds:
 * exclusive-item regions (`par_iter_mut().map(..)`): every task owns `&mut` to its own element; the
   rule only requires that the closure captures nothing with interior mutability, so the type
   system rules out shared writes.
 * shared regions (`par_drain(..).map(..)` tasks): all code reachable from the closure in the
   instance graph may run concurrently on shared tables.  Without `unsafe`, shared state can only
   be written through atomics or mutex guards; every such write must be a commutative update
   (fetch_add / fetch_sub, `x = x ± e`) or a set-once under the lock (store dominated by the
   "unset" test `x == 0` of the same place).
Lock order: acquisition sites (Mutex::lock blocking / try_lock non-blocking), guard live ranges, and
the sites reachable while a guard is held; a violation is a cycle through distinct blocking sites.
"""
import re

import e1
import facts
import q
from facts import norm, short, strip_refs, walk

ATOMIC_OK = {'fetch_add', 'fetch_sub', 'load', 'new', 'get_mut', 'into_inner', 'as_ptr'}
ATOMIC_ORDER_DEPENDENT = {'store', 'swap', 'compare_exchange', 'compare_exchange_weak', 'fetch_update', 'compare_and_swap'}
INTERIOR = ('Mutex<', 'Atomic', 'RefCell<', 'Cell<', 'RwLock<', 'UnsafeCell<')


def rayon_regions(crate):
    """(kind, closure Fn, site fn, block) for closures passed to rayon adaptors"""
    out = []
    for f in crate.non_test_fns():
        for bi, t, p in f.calls():
            if 'rayon::' not in p and 'rayon::' not in (t['callee'].get('def') or ''):
                continue
            if short(p) not in ('map', 'for_each', 'map_with', 'filter_map', 'flat_map', 'for_each_with', 'fold', 'reduce', 'try_for_each'):
                continue
            e = f.call_expr(t, bi)
            for a in e[2][1:]:
                cf, agg = q.closure_of(crate, a)
                if cf is None:
                    continue
                src = facts.show(e[2][0])
                kind = 'exclusive' if ('par_iter_mut' in src) else ('shared' if 'par_drain' in src or 'par_iter' in src or 'into_par_iter' in src else 'shared')
                out.append((kind, cf, agg, f, bi))
    return out


def region_local_fns(crate, cf):
    """local functions (by def path) reachable in the instance graph from any instance of closure cf"""
    g = crate.graph
    starts = [i for i, n in enumerate(g['nodes']) if e1.node_path(n) == cf.name]
    reached = {}
    for s in starts:
        par = crate.reach_from(s)
        for x in par:
            p = e1.node_path(g['nodes'][x])
            if p in crate.fns:
                reached.setdefault(p, (s, par, x))
    return reached, bool(starts)


def sig_ret_provenance(fn):
    """indices (0-based) of reference arguments that share the lifetime of the returned reference"""
    sig = fn.j.get('sig', '')
    m = re.search(r'fn\((.*)\) -> (.*)$', sig)
    if not m:
        return None
    ret = m.group(2)
    lm = re.match(r"&('\w+) ", ret)
    if not lm:
        return None
    lt = lm.group(1)
    # split args at top-level commas
    args, depth, cur = [], 0, ''
    for ch in m.group(1):
        if ch in '([<':
            depth += 1
        elif ch in ')]>':
            depth -= 1
        if ch == ',' and depth == 0:
            args.append(cur.strip())
            cur = ''
        else:
            cur += ch
    if cur.strip():
        args.append(cur.strip())
    return [i for i, a in enumerate(args) if lt in a]


def provenance(crate, fn, e, depth=0):
    """set of roots a pointer expression may point into: ('local', l) owned frame locals,
    ('shared', desc) parameters / captures / lock results / unknown"""
    e0 = e
    out = set()
    if depth > 30:
        return {('shared', 'deep')}
    k = e[0]
    if k in ('ref', 'deref', 'field', 'downcast', 'cidx', 'subslice', 'cast'):
        return provenance(crate, fn, e[1], depth + 1)
    if k == 'index':
        return provenance(crate, fn, e[1], depth + 1)
    if k == 'var':
        ty = fn.locals[e[1]]['ty']
        if ty.startswith(('&', '*')):
            # a reference-typed multi-def local: look at all its definitions
            for d in fn.defs.get(e[1], []):
                if d[0] == 'assign':
                    out |= provenance(crate, fn, fn.rvalue_expr(d[3], d[1]), depth + 1)
                elif d[0] == 'call':
                    out |= provenance(crate, fn, fn.call_expr(d[3], d[1]), depth + 1)
            return out or {('shared', 'ref-local')}
        return {('local', e[1])}
    if k in ('param', 'upvar'):
        return {('shared', facts.show(e))}
    if k == 'call':
        s = short(e[1])
        if s in ('lock', 'try_lock') and 'Mutex' in e[1]:
            return {('shared', 'guard:' + s)}
        callee = crate.fns.get(e[1])
        idxs = sig_ret_provenance(callee) if callee is not None else None
        args = e[2]
        if idxs is not None:
            args = [a for i, a in enumerate(e[2]) if i in idxs]
        for a in args:
            out |= provenance(crate, fn, a, depth + 1)
        return out or {('local', 'fresh')}
    if k in ('agg',):
        for a in e[2]:
            out |= provenance(crate, fn, a, depth + 1)
        return out or {('local', 'fresh')}
    if k in ('const', 'repeat', 'promoted'):
        return {('local', 'const')}
    return {('shared', k)}


def is_accumulate(place, rhs):
    """x = x + e / x = x - e (also through ops::Add/Sub trait calls on references)"""
    p = norm(place)
    r = strip_refs(rhs)
    if r[0] == 'bin' and r[1] in ('Add', 'Sub'):
        a, b = norm(r[2]), norm(r[3])
        if a == p and q.find_sub(b, lambda s: s == p) is None:
            return True
        if r[1] == 'Add' and b == p and q.find_sub(a, lambda s: s == p) is None:
            return True
    if r[0] == 'call' and short(r[1]) in ('add', 'sub') and 'ops::' in r[1] and len(r[2]) == 2:
        a, b = norm(r[2][0]), norm(r[2][1])
        if a == p and q.find_sub(b, lambda s: s == p) is None:
            return True
    return False


def is_unset_test(c, place=None):
    """does guard c say "the cache cell is unset"?  Two encodings of an optional index are recognised: the
    sentinel 0 (`cell == 0` true / `cell != 0` false — one canonical Eq form) and `Option` (`None` variant).
    Returns the tested cell expression (normalised) or None."""
    if c['kind'] == 'Eq' and c.get('truth') is True and c.get('b') is not None and facts.is_const(c['b'], 0):
        cell = c['a']
    elif c['kind'] == 'variant' and c.get('variants') == ['None']:
        cell = norm(c['a'])
        if cell[0] == 'call' and facts.short(cell[1]) == 'checked_sub' and len(cell[2]) == 2 and facts.is_const(cell[2][1], 1):
            cell = norm(cell[2][0])      # `x.checked_sub(1)` is None exactly when x == 0 (sentinel decoded on the fly)
    else:
        return None
    if place is not None and cell != norm(place):
        return None
    return cell


def is_set_test(c, place=None):
    if c['kind'] == 'Eq' and c.get('truth') is False and c.get('b') is not None and facts.is_const(c['b'], 0):
        cell = c['a']
    elif c['kind'] == 'variant' and c.get('variants') == ['Some']:
        cell = norm(c['a'])
        if cell[0] == 'call' and facts.short(cell[1]) == 'checked_sub' and len(cell[2]) == 2 and facts.is_const(cell[2][1], 1):
            cell = norm(cell[2][0])
    else:
        return None
    if place is not None and cell != norm(place):
        return None
    return cell


def set_once_guard(fn, bi, place):
    for c in fn.conds(bi):
        if is_unset_test(c, place) is not None:
            return c
    return None


def shared_write_findings(crate, fn):
    """analyse one function that may run inside a shared parallel region.
    returns list of (instance, ok, detail, line)"""
    out = []
    # atomics
    for bi, t, p in fn.calls():
        if 'Atomic' in p or 'atomic' in p:
            s = short(p)
            if s in ATOMIC_ORDER_DEPENDENT:
                out.append(('atomic:' + s, False, 'order-dependent atomic write `%s` on shared state (lost update / schedule dependence)' % s, t['line']))
            elif s in ATOMIC_OK:
                if s in ('fetch_add', 'fetch_sub'):
                    out.append(('atomic:' + s, True, 'commutative atomic update', t['line']))
        if short(p) in ('add_assign', 'sub_assign', 'mul_assign', 'div_assign') and 'ops::' in p and t['args']:
            e = fn.call_expr(t, bi)
            prov = provenance(crate, fn, e[2][0])
            if any(x[0] == 'shared' for x in prov):
                ok = short(p) in ('add_assign', 'sub_assign')
                out.append(('store:' + short(p), ok, ('commutative ' if ok else 'non-commutative ') + 'compound assignment through %s' % sorted(x[1] for x in prov if x[0] == 'shared')[:2], t['line']))
    # stores through pointers
    n = 0
    for bi, st, pl, rhs in q.stores(fn):
        has_deref = any(p['k'] == 'deref' for p in st['pl']['p'])
        if not has_deref:
            continue
        prov = provenance(crate, fn, pl)
        if not any(x[0] == 'shared' for x in prov):
            continue
        if st.get('exp'):
            continue
        n += 1
        acc = is_accumulate(pl, rhs)
        once = set_once_guard(fn, bi, pl)
        desc = facts.show(norm(pl))[:70]
        names = sorted({x[2] for x in walk(pl) if x[0] == 'field' and not x[2].isdigit() and x[2] != 'pointer'})
        inst = 'store:%s' % ('+'.join(names) if names else 'deref')
        if acc:
            out.append((inst, True, 'commutative update `x = x ± e` of %s' % desc, st['line']))
        elif once is not None:
            out.append((inst, True, 'set-once: store to %s dominated by the unset test at line %s' % (desc, once['line']), st['line']))
        else:
            out.append((inst, False, 'plain store to possibly shared %s (neither `x = x ± e` nor a set-once under its unset test); value %s' % (desc, facts.show(rhs)[:60]), st['line']))
    return out


# ------------------------------------------------------------------------------------------------
# lock order

def lock_sites(crate):
    """acquisition sites: (fn, block, kind 'lock'|'try_lock', guard local or None)"""
    out = []
    for f in crate.non_test_fns():
        for bi, t, p in f.calls():
            if short(p) in ('lock', 'try_lock') and 'Mutex' in p:
                out.append((f, bi, short(p), t))
    return out


def held_calls(fn, bi):
    """calls executed while the guard acquired in block bi is (possibly) held: calls in blocks
    reachable from bi before the drop of the unwrapped guard temp; conservatively all calls
    dominated by bi up to the function's end when the drop cannot be identified"""
    # find the local holding the guard: dest of lock -> unwrap(dest) -> guard temp
    t = fn.blocks[bi]['term']
    res = t['dest']['l']
    guard = None
    for bj, tt, p in fn.calls():
        if short(p) in ('unwrap', 'expect') and tt['args'] and tt['args'][0]['o'] in ('move', 'copy') and tt['args'][0]['pl']['l'] == res:
            guard = tt['dest']['l']
    drops = set()
    for bj in fn.reach:
        tt = fn.blocks[bj]['term']
        if tt['t'] == 'drop' and tt['pl']['l'] in (guard, res) and not tt['pl']['p']:
            drops.add(bj)
    # forward reachability from bi stopping at drops
    seen, st = set(), [bi]
    while st:
        x = st.pop()
        for s in fn.succ[x]:
            if s in fn.reach and s not in seen:
                seen.add(s)
                if s not in drops:
                    st.append(s)
    calls = []
    for bj in sorted(seen):
        tt = fn.blocks[bj]['term']
        if tt['t'] == 'call' and bj not in drops:
            calls.append((bj, tt))
    return calls, guard is not None and bool(drops)
