"""C02 — regret bound from unsampled vanilla solve dominates the true regret."""
import os
import e4
import facts
import loops
import q
from facts import norm, short, strip_refs, is_const

EXPLANATION = """
That the accumulated counterfactual regrets are the right numbers is C08's structure plus the CFR
theorem; the domination inequality is about magnitudes and is not decided. Decided on the MIR of the
current tree (E4 signed-monomial forms, E5 expression forms, E10 player tags): (1) the form of
RegretParams::cum_regret is exactly 2 * PosPart(max-reduce over the *whole* cumulative-regret slice)
* inv(it as f64): coefficient 2 (each player's gain is bounded by the sum of both players' average
regrets), through f64::max(., 0.0), reduced with f64::max by an identity map, degree -1 in the
iteration index and no other dependence on it; (2) in all four solver loops the per-player bound is
the `sum` over the entire infoset slice of that player of advance(it, params) with the loop's own
induction variable, stored to that player's slot; (3) RegretBound::regret_bound is f64::max of both
slots and player_regret_bound selects by PlayerNum::ind; (4) non-negativity — a sum of PosPart terms
times positive constants; the initial INFINITY is overwritten on every path through the loop body
(C09.O3). The early-stop clause is C09.
"""
ASSUMPTIONS = ['the CFR regret bound theorem (average counterfactual regret bounds total regret)', 'iterator sum / reduce have their std semantics']
NOT_DECIDED = ['the inequality bound >= true regret as numbers', 'correctness of the accumulated counterfactual regrets as numbers']


def bound_form(ctx, rule):
    """form of RegretParams::cum_regret (shared with C09.O6)"""
    lib = ctx.lib
    f = ctx.fn('lib', 'solve::data::RegretParams::cum_regret', rule)
    if f is None:
        return
    r = q.ret_expr(f)
    p = e4.try_poly(r)
    ok = False
    detail = 'form: %s' % e4.show_poly(p)
    why = []
    if p is not None and len(p) == 1:
        (mono, coef), = p.items()
        pos = [a for a in mono if a[0] == 'PosPart']
        inv = [a for a in mono if a[0] == 'inv']
        rest = [a for a in mono if a[0] not in ('PosPart', 'inv')]
        if coef != 2.0:
            why.append('coefficient is %g, not 2' % coef)
        if len(pos) != 1:
            why.append('%d positive-part factors' % len(pos))
        if len(inv) != 1:
            why.append('%d divisions' % len(inv))
        if rest:
            why.append('extra factors %s' % [e4.show_atom(a) for a in rest])
        if len(pos) == 1:
            inner = dict(pos[0][1])
            red = None
            if len(inner) == 1 and list(inner.values()) == [1.0] and len(list(inner)[0]) == 1 and list(inner)[0][0][0] == 'val':
                red = list(inner)[0][0][1]
            x = red
            if x is not None and q.is_call(x, 'unwrap_or'):
                x = strip_refs(x[2][0])
            elif x is not None and x[0] == 'var':
                # `match reduced { Some(m) => m, None => 0.0 }`: same value
                vals = q.multi_def_values(f, x[1])
                some = [strip_refs(v) for _, cs, v in vals if strip_refs(v)[0] == 'field' and strip_refs(strip_refs(v)[1])[0] == 'downcast' and strip_refs(strip_refs(v)[1])[2] == 'Some']
                none = [v for _, cs, v in vals if facts.is_const(strip_refs(v), 0)]
                if len(vals) == 2 and len(some) == 1 and len(none) == 1:
                    x = strip_refs(strip_refs(some[0][1])[1])
            good_red = x is not None and q.is_call(x, 'reduce') and len(x[2]) == 2 and x[2][1][0] == 'fn' and short(x[2][1][1]) == 'max' and 'f64' in x[2][1][1]
            loop_src = None
            if not good_red and x is not None and x[0] == 'var':
                # the reduction written as a running-maximum loop: `let mut m = *it.next()?; for r in it { m = f64::max(m, r) }`
                vals = [strip_refs(v) for _, _, v in q.multi_def_values(f, x[1])]
                me = ('var', x[1], f.local_name(x[1]))
                upd = [v for v in vals if v[0] == 'call' and short(v[1]) == 'max' and 'f64' in v[1] and len(v[2]) == 2 and any(strip_refs(a) == me for a in v[2])]
                init = [v for v in vals if v not in upd]
                def next_of(e_):
                    n_ = q.find_sub(e_, lambda s_: s_[0] == 'call' and short(s_[1]) == 'next')
                    return norm(strip_refs(n_[2][0])) if n_ is not None and n_[2] else None
                if len(upd) == 1 and len(init) == 1:
                    other = [a for a in upd[0][2] if strip_refs(a) != me]
                    i0, i1 = next_of(init[0]), next_of(other[0]) if other else None
                    # both the first element and the loop items come from the same iterator (the loop's into_iter of it)
                    def base(e_):
                        while e_ is not None and e_[0] == 'call' and short(e_[1]) in ('into_iter', 'by_ref') and e_[2]:
                            e_ = norm(strip_refs(e_[2][0]))
                        return e_
                    if i0 is not None and i1 is not None and base(i0) == base(i1):
                        good_red = True
                        loop_src = base(i0)
            if not good_red and x is not None and x[0] == 'var' and not any(short(pp) == 'reduce' for _, _, pp in f.calls()):
                ctx.anchor_lost(rule, 'cum_regret: maximum over the cumulative regrets', 'the value under the positive part is a local the rule cannot trace: %s' % facts.show(x)[:40])
                return
            if not good_red:
                why.append('the positive part is not taken of an f64::max reduction')
            else:
                src = strip_refs(x[2][0]) if loop_src is None else loop_src
                whole = q.find_sub(src, lambda s: s[0] == 'param' and s[1] == 3) is not None and \
                    not any(q.is_call(s, nm) for s in facts.walk(src) for nm in ('skip', 'take', 'filter', 'step_by', 'skip_while', 'take_while'))
                ident = True
                if q.is_call(src, 'map'):
                    cf, _ = q.closure_of(lib, src[2][1])
                    rr = strip_refs(q.ret_expr(cf)) if cf is not None else None
                    ip = q.item_param(cf) if cf is not None else 2
                    ident = rr is not None and rr[0] == 'param' and rr[1] == ip
                    ctx.touch(cf)
                if not whole:
                    why.append('the reduction does not range over the whole cumulative-regret parameter')
                if not ident:
                    why.append('the mapped closure is not the identity')
        if len(inv) == 1:
            d = dict(inv[0][1])
            it_ok = len(d) == 1 and list(d.values()) == [1.0] and list(d)[0] == (('cast', ('param', 2, f.local_name(2))),)
            if not it_ok:
                why.append('the divisor is not `it as f64`')
        ok = not why
    else:
        why.append('not a single product')
    ctx.verdict(ok, rule, '%s:cum_regret-form' % rule,
                'the per-infoset bound is exactly 2 * max(max-reduce(cumulative regrets), 0) / it — factor 2, positive part, whole slice, divided by the iteration index (hence >= 0 or NaN)',
                f.where(0), detail + ('; ' + '; '.join(why) if why else ''), breaks='the reported bound is halved, can be negative, or is mis-scaled by the iteration count: it no longer dominates the regret')


def per_player_sums(ctx, rule):
    """in all solver loops: bound[p] = sum over the whole slice of player p of advance(it, params), it = induction variable"""
    lib = ctx.lib
    ls = loops.find(lib)
    if len(ls) < loops.FLOOR:
        ctx.anchor_lost(rule, 'solver loops', 'found %d' % len(ls))
    units = [(L.fn, L.body, L) for L in ls]
    sp = ctx.fn('lib', 'solve::external::single_player_iter', rule)
    for f, blocks, L in units + ([(sp, set(sp.reach), None)] if sp is not None else []):
        ctx.touch(f)
        n = 0
        for bi, t, p in f.calls():
            if bi not in blocks or short(p) != 'sum':
                continue
            e = f.call_expr(t, bi)
            mp = q.find_sub(e, lambda x: q.is_call(x, 'map'))
            if mp is None or len(mp[2]) < 2:
                continue
            cf, agg = q.closure_of(lib, mp[2][1])
            if cf is None:
                continue
            adv = [(bj, tt, cf.call_expr(tt, bj)) for bj, tt, pp in cf.calls() if short(pp) == 'advance']
            if not adv:
                continue
            n += 1
            ctx.touch(cf)
            src = strip_refs(mp[2][0])
            chain = []
            x = strip_refs(e[2][0])
            while x[0] == 'call' and x[2] and x != src:
                chain.append(short(x[1]))
                x = strip_refs(x[2][0])
            whole = src[0] == 'call' and short(src[1]) in ('iter_mut', 'par_iter_mut') and chain == ['map']
            # iteration index argument: the closure's captured `it` resolved in the parent
            ae = adv[0][2]
            it_arg = strip_refs(q.subst_upvars(lib, cf, ae[2][1]))
            if L is not None:
                it_ok = it_arg == L.it[1] or it_arg == ('var', L.it[0], f.local_name(L.it[0])) or norm(it_arg) == norm(L.it[1])
            else:
                it_ok = it_arg[0] == 'param' and f.locals[it_arg[1]]['ty'] == 'u64'
            par_arg = strip_refs(q.subst_upvars(lib, cf, ae[2][2]))
            par_ok = par_arg[0] in ('param', 'upvar')
            if os.environ.get('CFR_DEBUG_C02'):
                print('DEBUG par_arg', par_arg, [strip_refs(v_) for _, _, v_ in q.multi_def_values(f, par_arg[1])] if par_arg[0] == 'var' else '')
            if not par_ok and par_arg[0] == 'var':
                # a local copy of the parameter (`let params = self.params;` with the solver state split into locals)
                vs_ = [strip_refs(v_) for _, _, v_ in q.multi_def_values(f, par_arg[1])]
                par_ok = bool(vs_) and all(v_[0] in ('param', 'upvar') or (v_[0] == 'field' and strip_refs(v_[1])[0] in ('param', 'upvar', 'deref')) for v_ in vs_)
            if not par_ok and par_arg[0] == 'field' and strip_refs(par_arg[1])[0] in ('param', 'var', 'deref'):
                # the parameters kept in a context struct the solver was given / built from its own parameter
                base_ = strip_refs(par_arg[1])
                while base_[0] == 'deref':
                    base_ = strip_refs(base_[1])
                par_ok = base_[0] == 'param' or (base_[0] == 'var' and (lambda v0: v0 is not None and strip_refs(v0)[0] in ('param', 'upvar'))(q.record_field_init(f, base_[1], par_arg[2])))
            if not par_ok and par_arg[0] == 'field' and f.is_closure and q.find_sub(par_arg, lambda x_: x_[0] == 'upvar') is not None:
                # ... a context struct captured by the closure that runs the loop (`pool.scope(|_| solver.run(..))`): the
                # field as the enclosing function built it
                pe_ = strip_refs(q.resolve_captures(lib, f, par_arg))
                top_ = lib.fns.get(q.top(f.name))
                b_ = pe_
                while b_[0] in ('field', 'deref', 'ref'):
                    if b_[0] == 'field' and strip_refs(b_[1])[0] == 'var' and top_ is not None:
                        v0_ = q.record_field_init(top_, strip_refs(b_[1])[1], b_[2])
                        par_ok = v0_ is not None and strip_refs(v0_)[0] in ('param', 'upvar')
                        break
                    b_ = strip_refs(b_[1])
            ctx.verdict(whole and it_ok and par_ok, rule, '%s:%s#%d' % (rule, q.top(f.name), n),
                        'a per-player bound is the sum over the *entire* infoset slice of advance(it, params) with the loop\'s own iteration index',
                        f.where(bi), 'whole slice: %s; it argument %s is the induction variable: %s; params passed through: %s' % (whole, facts.show(it_arg)[:30], it_ok, par_ok),
                        breaks='some infosets do not contribute to the bound, or the bound is scaled by the wrong iteration count')
        want = {'solve_generic_single': 1, 'solve_generic_multi': 1, 'solve_external_single': 2, 'single_player_iter': 1, 'solve_external_multi': 0}
        nm = q.top(f.name).split('::')[-1]
        if nm in want and n != want[nm]:
            ctx.anchor_lost(rule, '%s: per-player bound sums' % nm, 'found %d of %d' % (n, want[nm]))
    # external multi: reg_k = single_player_iter::<k>(.., it, ..) with the induction variable
    for L in ls:
        f = L.fn
        if 'solve_external_multi' not in f.name:
            continue
        for bi, t, e in q.calls_named(f, 'single_player_iter'):
            # the u64 argument (by type: the parameter list may have been reshaped)
            u64s = [k_ for k_, a_ in enumerate(t['args']) if (a_['pl']['ty'] if a_.get('o') in ('copy', 'move') else a_.get('c', {}).get('ty', '')) == 'u64']
            if len(u64s) != 1:
                ctx.anchor_lost(rule, 'solve_external_multi: the iteration index handed to single_player_iter', 'u64 arguments: %d' % len(u64s))
                continue
            it_arg = strip_refs(e[2][u64s[0]])
            ok = it_arg == L.it[1] or norm(it_arg) == norm(L.it[1])
            cargs = [a for a in t['callee'].get('args', []) if a in ('true', 'false')]
            ctx.verdict(ok, rule, '%s:%s:pass-%s' % (rule, q.top(f.name), cargs[0] if cargs else '?'), 'each pass is given the loop\'s own iteration index', f.where(bi), 'it argument %s' % facts.show(it_arg)[:40])


def run(ctx):
    lib = ctx.lib
    bound_form(ctx, 'C02.bound-form')
    per_player_sums(ctx, 'C02.per-player-sum')
    # regret_bound = max of the two; player_regret_bound selects by ind
    rule = 'C02.total-is-max'
    f = ctx.fn('lib', 'RegretBound::regret_bound', rule)
    if f is not None:
        r = strip_refs(q.ret_expr(f))
        ok = q.is_call(r, 'max') and 'f64' in r[1] and {tuple(sorted(q.tags(a))) for a in r[2]} == {(0,), (1,)} and all('regrets' in facts.show(a) for a in r[2])
        if not ok and q.is_call(r, 'max') and 'f64' in r[1]:
            # the same two values read through the per-player accessor
            sel = set()
            for a in r[2]:
                x = strip_refs(a)
                if x[0] == 'call' and short(x[1]) == 'player_regret_bound' and len(x[2]) == 2:
                    pn = strip_refs(x[2][1])
                    if pn[0] == 'agg' and 'PlayerNum::' in pn[1]:
                        sel.add(pn[1].split('PlayerNum::')[-1].rstrip('{}').split('::')[-1])
            ok = {s_.split('{')[0] for s_ in sel} == {'One', 'Two'}
        ctx.verdict(ok, rule, rule + ':RegretBound::regret_bound', 'the total bound is f64::max of the two per-player bounds', f.where(0), 'returns %s' % facts.show(r)[:80], breaks='the total bound is below one player\'s bound')
    f = ctx.fn('lib', 'RegretBound::player_regret_bound', rule)
    if f is not None:
        r = strip_refs(q.ret_expr(f))
        ok = q.is_call(r, 'ind') and strip_refs(r[2][0])[0] == 'param' and 'regrets' in facts.show(r[2][1])
        ctx.verdict(ok, rule, rule + ':RegretBound::player_regret_bound', 'a player\'s bound is selected from the pair by that player\'s number', f.where(0), 'returns %s' % facts.show(r)[:80])
    # Game::solve puts the solver's bounds into RegretBound unchanged
    f = ctx.fn('lib', 'Game::<I, A>::solve', rule)
    if f is not None:
        nb = [(bi, t, e) for bi, t, e in q.calls_named(f, 'new') if 'RegretBound' in e[1]]
        if not nb:
            ctx.anchor_lost(rule, 'Game::solve: RegretBound::new')
        for bi, t, e in nb:
            a = strip_refs(e[2][0])
            # the [f64; 2] component of the value returned by a solve_* call, however that value travels to this
            # point (tuple / named struct, through `?`, Ok(..) wrappers, map_err, temporaries, inlined helpers):
            # the solver's result has exactly one [f64; 2] component, so origin + type identify the bounds
            WRAP = {'branch', 'map_err', 'unwrap', 'expect', 'into', 'from', 'map', 'from_output', 'unwrap_unchecked'}

            def from_solver(v, depth=0, only=None):
                """`only`: the value is read as one of these variants, so definitions building another variant
                (an Err(..), a from_residual(..)) cannot be its origin"""
                v = strip_refs(v)
                if depth > 10:
                    return False
                if v[0] == 'call' and short(v[1]).startswith('solve_'):
                    return True
                if v[0] == 'var':
                    vals = [x for _, _, x in q.multi_def_values(f, v[1])]
                    if only:
                        vals = [x for x in vals if not (strip_refs(x)[0] == 'agg' and strip_refs(x)[1].startswith('adt:') and strip_refs(x)[1].rsplit('::', 1)[-1] not in only)
                                and not (strip_refs(x)[0] == 'call' and short(strip_refs(x)[1]) == 'from_residual')]
                    return bool(vals) and all(from_solver(x, depth + 1, only) for x in vals)
                if v[0] == 'downcast':
                    inner = strip_refs(v[1])
                    if inner[0] == 'call' and short(inner[1]) == 'branch' and inner[2]:
                        return from_solver(inner[2][0], depth + 1, {'Ok', 'Some'} if v[2] == 'Continue' else {'Err', 'None'})
                    return from_solver(v[1], depth + 1, {v[2]})
                if v[0] in ('field', 'cidx'):
                    return from_solver(v[1], depth + 1, only)
                if v[0] == 'call' and short(v[1]) == 'map' and 'array' in v[1]:
                    return False        # `[r1, r2].map(|r| ..)`: the bounds are recomputed element by element, not passed on
                if v[0] == 'call' and short(v[1]) in WRAP and v[2]:
                    return from_solver(v[2][0], depth + 1)
                if v[0] == 'agg' and v[2] and (v[1] == 'tuple' or v[1].startswith('adt:')):
                    return any(from_solver(x, depth + 1) for x in v[2]) and all(from_solver(x, depth + 1) or strip_refs(x)[0] in ('const', 'param') for x in v[2])
                return False
            f64pair = f.locals[t['args'][0]['pl']['l']]['ty'] == '[f64; 2]' if t['args'][0].get('o') in ('copy', 'move') else False
            ok = f64pair and from_solver(a)
            if f64pair and not ok and a[0] == 'agg' and a[1] == 'array' and len(a[2]) == 2:
                # the pair rebuilt from a two-field record of the solver's result, in field order
                comps = [strip_refs(x) for x in a[2]]
                ok = all(c[0] == 'field' and from_solver(c[1]) for c in comps) and [c[2] for c in comps] == ['0', '1'] and facts.show(comps[0][1]) == facts.show(comps[1][1])
            ctx.verdict(ok, rule, rule + ':solve-wraps-solver-bounds', 'Game::solve wraps the pair of bounds returned by the solver unchanged', f.where(bi), 'argument %s' % facts.show(a)[:60])
    # initial value INFINITY
    rule = 'C02.initial-infinite'
    n = 0
    for g in lib.non_test_fns():
        if g.is_closure or not g.name.startswith(('solve::vanilla::solve_generic', 'solve::external::solve_external')):
            continue
        inf = False
        other = False
        for g_ in [g] + lib.closures_of(g):
            for bi, si, st in g_.assigns():
                e = g_.rvalue_expr(st['rv'], bi)
                if e[0] == 'repeat' and is_const(e[1], float('inf')) and e[2] == '2':
                    inf = True
                elif (e[0] == 'repeat' and e[2] == '2' and e[1][0] == 'const' and 'f64' in str(e[1][2]) and not is_const(e[1], 1)) or \
                        (e[0] == 'agg' and e[1] in ('array', 'tuple') and len(e[2]) == 2 and all(x[0] == 'const' and 'f64' in str(x[2]) for x in e[2]) and not all(is_const(x, float('inf')) for x in e[2])):
                    other = True       # a pair of bounds initialised with something else
                if e[0] == 'agg' and e[1] in ('array', 'tuple') and len(e[2]) == 2 and all(is_const(x, float('inf')) for x in e[2]):
                    inf = True      # also a pair given field names (`Regrets { one: INFINITY, two: INFINITY }`)
        n += 1
        ctx.touch(g)
        if not inf and not other:
            ctx.anchor_lost(rule, '%s: the initial value of the pair of bounds' % g.name, 'no literal pair of f64 constants in the function (a named constant / constructor)')
            continue
        ctx.verdict(inf, rule, '%s:%s' % (rule, g.name), 'both bounds start as f64::INFINITY (infinite exactly when no iteration ran, given C09.O3)', g.where(0), 'initialised with [INFINITY; 2]: %s' % inf)
    if n < 4:
        ctx.anchor_lost(rule, 'solver entry functions', 'found %d of 4' % n)
