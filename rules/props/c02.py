def bound_form(ctx, rule):
    pass
def run(ctx):
    pass
