"""C08 — solvers compute the documented discounted-CFR iterates."""
import re

import e4
import facts
import q
import props.c02 as c02
from facts import norm, short, strip_refs, is_const

EXPLANATION = """
Trajectory equality with a reference is numerical and not decided. Decided is the part of the
specification that is a composition order, a parameter wiring, a sign, a reach factor or a constant
(MIR of the current tree; E8 sibling cross-check, E5 branch tables, E6 table agreement, E4
signed-monomial forms specialised per PlayerNum / const-generic context): (A) the three advance
implementations (RegretInfoset, MutexRegretInfoset, CachedInfoset) each call, once, on every path,
in this order: regret_match(cum_regret, strat) -> discount_cum_regret(it, cum_regret) ->
discount_average_strat(it', cum_strat) -> cum_regret(it, cum_regret) whose result is returned, with
the right field for every argument, it passed unchanged and it' = it except it - 1 under FIRST in
external sampling; (B) the it passed to advance is the loop's induction variable (shared with C02);
(C) the five presets equal the documented tuples, Default is dcfr, Game::solve applies
unwrap_or_default; (D) branch tables of gen_discount (-inf -> 0, 0 -> 1/2, +inf -> 1), of the
regret_match fallback (+inf -> max_by, 0 -> uniform, -inf -> min_by, else softmax; main branch
proportional to positive regret) and of discount_average_strat (+inf -> zero, > 0 -> scale, else
untouched); (E) discount_cum_regret multiplies entries > 0 by the factor from pos_regret and entries
< 0 by the one from neg_regret, discount_average_strat uses strat, the softmax uses no_positive;
(F) the regret update of recurse_player: multiplier +p_chance * p_player[1] for player one and
-p_chance * p_player[0] for player two (chance and *opponent* reach, sign flipped), per-action
accumulation of child value * multiplier, subtraction of sum(prob * that) from every entry, child's
own reach = parent own reach * action probability, chance passes p_chance * prob down and sums
prob * payoff, update_cum_strat receives the own reach and adds reach * strat, both Add::add impls
accumulate with sign +, recurse_single and recurse_multi agree; (G) external sampling: terminal value
+payoff under FIRST and -payoff otherwise, `+= util` then `-= expected` on every entry, next_update
calls update_cum_strat exactly once before drawing, the average update adds the current strategy
with coefficient 1. Not decided: the general discount branch, the (t/(t+1))^gamma ratio and the
softmax as numbers.
"""
ASSUMPTIONS = ['the documented tuples of lcfr / cfr_plus / vanilla are the DCFR paper\'s (alpha, beta, gamma) definitions their doc comments paraphrase (frozen table, one reason each)']
NOT_DECIDED = ['numeric trajectory equality', 'general branch of gen_discount, powf ratio and softmax as numbers']

INF = float('inf')
# (pos_regret, neg_regret, strat, no_positive) — frozen from the documentation, with the reason
PRESETS = {
    'vanilla': ((INF, INF, 0.0, 0.0), 'doc: "no discounting and picks the uniform strategy for negative regret infosets" (alpha = beta = inf: factor 1; gamma = 0: weight 1; uniform = weight 0)'),
    'lcfr': ((1.0, 1.0, 1.0, INF), 'doc: "regret and strategies are weighted proportional to the iteration number" (alpha = beta = gamma = 1)'),
    'cfr_plus': ((INF, -INF, 2.0, INF), 'doc: "negative regrets are forgotten and strategies are weighted proportional to the square of the iteration number" (beta = -inf: factor 0; gamma = 2)'),
    'dcfr': ((1.5, 0.0, 2.0, INF), 'doc: "(alpha: 1.5, beta: 0, gamma: 2)"'),
    'dcfr_prune': ((1.5, 0.5, 2.0, INF), 'doc: "(alpha: 1.5, beta: 0.5, gamma: 2)"'),
}

ADVANCES = ['<solve::data::RegretInfoset as solve::vanilla::PlayerRecurse>::advance',
            '<solve::vanilla::MutexRegretInfoset as solve::vanilla::MutexPlayerRecurse>::advance',
            '<solve::external::CachedInfoset as solve::external::ActiveInfo>::advance']
ORDER = ['regret_match', 'discount_cum_regret', 'discount_average_strat', 'cum_regret']


def field_names(e):
    return [s[2] for s in facts.walk(e) if s[0] == 'field' and not s[2].isdigit() and s[2] != 'pointer']


def rule_advance(ctx):
    rule = 'C08.advance-order'
    skeletons = {}
    for suf in ADVANCES:
        f = ctx.fn('lib', suf, rule)
        if f is None:
            continue
        nm = suf.split(' as ')[0].split('::')[-1]
        calls = [(bi, t, f.call_expr(t, bi)) for bi, t, p in f.calls() if short(p) in ORDER and 'RegretParams' in p]
        names = [short(e[1]) for _, _, e in calls]
        rets = [bi for bi in f.reach if f.blocks[bi]['term']['t'] == 'return']
        # each helper exactly once on every path; the three that touch the cumulative regrets in the order
        # match -> discount -> report.  discount_average_strat works on the cumulative strategy only
        # (argument provenance below), so its position relative to the others is immaterial.
        once = sorted(names) == sorted(ORDER)
        by = {short(e[1]): bi for bi, _, e in calls}
        chain = once and all(all(f.dominates(by[n], r) for r in rets) for n in ORDER) and \
            f.dominates(by['regret_match'], by['discount_cum_regret']) and by['regret_match'] != by['discount_cum_regret'] and \
            f.dominates(by['discount_cum_regret'], by['cum_regret']) and by['discount_cum_regret'] != by['cum_regret']
        ctx.verdict(once and chain, rule, '%s:%s:sequence' % (rule, nm), 'advance calls regret_match, discount_cum_regret, discount_average_strat, cum_regret — each once on every path, with match before the regret discount before the report', f.where(0),
                    'calls in dominance order: %s' % names, breaks='the next strategy is matched on already-discounted regrets (or similar): iterates differ from discounted CFR')
        skeletons.setdefault(nm, None)
        if not once:
            continue
        cd = {short(c[2][1]): c[2] for c in calls}
        rm, dr, da, cr = [cd[n] for n in ORDER]
        it = ('param', 2, f.local_name(2))
        # by what each argument is (an extra accessor / closure argument may sit between them), in the documented order
        def firsts(c_):
            return [(field_names(a_)[:1] or [None])[0] for a_ in c_[2][1:]]

        def has_it(c_):
            return any(strip_refs(a_) == it for a_ in c_[2][1:])
        frm = [x for x in firsts(rm) if x in ('cum_regret', 'strat', 'cum_strat')]
        checks = [
            ('regret_match(cum_regret, strat)', frm == ['cum_regret', 'strat']),
            ('discount_cum_regret(it, cum_regret)', has_it(dr) and [x for x in firsts(dr) if x in ('cum_regret', 'strat', 'cum_strat')] == ['cum_regret']),
            ('discount_average_strat(.., cum_strat)', [x for x in firsts(da) if x in ('cum_regret', 'strat', 'cum_strat')] == ['cum_strat']),
            ('cum_regret(it, cum_regret)', has_it(cr) and [x for x in firsts(cr) if x in ('cum_regret', 'strat', 'cum_strat')] == ['cum_regret']),
        ]
        for what, ok in checks:
            ctx.verdict(ok, rule, '%s:%s:%s' % (rule, nm, what.split('(')[0]), 'argument provenance: %s with it the unchanged parameter' % what, f.where(0), 'ok: %s' % ok,
                        breaks='a discount is applied to the wrong vector or with another iteration index')
        # returned value is cum_regret's result
        r = strip_refs(q.ret_expr(f))
        ctx.verdict(r[0] == 'call' and r[3] == cr[3], rule, '%s:%s:returns-bound' % (rule, nm), 'advance returns the result of cum_regret', f.where(0), 'returns %s' % facts.show(r)[:40])
        # iteration index of the average discount
        a = strip_refs(da[2][1])
        if a == it:
            sk = 'it'
        elif a[0] == 'var':
            vals = q.multi_def_values(f, a[1])
            d = {}
            for bi, cs, v in vals:
                first = [c for c in cs if c['kind'] == 'bool' and c['a'] == ('cparam', 'FIRST')]
                v = strip_refs(v)
                key = first[-1]['truth'] if first else None
                d[key] = 'it-1' if (v[0] == 'bin' and v[1] == 'Sub' and strip_refs(v[2]) == it and is_const(v[3], 1)) else 'it' if v == it else '?'
            sk = 'FIRST:%s,else:%s' % (d.get(True), d.get(False))
        elif a[0] == 'bin' and a[1] == 'Sub' and strip_refs(a[2]) == it and q.is_call(strip_refs(a[3]), 'from') and strip_refs(strip_refs(a[3])[2][0]) == ('cparam', 'FIRST') \
                and 'bool' in strip_refs(a[3])[1] + str(f.blocks[strip_refs(a[3])[3][1]]['term']['callee'].get('args')):
            sk = 'FIRST:it-1,else:it'       # it - u64::from(FIRST): true is 1, false is 0
        else:
            sk = '?'
        skeletons[nm] = sk
        want = 'FIRST:it-1,else:it' if nm == 'CachedInfoset' else 'it'
        ctx.verdict(sk == want, rule, '%s:%s:average-discount-index' % (rule, nm),
                    'the average strategy is discounted with it (vanilla / chance sampling) or it - 1 for the first player in external sampling (documented off-by-one: player one has nothing accumulated in its first pass)',
                    f.where(0), 'index: %s' % sk, breaks='iteration t contributes with weight (t±1)^gamma instead of t^gamma')
    if len(skeletons) < 3:
        ctx.anchor_lost(rule, 'advance implementations', 'found %d of 3' % len(skeletons))


def preset_value(ctx, lib, name, depth=0):
    """(pos_regret, neg_regret, strat, no_positive) a preset constructor returns, evaluated from its MIR:
    struct literal, RegretParams::new(..), another preset, or struct-update syntax over another preset"""
    f = lib.one('solve::data::RegretParams::' + name)
    if f is None or depth > 4:
        return None
    ctx.touch(f)
    KEYS = ('pos_regret', 'neg_regret', 'strat', 'no_positive')

    def scalar(e):
        e = strip_refs(e)
        if e[0] == 'const' and e[1] is not None:
            try:
                return float(e[1])
            except (TypeError, ValueError):
                return None
        if e[0] == 'field' and e[2] in KEYS:
            inner = strip_refs(e[1])
            if inner[0] == 'call' and 'RegretParams' in inner[1] and not inner[2]:
                v = preset_value(ctx, lib, short(inner[1]), depth + 1)
                return v[KEYS.index(e[2])] if v else None
        return None
    r = strip_refs(q.ret_expr(f))
    if r[0] == 'call' and 'RegretParams' in r[1] and short(r[1]) == 'new' and len(r[2]) == 4:
        vals = tuple(scalar(a) for a in r[2])
        return vals if None not in vals else None
    if r[0] == 'call' and 'RegretParams' in r[1] and not r[2]:
        return preset_value(ctx, lib, short(r[1]), depth + 1)
    for bi, st, fields in q.struct_sites(f, 'RegretParams'):
        vals = tuple(scalar(fields[k]) if k in fields else None for k in KEYS)
        if None not in vals:
            return vals
    for bi, t, e in q.calls_named(f, 'new'):
        if 'RegretParams' in e[1] and len(e[2]) == 4:
            vals = tuple(scalar(a) for a in e[2])
            if None not in vals:
                return vals
    return None


def defaulted_params(f, e):
    """is e `params.unwrap_or_default()` (or an equivalent spelling) of the Option<RegretParams> parameter?"""
    e = strip_refs(e)

    def is_param(x):
        x = strip_refs(x)
        return x[0] == 'param' and 'RegretParams' in f.locals[x[1]]['ty'] and 'Option' in f.locals[x[1]]['ty']

    def is_default_call(x):
        x = strip_refs(x)
        return (x[0] == 'call' and not x[2] and ('RegretParams' in x[1] or 'Default' in x[1]) and short(x[1]) in ('default', 'dcfr')) or \
               (x[0] == 'fn' and short(x[1]) in ('default', 'dcfr') and ('RegretParams' in x[1] or 'Default' in x[1]))
    if e[0] == 'call' and short(e[1]) == 'unwrap_or_default' and is_param(e[2][0]):
        return True
    if e[0] == 'call' and short(e[1]) in ('unwrap_or', 'unwrap_or_else') and is_param(e[2][0]) and is_default_call(e[2][1]):
        return True
    if e[0] == 'var':
        vals = q.multi_def_values(f, e[1])
        some = none = False
        for bi, cs, v in vals:
            v = strip_refs(v)
            if v[0] == 'field' and strip_refs(v[1])[0] == 'downcast' and strip_refs(v[1])[2] == 'Some' and is_param(strip_refs(v[1])[1]):
                some = True
            elif is_default_call(v) and any(c['kind'] == 'variant' and c['variants'] == ['None'] and is_param(c['a']) for c in cs):
                none = True
            else:
                return False
        return some and none
    return False


def rule_presets(ctx):
    rule = 'C08.presets'
    lib = ctx.lib
    for name, (want, reason) in PRESETS.items():
        f = ctx.fn('lib', 'solve::data::RegretParams::' + name, rule)
        if f is None:
            continue
        vals = preset_value(ctx, lib, name)
        ctx.verdict(vals == want, rule, '%s:%s' % (rule, name), 'RegretParams::%s() is the documented tuple (alpha, beta, gamma, no-positive weight) = %s' % (name, want), f.where(0),
                    'constants: %s; documented because %s' % (vals, reason), breaks='a named preset denotes other parameters than documented')
        # doc comment agreement where the doc prints the numbers
        doc = f.j.get('doc', '')
        m = re.search(r'α:\s*([\d.]+),\s*β:\s*([\d.]+),\s*γ:\s*([\d.]+)', doc.replace('\n', ' '))
        if m and vals:
            docv = tuple(float(x) for x in m.groups())
            ctx.verdict(docv == vals[:3], rule, '%s:%s:doc-comment' % (rule, name), 'the constants equal the (alpha, beta, gamma) printed in the function\'s own doc comment', f.where(0), 'doc %s vs code %s' % (docv, vals[:3]))
    f = ctx.fn('lib', '<solve::data::RegretParams as std::default::Default>::default', rule)
    if f is not None:
        r = strip_refs(q.ret_expr(f))
        same = q.is_call(r, 'dcfr') and 'RegretParams' in r[1]
        if not same:
            # spelled out: must be the dcfr tuple
            vals = None
            for bi, st, fields in q.struct_sites(f, 'RegretParams'):
                try:
                    vals = tuple(float(fields[k][1]) for k in ('pos_regret', 'neg_regret', 'strat', 'no_positive'))
                except (KeyError, TypeError, ValueError):
                    vals = None
            same = vals == PRESETS['dcfr'][0]
        ctx.verdict(same, rule, rule + ':default-is-dcfr', 'Default::default() is the documented default preset dcfr', f.where(0), 'returns %s' % facts.show(r))
    f = ctx.fn('lib', 'Game::<I, A>::solve', rule)
    if f is not None:
        # the value every solver gets must be `params` with None replaced by RegretParams::default()
        bad = []
        n = 0
        for bi, t, p in f.calls():
            if short(p).startswith('solve_'):
                n += 1
                e = f.call_expr(t, bi)
                if not defaulted_params(f, e[2][-1]):
                    bad.append(short(p))
        # ... and the two players' infoset tables in their own order
        swapped = []
        n_t = 0
        for bi, t, p in f.calls():
            if short(p).startswith('solve_'):
                e = f.call_expr(t, bi)
                arrs = [strip_refs(a) for a in e[2] if strip_refs(a)[0] == 'agg' and strip_refs(a)[1] == 'array' and len(strip_refs(a)[2]) == 2 and 'player_infosets' in facts.show(a)]
                for a in arrs:
                    n_t += 1
                    tg = [q.tags(x) for x in a[2]]
                    if tg != [{0}, {1}]:
                        swapped.append('%s: positions %s' % (short(p), [sorted(x) for x in tg]))
        if n_t:
            ctx.verdict(not swapped, rule, rule + ':player-tables-in-order', 'every solver gets [player one\'s infosets, player two\'s infosets] in that order', f.where(0),
                        '%d table arguments; out of order: %s' % (n_t, swapped), breaks='one solver variant updates player one with player two\'s table: wrong / malformed strategies for games whose tables differ in shape')
        ctx.verdict(not bad and n == 6, rule, rule + ':none-means-default', 'omitted parameters mean RegretParams::default(): every solver receives `params` with None replaced by the default', f.where(0),
                    '%d solver calls; not receiving params-or-default: %s' % (n, bad), breaks='omitting the parameters selects something else than the documented default')


def eq_table(f, value_pred):
    """branch table on equality tests of one value: list of (block, [(const, truth)...])"""
    out = {}
    for bi in sorted(f.reach):
        key = []
        for c in f.conds(bi):
            if c['kind'] == 'Eq' and value_pred(c['a']) and c['b'][0] == 'const':
                key.append((float(c['b'][1]), c['truth']))
            elif c['kind'] in ('Gt', 'Lt', 'Ge', 'Le') and value_pred(c['a']) and c['b'][0] == 'const':
                key.append((c['kind'] + str(float(c['b'][1])), c['truth']))
        out[bi] = tuple(key)
    return out


def arm_of(key):
    """which constant the path selected: the const whose test is True, or 'else' if all False"""
    t = [k for k, tr in key if tr]
    return t[-1] if t else ('else' if key else None)


def rule_branch_tables(ctx):
    lib = ctx.lib
    # ---- gen_discount
    rule = 'C08.table-gen_discount'
    f = ctx.fn('lib', 'solve::data::RegretParams::gen_discount', rule)
    if f is not None:
        disc = ('param', 2, f.local_name(2))
        tab = eq_table(f, lambda a: a == disc)
        got = {}
        for bi, cs, v in q.multi_def_values(f, 0):
            arm = arm_of(tab.get(bi, ()))
            got[arm] = float(v[1]) if v[0] == 'const' and v[1] is not None else 'computed'
        want = {-INF: 0.0, 0.0: 0.5, INF: 1.0, 'else': 'computed'}
        ctx.verdict(got == want, rule, rule, 'discount factor for exponent -inf is 0, for 0 is 1/2, for +inf is 1, otherwise t^a/(t^a+1) computed in log space', f.where(0), 'table: %s' % got,
                    breaks='t^a/(t^a+1) at the documented special exponents is wrong')
        # the general branch has the form exp(a*ln(t) - ln_add_exp(a*ln(t), 0))
        gen = [v for bi, cs, v in q.multi_def_values(f, 0) if arm_of(tab.get(bi, ())) == 'else']
        ok = False
        if gen:
            g = strip_refs(gen[0])
            if q.is_call(g, 'exp'):
                x = strip_refs(g[2][0])
                if x[0] == 'bin' and x[1] == 'Sub':
                    numer, denom = strip_refs(x[2]), strip_refs(x[3])
                    n_ok = numer[0] == 'bin' and numer[1] == 'Mul' and {facts.show(strip_refs(numer[2]))[:2], facts.show(strip_refs(numer[3]))[:2]} >= {'ln'} and q.find_sub(numer, lambda s: s == disc) is not None
                    d_ok = q.is_call(denom, 'ln_add_exp') and strip_refs(denom[2][0]) == numer and is_const(denom[2][1], 0)
                    ok = n_ok and d_ok
        ctx.verdict(ok, rule, rule + ':general-form', 'the general branch is exp(a*ln(t) - logaddexp(a*ln(t), 0)) = t^a/(t^a+1)', f.where(0), 'recognised: %s' % ok)
    # ---- discount_cum_regret: field <-> branch
    rule = 'C08.discount-regret-fields'
    f = ctx.fn('lib', 'solve::data::RegretParams::discount_cum_regret', rule)
    if f is not None:
        n = 0
        for bi, st, pl, rhs in q.stores(f):
            r = strip_refs(rhs)
            if not (r[0] == 'bin' and r[1] == 'Mul'):
                continue
            n += 1
            elem, fac = norm(r[2]), strip_refs(r[3])
            same = elem == norm(pl)
            side = [c for c in f.conds(bi) if c['kind'] in ('Gt', 'Lt') and c['truth'] is True and c['a'] == elem and is_const(c['b'], 0)]
            which = side[-1]['kind'] if side else '?'
            fld = field_names(fac)[:1] if q.is_call(fac, 'gen_discount') else []
            it_ok = q.is_call(fac, 'gen_discount') and strip_refs(fac[2][0]) == ('param', 2, f.local_name(2))
            want = {'Gt': ['pos_regret'], 'Lt': ['neg_regret']}.get(which)
            ctx.verdict(same and fld == want and it_ok, rule, '%s:%s' % (rule, which), 'entries > 0 are multiplied in place by gen_discount(it, pos_regret), entries < 0 by gen_discount(it, neg_regret)', f.where(bi),
                        'on %s 0: *= gen_discount(it, %s)' % (which, fld), breaks='alpha and beta are swapped or applied to the wrong sign')
        if n != 2:
            ctx.anchor_lost(rule, 'discount_cum_regret: two scaling stores', 'found %d' % n)
    # ---- discount_average_strat
    rule = 'C08.table-discount_average_strat'
    f = ctx.fn('lib', 'solve::data::RegretParams::discount_average_strat', rule)
    if f is not None:
        is_strat = lambda a: a[0] == 'field' and a[2] == 'strat' and norm(a[1]) == ('param', 1, f.local_name(1))
        tab = eq_table(f, is_strat)
        arms = {}
        for bi, st, pl, rhs in q.stores(f):
            key = tab.get(bi, ())
            r = strip_refs(rhs)
            if is_const(r, 0):
                arms['zero'] = key
            elif r[0] == 'bin' and r[1] == 'Mul' and norm(r[2]) == norm(pl):
                ratio = strip_refs(r[3])
                form = q.is_call(ratio, 'powf') and is_strat(norm(ratio[2][1]))
                base = strip_refs(ratio[2][0]) if form else None
                p = e4.try_poly(base) if base is not None else None
                t_atom = ('cast', ('param', 2, f.local_name(2)))
                good_base = p is not None and len(p) == 1 and list(p.values()) == [1.0] and sorted(a[0] for a in list(p)[0]) == ['cast', 'inv'] and \
                    [a for a in list(p)[0] if a[0] == 'inv'][0][1] == e4.canon({(t_atom,): 1.0, (): 1.0})
                arms['scale'] = (key, form and good_base)
        for bi, t, e in q.calls_named(f, 'fill'):
            if len(e[2]) == 2 and is_const(strip_refs(e[2][1]), 0) and q.find_sub(e[2][0], lambda x: x[0] == 'param' and x[1] == 3) is not None:
                arms['zero'] = tab.get(bi, ())     # avg_strat.fill(0.0)
        ok = arms.get('zero') == ((INF, True),) and arms.get('scale', (None, False))[0] == ((INF, False), ('Gt0.0', True)) and arms.get('scale', (None, False))[1]
        ctx.verdict(bool(ok), rule, rule, 'gamma = +inf zeroes the average, gamma > 0 multiplies it by (t/(t+1))^gamma, otherwise it is untouched', f.where(0), 'arms: %s' % arms,
                    breaks='iteration t does not contribute with weight t^gamma')
    # ---- regret_match
    rule = 'C08.table-regret_match'
    f = ctx.fn('lib', 'solve::data::RegretParams::regret_match', rule)
    if f is not None:
        # softmax fallback: every exponent is (regret - max regret) * weight — the shift is the *maximum* (the weights are
        # exp of something <= 0 for a positive weight; shifting by the minimum overflows to inf / NaN for spread regrets)
        shifts = []
        for g_ in [f] + lib.closures_of(f):
            for bi, t, e in q.calls_named(g_, 'exp'):
                a0 = strip_refs(q.resolve_captures(lib, g_, e[2][0])) if g_.is_closure else strip_refs(e[2][0])
                sub = q.find_sub(a0, lambda x: x[0] == 'bin' and x[1] == 'Sub')
                if sub is None:
                    continue
                m = strip_refs(sub[3])
                if q.is_call(m, 'unwrap') or q.is_call(m, 'expect'):
                    m = strip_refs(m[2][0])
                kind = None
                if m[0] == 'call' and short(m[1]) in ('reduce', 'fold') and m[2] and strip_refs(m[2][-1])[0] == 'fn':
                    kind = short(strip_refs(m[2][-1])[1])
                elif m[0] == 'call' and short(m[1]) in ('max_by', 'min_by', 'max', 'min'):
                    kind = short(m[1]).split('_')[0]
                elif m[0] == 'var' and q.running_max(g_, m[1]) is not None:
                    kind = 'max'
                shifts.append((g_.where(bi), kind))
        decided = [k for _, k in shifts if k is not None]
        if shifts and decided:
            ctx.verdict(all(k == 'max' for k in decided), rule, rule + ':softmax-shift-is-max', 'the softmax fallback exponentiates (regret - MAX regret) * weight', shifts[0][0],
                        'shift subtracted under exp: %s' % sorted(set(decided)), breaks='exp overflows for spread regrets: NaN / all-zero strategies')
        elif shifts:
            ctx.anchor_lost(rule, 'regret_match: the shift of the softmax fallback')
        is_np = lambda a: a[0] == 'field' and a[2] == 'no_positive'
        tab = eq_table(f, is_np)
        norm_guard = None
        arms = {}
        for bi, t, p in f.calls():
            s = short(p)
            cs = f.conds(bi)
            pos = [c for c in cs if c['kind'] == 'Gt' and is_const(c['b'], 0) and q.is_call(strip_refs(c['a']), 'sum')]
            if not pos or pos[-1]['truth'] is not False:
                continue
            arm = arm_of(tab.get(bi, ()))
            if s in ('max_by', 'min_by'):
                arms.setdefault(arm, set()).add(s)
            elif s == 'fill':
                e = f.call_expr(t, bi)
                v = strip_refs(e[2][1])
                arms.setdefault(arm, set()).add('fill:' + ('0' if is_const(v, 0) else 'uniform' if v[0] == 'bin' and v[1] == 'Div' and is_const(v[2], 1) else '?'))
            elif s == 'exp':
                arms.setdefault(arm, set()).add('exp')
        # one-hot stores
        for bi, st, pl, rhs in q.stores(f):
            if is_const(rhs, 1) and st['pl']['p'] and st['pl']['p'][-1]['k'] == 'index':
                arms.setdefault(arm_of(tab.get(bi, ())), set()).add('one-hot')
        want = {INF: {'max_by', 'fill:0', 'one-hot'}, 0.0: {'fill:uniform'}, -INF: {'min_by', 'fill:0', 'one-hot'}, 'else': {'exp'}}
        if arms != want:
            # the same table read off the *paths* of the function (feasible paths under constant propagation): robust to
            # arms that share a tail (`let pure = if inf { max } else if -inf { min } else { softmax; return }; fill; one-hot`)
            import absint
            it = absint.run(f, absint.ReturnPaths(), cap=20000, revisit=True)
            if not it.overflow and it.paths:
                parms = {}
                for pth in it.paths:
                    cs = absint.path_conds(f, pth)
                    pos = [c for c in cs if c['kind'] == 'Gt' and c.get('b') is not None and is_const(c['b'], 0) and q.is_call(strip_refs(c['a']), 'sum')]
                    if not pos or pos[-1]['truth'] is not False:
                        continue
                    key = []
                    for c in cs:
                        if c['kind'] == 'Eq' and is_np(c['a']) and c['b'][0] == 'const':
                            key.append((float(c['b'][1]), c['truth']))
                    arm = arm_of(tuple(key))
                    fx = set()
                    for bi in pth.trace:
                        t = f.blocks[bi]['term']
                        if t['t'] == 'call':
                            sp = short(t['callee'].get('path') or t['callee'].get('def') or '')
                            if sp in ('max_by', 'min_by', 'exp'):
                                fx.add(sp)
                            elif sp == 'fill':
                                v = strip_refs(f.call_expr(t, bi)[2][1])
                                fx.add('fill:' + ('0' if is_const(v, 0) else 'uniform' if v[0] == 'bin' and v[1] == 'Div' and is_const(v[2], 1) else '?'))
                        for st in f.blocks[bi]['stmts']:
                            if st['s'] == 'assign' and st['pl']['p'] and st['pl']['p'][-1]['k'] == 'index' and is_const(f.rvalue_expr(st['rv'], bi), 1):
                                fx.add('one-hot')
                    parms.setdefault(arm, []).append(frozenset(fx))
                if parms and all(len(set(v)) == 1 for v in parms.values()):
                    arms = {k: set(v[0]) for k, v in parms.items()}
                elif parms:
                    arms = {k: set().union(*v) for k, v in parms.items()}
                if arms != want:
                    # the weight tested by other predicates than equalities (`is_infinite()` then `> 0.0`): every path's
                    # tests on the weight are evaluated on representatives of the four documented classes
                    arms2 = _fallback_by_samples(f, it.paths, is_np)
                    if arms2 is not None:
                        arms = arms2
        ctx.verdict(arms == want, rule, rule + ':fallback', 'without positive regret: weight +inf plays the arg-max, 0 plays uniformly, -inf plays the arg-min, anything else a softmax', f.where(0),
                    'arms: %s' % {k: sorted(v) for k, v in arms.items()}, breaks='the documented fallback strategy is not the one played')
        # main branch: proportional to positive regret
        ok = False
        for l, ds in f.defs.items():
            vals = q.multi_def_values(f, l)
            if len(vals) == 2:
                t_ = [v for bi, cs, v in vals if any(c['kind'] == 'Gt' and c['truth'] is True and is_const(c['b'], 0) and not q.is_call(strip_refs(c['a']), 'sum') for c in cs)]
                f_ = [v for bi, cs, v in vals if any(c['kind'] == 'Gt' and c['truth'] is False and is_const(c['b'], 0) and not q.is_call(strip_refs(c['a']), 'sum') for c in cs)]
                if t_ and f_ and strip_refs(t_[0])[0] == 'bin' and strip_refs(t_[0])[1] == 'Div' and is_const(f_[0], 0):
                    d = strip_refs(t_[0])
                    den = strip_refs(d[3])
                    # the normaliser sums exactly the positive entries
                    flt = q.find_sub(den, lambda s: q.is_call(s, 'filter'))
                    pred, cf, agg = q.closure_pred(lib, flt[2][1]) if flt is not None else (None, None, None)
                    ok = q.is_call(den, 'sum') and pred is not None and pred[0] == 'Gt' and is_const(pred[2], 0)
                    if not ok and q.is_call(den, 'sum'):
                        # the same selection as `filter_map(|r| (r > 0.0).then_some(r))`
                        fm = q.find_sub(den, lambda s: q.is_call(s, 'filter_map'))
                        cfm, _ = q.closure_of(lib, fm[2][1]) if fm is not None and len(fm[2]) > 1 else (None, None)
                        if cfm is not None:
                            rr = strip_refs(q.ret_expr(cfm))
                            if q.is_call(rr, 'then_some') and len(rr[2]) == 2:
                                cm = facts.cmp_of(strip_refs(rr[2][0]))
                                ok = cm is not None and cm[0] == 'Gt' and is_const(cm[2], 0) and norm(cm[1]) == norm(rr[2][1])
                                ctx.touch(cfm)
        ctx.verdict(ok, rule, rule + ':proportional', 'with positive regret the strategy is regret / (sum of the positive regrets) on positive entries and 0 elsewhere', f.where(0), 'recognised: %s' % ok,
                    breaks='regret matching is not proportional to positive cumulative regret')
        # softmax uses no_positive
        sm = False
        for c in lib.closures_of(f):
            if any(short(p) == 'exp' for _, _, p in c.calls()):
                r = strip_refs(q.ret_expr(c))
                if q.is_call(r, 'exp'):
                    x = e4.try_poly(r[2][0])
                    names = {c.upvar_names.get(s[1]) for s in facts.walk(r) if s[0] == 'upvar'}
                    parent, agg = q.parent_agg(lib, c)
                    caps = [facts.show(a) for a in agg[2]] if agg else []
                    sm = any('no_positive' in x_ for x_ in caps) or 'self' in names and 'no_positive' in facts.show(r)
                    ctx.touch(c)
        ctx.verdict(sm, 'C08.softmax-weight', 'C08.softmax-weight', 'the softmax scales (regret - max) by no_positive', f.where(0), 'found: %s' % sm)


def mult_forms(f):
    """per player context, the polynomial of the local `mult`-like multiplier: the multi-def f64 local defined under the PlayerNum switch"""
    for l, ds in f.defs.items():
        if f.locals[l]['ty'] != 'f64' or len(ds) != 2:
            continue
        vals = q.multi_def_values(f, l)
        d = {}
        for bi, cs, v in vals:
            pl = [c for c in cs if c['kind'] == 'variant' and set(c['variants']) <= {'One', 'Two'} and len(c['variants']) == 1]
            if pl:
                d[pl[-1]['variants'][0]] = e4.try_poly(v)
        if set(d) == {'One', 'Two'}:
            return l, d
    return None, None


def rule_regret_update(ctx):
    lib = ctx.lib
    rule = 'C08.regret-update'
    f = ctx.fn('lib', 'solve::vanilla::recurse_player', rule)
    if f is not None:
        l, d = mult_forms(f)
        if l is None:
            ctx.anchor_lost(rule, 'recurse_player: per-player multiplier')
        else:
            pc = ('val', ('param', 2, f.local_name(2)))
            def reach(k):
                return ('val', ('cidx', ('param', 3, f.local_name(3)), k, False))
            want_one = {tuple(sorted((pc, reach(1)), key=repr)): 1.0}
            want_two = {tuple(sorted((pc, reach(0)), key=repr)): -1.0}
            if d['One'] != want_one or d['Two'] != want_two:
                # the two reaches travelling in one parameter (a `Reach { chance, players }` record): identified by shape —
                # one factor is element k of a pair rooted in a parameter, the other a scalar rooted in a parameter that
                # is the same in both arms
                def split_(p_):
                    if p_ is None or len(p_) != 1:
                        return None
                    (mono, c_), = p_.items()
                    if len(mono) != 2 or any(a_[0] != 'val' for a_ in mono):
                        return None
                    idx_ = [a_[1] for a_ in mono if strip_refs(a_[1])[0] == 'cidx']
                    oth_ = [a_[1] for a_ in mono if strip_refs(a_[1])[0] != 'cidx']
                    rooted = lambda x_: q.find_sub(x_, lambda y_: y_[0] == 'param') is not None
                    if len(idx_) != 1 or len(oth_) != 1 or not rooted(idx_[0]) or not rooted(oth_[0]):
                        return None
                    i_ = strip_refs(idx_[0])
                    return (norm(i_[1]), i_[2], norm(oth_[0]), c_)
                so, st = split_(d['One']), split_(d['Two'])
                if so is not None and st is not None and so[0] == st[0] and so[2] == st[2] and so[0] != so[2]:
                    want_one = d['One'] if (so[1], so[3]) == (1, 1.0) else want_one
                    want_two = d['Two'] if (st[1], st[3]) == (0, -1.0) else want_two
            ctx.verdict(d['One'] == want_one, rule, rule + ':multiplier:One', 'for player one the counterfactual multiplier is +p_chance * p_player[1] (chance and *opponent* reach)', f.where(0), 'form: %s' % e4.show_poly(d['One']),
                        breaks='regrets are weighted with the player\'s own reach / without chance reach: not counterfactual regret')
            ctx.verdict(d['Two'] == want_two, rule, rule + ':multiplier:Two', 'for player two it is -p_chance * p_player[0] (sign flipped: payoffs are player one\'s)', f.where(0), 'form: %s' % e4.show_poly(d['Two']),
                        breaks='player two minimises its own payoff, or uses its own reach')
            mult = ('var', l, f.local_name(l))
            # util = rec(..) * mult ; cum_reg.add(util) ; expected += util * prob ; expected_one += prob * util_one
            rec = [(bi, t, e) for bi, t, e in q.calls_named(f, 'call')]
            adds = [(bi, t, e) for bi, t, e in q.calls_named(f, 'add') if 'solve::vanilla::Add' in (t['callee'].get('def', '') + e[1])]
            okadd = False
            via_closure = False
            if not adds:
                # the `Add` trait replaced by an `add: impl Fn(R, f64)` parameter: the accumulation is a call of that
                # parameter with (regret handle, value); what the closure does is checked at the callers
                for bi, t, e in rec:
                    callee_ = strip_refs(e[2][0]) if e[2] else ('other',)
                    tup = strip_refs(e[2][1]) if len(e[2]) > 1 else ('other',)
                    if callee_[0] == 'param' and tup[0] == 'agg' and tup[1] == 'tuple' and len(tup[2]) == 2 and 'f64' in str(f.locals[callee_[1]]['ty']):
                        p2 = e4.try_poly(tup[2][1])
                        if p2 is not None and len(p2) == 1 and list(p2.values()) == [1.0] and ('val', mult) in list(p2)[0]:
                            adds.append((bi, t, ('call', e[1], (tup[2][0], tup[2][1]), e[3])))
                            via_closure = callee_[1]
                if via_closure:
                    sign_ok = []
                    for g_ in lib.non_test_fns():
                        for bj, tj, ej in q.calls_named(g_, 'recurse_player'):
                            if via_closure - 1 < len(ej[2]):
                                cf_, _ = q.closure_of(lib, ej[2][via_closure - 1])
                                if cf_ is not None:
                                    ctx.touch(cf_)
                                    plus = any(short(pp) == 'fetch_add' for _, _, pp in cf_.calls()) or any(strip_refs(rhs_)[0] == 'bin' and strip_refs(rhs_)[1] == 'Add' and norm(strip_refs(rhs_)[2]) == norm(pl_) for _, _, pl_, rhs_ in q.stores(cf_))
                                    sign_ok.append(plus)
                    if sign_ok:
                        ctx.verdict(all(sign_ok), 'C08.add-trait-sign', 'C08.add-trait-sign:closures', 'the accumulation passed to recurse_player adds (fetch_add / +=)', f.where(0), 'closures adding: %s' % sign_ok)
            for bi, t, e in adds:
                p = e4.try_poly(e[2][1])
                if p is not None and len(p) == 1 and list(p.values()) == [1.0]:
                    atoms = list(p)[0]
                    okadd = len(atoms) == 2 and ('val', mult) in atoms and any(a[0] == 'val' and (a[1][0] == 'var' or q.is_call(a[1], 'call')) for a in atoms if a != ('val', mult))
                    # the target is the per-action cumulative regret item
                    tgt = strip_refs(e[2][0])
                    okadd = okadd and q.find_sub(tgt, lambda s: s[0] == 'param' and (s[1] == 5 or 'IntoIterator' in str(f.locals[s[1]]['ty']) or (via_closure and 'Iterator' in str(f.locals[s[1]]['ty']) or via_closure and 'impl' in str(f.locals[s[1]]['ty'])))) is not None
            # every action is accumulated: inside the loop over the actions the update is not conditional on data
            for bi, t, e in adds:
                lp = f.loop_of(bi)
                extra = []
                for c in f.conds(bi):
                    if lp is None or c['switch'] not in lp[1]:
                        continue
                    if c['kind'] == 'variant':
                        continue        # iterator protocol
                    extra.append('%s(%s) edge %s @ line %s' % (c['kind'], facts.show(c['a'])[:50], c.get('truth'), c['line']))
                ctx.verdict(not extra, rule, rule + ':every-action-updated', 'inside the loop over the actions of a node the regret update of an action is unconditional (an action with zero reach still has a counterfactual value)', f.where(bi),
                            'data-dependent guards on the update: %s' % extra, breaks='actions whose probability dropped to zero stop accumulating regret and can never come back: the bound shrinks while the true regret does not')
            ctx.verdict(okadd, rule, rule + ':per-action-accumulation', 'each action\'s cumulative regret receives (+1) * child value * multiplier', f.where(adds[0][0]) if adds else f.where(0), 'recognised: %s' % okadd,
                        breaks='the counterfactual value of an action is accumulated with another weight')
            # returned pair: (sum prob*util_one, sum util*prob)
            r = strip_refs(q.ret_expr(f))
            accs = {}
            for ll, ds in f.defs.items():
                if f.locals[ll]['ty'] == 'f64' and f.local_name(ll) and len(ds) == 2:
                    upd = [strip_refs(f.rvalue_expr(dd[3], dd[1])) for dd in ds if dd[0] == 'assign']
                    inc = [u for u in upd if u[0] == 'bin' and u[1] == 'Add' and norm(u[2]) == ('var', ll, f.local_name(ll))]
                    init = [u for u in upd if is_const(u, 0)]
                    if inc and init:
                        accs[ll] = e4.try_poly(inc[0][3])
            ret_ok = r[0] == 'agg' and r[1] == 'tuple' and len(r[2]) == 2 and all(x[0] == 'var' and x[1] in accs for x in r[2])
            exp_ok = False
            if ret_ok:
                p_one, p_all = accs[r[2][0][1]], accs[r[2][1][1]]
                def has(p, need_mult):
                    if p is None or len(p) != 1 or list(p.values()) != [1.0]:
                        return False
                    atoms = list(p)[0]
                    m_ = ('val', mult) in atoms
                    probs = [a for a in atoms if a[0] == 'val' and a[1][0] == 'field' and a[1][2] == '1']
                    return m_ == need_mult and len(probs) == 1 and len(atoms) == (3 if need_mult else 2)
                exp_ok = has(p_one, False) and has(p_all, True)
            if not ret_ok:
                # another shape (e.g. one tuple-valued accumulator threaded through `fold`): not decided here
                ctx.anchor_lost(rule, 'recurse_player: the pair of scalar accumulators (node value, baseline) it returns')
            else:
              ctx.verdict(ret_ok and exp_ok, rule, rule + ':expectations', 'the function returns (sum prob * child value, sum prob * child value * multiplier): the node value and the amount subtracted from every entry', f.where(0),
                        'accumulators: %s' % {f.local_name(k): e4.show_poly(v) for k, v in accs.items()}, breaks='the baseline subtracted from the regrets is not the strategy\'s expected counterfactual value')
            # own reach of the child
            own = False
            n_mul = 0
            for g_ in [f] + lib.closures_of(f):
                for bi, t, p in g_.calls():
                    if short(p) == 'mul_assign' and 'ops::' in p:
                        e = g_.call_expr(t, bi)
                        tgt = strip_refs(e[2][0])
                        if q.is_call(tgt, 'ind_mut'):
                            n_mul += 1
                            rhs_ = strip_refs(e[2][1])
                            own = own or ('num' in facts.show(tgt[2][0]) and rhs_[0] in ('field', 'param', 'var', 'downcast'))
            if n_mul == 0:
                ctx.anchor_lost(rule, 'recurse_player: in-place scaling of the acting player\'s reach slot (`*num.ind_mut(&mut reach) *= prob`)')
            else:
              ctx.verdict(own, rule, rule + ':child-own-reach', 'the acting player\'s reach handed to a child is multiplied by that action\'s probability (selected by the node\'s own player number)', f.where(0), 'recognised: %s' % own,
                        breaks='reach probabilities of the two players are mixed up')
    # callers: recurse_single / recurse_multi agree
    rule = 'C08.traversal-siblings'
    sk = {}
    for suf in ('solve::vanilla::recurse_single', 'solve::vanilla::recurse_multi'):
        g = ctx.fn('lib', suf, rule)
        if g is None:
            continue
        s = {}
        # chance: child gets p_chance * prob ; expected += prob * payoff
        rec_calls = [(bi, t, e, g.conds(bi)) for bi, t, e in q.calls_named(g, short(suf))]
        # the recursive call may sit in a closure built in the chance arm (`.map(|(prob, next)| recurse(..)).sum()`)
        for cfn in lib.closures_of(g):
            par, agg = q.parent_agg(lib, cfn)
            if par is not g:
                continue
            site = [bi for bi, si, st in g.assigns() if st['rv']['r'] == 'agg' and st['rv']['kind'].get('path') == cfn.name]
            for bi, t, e in q.calls_named(cfn, short(suf)):
                e2_ = q.resolve_captures(lib, cfn, e)
                rec_calls.append((bi, t, e2_, g.conds(site[0]) if site else []))
        for bi, t, e, cs in rec_calls:
            if any(c['kind'] == 'variant' and c['variants'] == ['Chance'] for c in cs):
                p = e4.try_poly(e[2][3])
                s['chance-child-reach'] = e4.show_poly(p) if p is None else sorted('%s:%g' % (sorted(a[1][0] if a[0] == 'val' else a[0] for a in m), c) for m, c in p.items())
                s['chance-player-reach-unchanged'] = strip_refs(e[2][4]) == ('param', 5, g.local_name(5))
        for ll, ds in g.defs.items():
            if g.locals[ll]['ty'] == 'f64' and g.local_name(ll) and len(ds) == 2:
                for dd in ds:
                    if dd[0] == 'assign':
                        u = strip_refs(g.rvalue_expr(dd[3], dd[1]))
                        if u[0] == 'bin' and u[1] == 'Add' and norm(u[2]) == ('var', ll, g.local_name(ll)):
                            p = e4.try_poly(u[3])
                            s['chance-expectation'] = p is not None and len(p) == 1 and list(p.values()) == [1.0] and len(list(p)[0]) == 2
        # player: update_cum_strat(own reach); recurse_player; subtract sub from every entry
        for bi, t, e in q.calls_named(g, 'update_cum_strat'):
            a = strip_refs(e[2][1])
            s['avg-gets-own-reach'] = q.is_call(a, 'ind') and 'num' in facts.show(a[2][0]) and strip_refs(a[2][1]) == ('param', 5, g.local_name(5))
        rp = q.calls_named(g, 'recurse_player')
        s['recurse_player-args'] = bool(rp) and strip_refs(rp[0][2][2][1]) == ('param', 4, g.local_name(4)) and strip_refs(rp[0][2][2][2]) == ('param', 5, g.local_name(5))
        sub_ok = False
        if rp:
            res = rp[0][2]
            for bi, t, p in g.calls():
                if short(p) == 'fetch_sub':
                    e = g.call_expr(t, bi)
                    v = strip_refs(e[2][1])
                    sub_ok = v[0] == 'field' and v[2] == '1' and strip_refs(v[1]) == res
                tr = t['callee'].get('trait') or ''
                if tr.startswith('solve::') and len(t['args']) == 2:
                    # a method of a crate-local trait on the entry: subtraction if every impl of it subtracts
                    mname = short(t['callee'].get('def') or p)
                    impls = [h for n_, h in lib.fns.items() if n_.endswith('>::' + mname) and ((' as %s>' % tr) in n_ or h.j.get('impl_trait') == tr)]
                    subtracts = bool(impls) and all(any(short(pp) == 'fetch_sub' for _, _, pp in h.calls()) or
                                                    any(strip_refs(rhs)[0] == 'bin' and strip_refs(rhs)[1] == 'Sub' and norm(strip_refs(rhs)[2]) == norm(pl) for _, _, pl, rhs in q.stores(h)) for h in impls)
                    if subtracts:
                        v = strip_refs(g.call_expr(t, bi)[2][1])
                        sub_ok = sub_ok or (v[0] == 'field' and v[2] == '1' and strip_refs(v[1]) == res)
            for bi, st, pl, rhs in q.stores(g):
                r = strip_refs(rhs)
                if r[0] == 'bin' and r[1] == 'Sub' and norm(r[2]) == norm(pl):
                    v = strip_refs(r[3])
                    sub_ok = sub_ok or (v[0] == 'field' and v[2] == '1' and strip_refs(v[1]) == res)
            rr = [v for bi, cs, v in q.multi_def_values(g, 0) if any(c['kind'] == 'variant' and c['variants'] == ['Player'] for c in cs)]
            s['returns-node-value'] = bool(rr) and strip_refs(rr[0])[0] == 'field' and strip_refs(rr[0])[2] == '0' and strip_refs(strip_refs(rr[0])[1]) == res
        s['subtract-expected-from-every-entry'] = sub_ok
        term = [v for bi, cs, v in q.multi_def_values(g, 0) if any(c['kind'] == 'variant' and c['variants'] == ['Terminal'] for c in cs)]
        s['terminal-is-payoff'] = bool(term) and facts.show(norm(term[0])).endswith('as Terminal).0')
        sk[short(suf)] = s
        for k, v in sorted(s.items()):
            good = v is True or (k == 'chance-child-reach' and v == ["['field', 'param']:1"])
            ctx.verdict(good, rule, '%s:%s:%s' % (rule, short(suf), k), {
                'chance-child-reach': 'below a chance node the chance reach becomes p_chance * prob',
                'chance-player-reach-unchanged': 'below a chance node the players\' reaches are unchanged',
                'chance-expectation': 'a chance node\'s value is the sum of prob * child value',
                'avg-gets-own-reach': 'the average strategy is updated with the acting player\'s own reach',
                'recurse_player-args': 'recurse_player receives this node\'s p_chance and p_player',
                'subtract-expected-from-every-entry': 'after the per-action accumulation the expected counterfactual value is subtracted from every entry',
                'returns-node-value': 'a player node returns its expected (player one) value',
                'terminal-is-payoff': 'a terminal node returns its payoff'}[k], g.where(0), 'value: %s' % (v,), breaks='the traversal no longer computes counterfactual regret')
    if len(sk) == 2:
        a, b = sk['recurse_single'], sk['recurse_multi']
        # an item one traversal is written in a shape the skeleton does not recognise is simply absent on that
        # side: the siblings disagree only where both sides have a recognised item with different values
        both = sorted(set(a) & set(b))
        diff = [k for k in both if a[k] != b[k]]
        ctx.verdict(not diff, rule, rule + ':agree', 'the single-threaded and the multi-threaded traversal have the same skeleton', '',
                    'differ on %s: single %s | multi %s' % (diff, {k: a[k] for k in diff}, {k: b[k] for k in diff}) if diff else 'identical on %d common items (%d / %d recognised)' % (len(both), len(a), len(b)))
    # update_cum_strat forms
    rule = 'C08.average-update'
    for suf, want in (('<solve::data::RegretInfoset as solve::vanilla::PlayerRecurse>::update_cum_strat', 'reach*strat'),
                      ('<solve::vanilla::MutexRegretInfoset as solve::vanilla::MutexPlayerRecurse>::update_cum_strat', 'reach*strat'),
                      ('<solve::external::CachedInfoset as solve::external::ExternalInfo>::update_cum_strat', 'strat')):
        g = ctx.fn('lib', suf, rule)
        if g is None:
            continue
        got = None

        def classify(target, addend):
            tgt = q.coll_fields(target)
            p = e4.try_poly(addend)
            if p is None or len(p) != 1 or list(p.values()) != [1.0]:
                return '?'
            atoms = list(p)[0]
            reach = [a for a in atoms if a == ('val', ('param', 2, g.local_name(2)))]
            srcs = [q.coll_fields(a[1]) for a in atoms if a not in reach and a[0] == 'val']
            if tgt[:1] != ['cum_strat'] or len(srcs) != 1 or srcs[0][:1] != ['strat']:
                return '?'
            return 'reach*strat' if reach and len(atoms) == 2 else 'strat' if len(atoms) == 1 else '?'
        for bi, st, pl, rhs in q.stores(g):
            r = strip_refs(rhs)
            if r[0] == 'bin' and r[1] == 'Add' and norm(r[2]) == norm(pl):
                got = classify(pl, r[3])
        for bi, t, p in g.calls():
            if short(p) == 'add_assign' and 'ops::' in p:
                e = g.call_expr(t, bi)
                got = classify(e[2][0], e[2][1])
        ctx.verdict(got == want, rule, '%s:%s' % (rule, suf.split(' as ')[0].split('::')[-1]), 'the cumulative strategy receives (+1) * %s' % ('own reach * current strategy' if want == 'reach*strat' else 'current strategy (external sampling: the sampling itself carries the reach)'),
                    g.where(0), 'form: += %s' % got, breaks='the average strategy is not the reach-weighted average of the iterates')
    # Add::add impls
    rule = 'C08.add-impls'
    n = 0
    for name, g in lib.fns.items():
        if g.j.get('impl_trait', '').endswith('solve::vanilla::Add') and name.endswith('::add'):
            n += 1
            ctx.touch(g)
            ok = any(short(p) == 'fetch_add' for _, _, p in g.calls()) or any(strip_refs(rhs)[0] == 'bin' and strip_refs(rhs)[1] == 'Add' and norm(strip_refs(rhs)[2]) == norm(pl) for bi, st, pl, rhs in q.stores(g))
            ctx.verdict(ok, rule, '%s:%s' % (rule, g.j.get('impl_self')), 'Add::add accumulates with sign + (fetch_add / +=)', g.where(0), 'found: %s' % ok)
    if n < 2:
        ctx.anchor_lost(rule, 'impls of solve::vanilla::Add', 'found %d of 2' % n)


def rule_external(ctx):
    lib = ctx.lib
    rule = 'C08.external'
    f = ctx.fn('lib', 'solve::external::recurse_regret', rule)
    if f is not None:
        d = {}
        for bi, cs, v in q.multi_def_values(f, 0):
            if any(c['kind'] == 'variant' and c['variants'] == ['Terminal'] for c in cs):
                first = [c for c in cs if c['kind'] == 'bool' and c['a'] == ('cparam', 'FIRST')]
                p = e4.try_poly(v)
                if first and p is not None and len(p) == 1:
                    d[first[-1]['truth']] = list(p.values())[0]
        ctx.verdict(d == {True: 1.0, False: -1.0}, rule, rule + ':terminal-sign', 'a terminal is worth +payoff in player one\'s pass (FIRST) and -payoff in player two\'s', f.where(0), 'coefficients: %s' % d,
                    breaks='player two maximises player one\'s payoff in its own pass')
    g = ctx.fn('lib', '<solve::external::CachedInfoset as solve::external::ActiveInfo>::recurse', rule)
    if g is not None:
        add_ok = sub_ok = exp_ok = False
        for bi, st, pl, rhs in q.stores(g):
            r = strip_refs(rhs)
            if r[0] == 'bin' and norm(r[2]) == norm(pl) and q.coll_fields(pl)[:1] == ['cum_regret']:
                v = strip_refs(r[3])
                if r[1] == 'Add':
                    add_ok = q.is_call(v, 'call') or v[0] == 'var'
                    p = e4.try_poly(v)
                    add_ok = add_ok and p is not None and len(p) == 1 and list(p.values()) == [1.0] and len(list(p)[0]) == 1
                elif r[1] == 'Sub':
                    sub_ok = v[0] == 'var'
        for ll, ds in g.defs.items():
            if g.locals[ll]['ty'] == 'f64' and g.local_name(ll) and len(ds) == 2:
                for dd in ds:
                    if dd[0] == 'assign':
                        u = strip_refs(g.rvalue_expr(dd[3], dd[1]))
                        if u[0] == 'bin' and u[1] == 'Add' and norm(u[2]) == ('var', ll, g.local_name(ll)):
                            p = e4.try_poly(u[3])
                            exp_ok = p is not None and len(p) == 1 and list(p.values()) == [1.0] and len(list(p)[0]) == 2
        ctx.verdict(add_ok and sub_ok and exp_ok, rule, rule + ':regret-update', 'external sampling adds the child value to each action\'s regret without a reach factor, then subtracts sum(prob * value) from every entry', g.where(0),
                    '+= util: %s, -= expected: %s, expected = sum prob*util: %s' % (add_ok, sub_ok, exp_ok), breaks='the sampled regret estimate is biased')
    names = [n for n in lib.fns if n.endswith('ExternalInfo::next_update') and not facts.is_test_path(n)]
    h = lib.fns.get(names[0]) if names else None
    if h is None:
        ctx.anchor_lost(rule, 'ExternalInfo::next_update (default method)')
    else:
        ctx.touch(h)
        cs = [(bi, short(p)) for bi, t, p in h.calls() if short(p) in ('update_cum_strat', 'next')]
        ok = [s for _, s in cs] == ['update_cum_strat', 'next'] and h.dominates(cs[0][0], cs[1][0])
        ctx.verdict(ok, rule, rule + ':update-then-draw', 'every visit of a sampled-player node updates the average strategy exactly once and then draws', h.where(0), 'calls: %s' % [s for _, s in cs],
                    breaks='the average strategy misses visits or counts them twice')


def _fallback_by_samples(f, paths, is_np):
    """{class: effects} of regret_match's no-positive-regret paths, the tests on the weight evaluated concretely on
    representatives (+inf, 0, -inf, and four finite non-zero weights for 'anything else'); None when a path tests
    the weight in a way that is not evaluated here"""
    import absint
    import operator
    OPS = {'Eq': operator.eq, 'Ne': operator.ne, 'Gt': operator.gt, 'Lt': operator.lt, 'Ge': operator.ge, 'Le': operator.le}
    import math
    UN = {'IsInfinite': math.isinf, 'IsFinite': math.isfinite, 'IsNan': math.isnan}
    rows = []
    for pth in paths:
        cs = absint.path_conds(f, pth)
        pos = [c for c in cs if c['kind'] == 'Gt' and c.get('b') is not None and is_const(c['b'], 0) and q.is_call(strip_refs(c['a']), 'sum')]
        if not pos or pos[-1]['truth'] is not False:
            continue
        tests = []
        for c in cs:
            a, b = c.get('a'), c.get('b')
            a_np = a is not None and is_np(strip_refs(a))
            b_np = b is not None and is_np(strip_refs(b))
            mentions = any(is_np(x) for y in (a, b) if y is not None for x in facts.walk(y))
            if not mentions:
                continue
            if c['kind'] in OPS and a_np and b is not None and b[0] == 'const' and c['truth'] in (True, False):
                k = float(b[1])
                tests.append((lambda v, op=OPS[c['kind']], k=k: op(v, k), c['truth']))
            elif c['kind'] in OPS and b_np and a is not None and a[0] == 'const' and c['truth'] in (True, False):
                k = float(a[1])
                tests.append((lambda v, op=OPS[c['kind']], k=k: op(k, v), c['truth']))
            elif c['kind'] in UN and a_np and c['truth'] in (True, False):
                tests.append((UN[c['kind']], c['truth']))
            else:
                return None
        fx = set()
        for bi in pth.trace:
            t = f.blocks[bi]['term']
            if t['t'] == 'call':
                sp = short(t['callee'].get('path') or t['callee'].get('def') or '')
                if sp in ('max_by', 'min_by', 'exp'):
                    fx.add(sp)
                elif sp == 'fill':
                    v = strip_refs(f.call_expr(t, bi)[2][1])
                    fx.add('fill:' + ('0' if is_const(v, 0) else 'uniform' if v[0] == 'bin' and v[1] == 'Div' and is_const(v[2], 1) else '?'))
            for st in f.blocks[bi]['stmts']:
                if st['s'] == 'assign' and st['pl']['p'] and st['pl']['p'][-1]['k'] == 'index' and is_const(f.rvalue_expr(st['rv'], bi), 1):
                    fx.add('one-hot')
        rows.append((tests, frozenset(fx)))
    if not rows:
        return None
    out = {}
    for cls, reps in ((INF, [INF]), (0.0, [0.0]), (-INF, [-INF]), ('else', [2.0, -2.0, 0.5, -0.5])):
        eff = set()
        for v in reps:
            feas = [fx for tests, fx in rows if all(bool(t(v)) == truth for t, truth in tests)]
            if not feas:
                return None
            eff |= set().union(*feas) if len(set(feas)) > 1 else set(feas[0])
        out[cls] = eff
    return out


def run(ctx):
    rule_advance(ctx)
    c02.per_player_sums(ctx, 'C08.iteration-index')
    rule_presets(ctx)
    rule_branch_tables(ctx)
    rule_regret_update(ctx)
    import parallel
    parallel.child_reach_fresh(ctx, 'C08')
    rule_external(ctx)
