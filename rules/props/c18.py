"""C18 — truncation keeps a valid profile and only removes small actions."""
import divisions
import e2
import facts
import q
from facts import norm, short, is_const

EXPLANATION = """
Static analysis of Strategies::truncate (MIR of the current tree). Decided clauses, each a necessary
condition of the property: (1) division rule — the renormalising division is on the non-zero edge of
a dominating test of its divisor (otherwise an infoset in which nothing exceeds the threshold is
divided by 0 and stops being a distribution); (2) survivor agreement — the predicate that selects the
entries summed into the normaliser and the predicate that selects the entries kept are the same
comparison against the same threshold, and every other entry is set to the constant 0; (2b) besides
that predicate and the non-zero test, no data-dependent condition guards the rewrite (so an infoset
with survivors always loses its small actions); (3) the
probability vector is partitioned by num_actions of the infosets of the *same* player
(player_infosets zipped with probs, in order). split.rs hands the dense vector's chunks out front to back (both `next` implementations: item = first `len` elements of the rest, remainder kept). Not decided: "nothing changes beyond rounding" and
idempotence as numbers.
"""
ASSUMPTIONS = ['f64 arithmetic is not evaluated: only guards, predicates and data flow are decided',
               'std slice::split_at_mut has its documented semantics (split.rs itself is decided by chunks-front-to-back)']
NOT_DECIDED = ['numeric closeness to the original profile', 'idempotence as numbers']


def run(ctx):
    lib = ctx.lib
    import splits
    splits.front_to_back(ctx, 'C18')
    divisions.run(ctx, 'C18')
    f = ctx.fn('lib', "Strategies::<'a, I, A>::truncate", 'C18.anchor')
    if f is None:
        return
    # --- survivor agreement
    rule = 'C18.survivor-agreement'
    sums = [(bi, t, e) for bi, t, e in q.calls_named(f, 'sum')]
    filt = None
    filts = []
    for bi, t, e in sums:
        fe = q.find_sub(e, lambda s: q.is_call(s, 'filter'))
        if fe is not None:
            filt = (bi, fe, e)
            filts.append(filt)
    divs = list(e2.f64_divisions(f))
    text = 'the entries summed into the normaliser and the entries kept are selected by the same comparison against the same threshold; all others become 0.0'
    if filt is None or not divs:
        ctx.anchor_lost(rule, 'truncate: filtered sum / renormalising division')
    else:
        pred, cf, agg = q.closure_pred(lib, filt[1][2][1])
        ctx.touch(cf)
        # the closure compares its item against a captured variable; map the capture back to the caller's value
        thr_in_closure = None
        if pred:
            ip = q.item_param(cf)
            for side in (pred[1], pred[2]):
                if side is None:
                    continue
                r = norm(q.resolve_captures(lib, cf, side)) if cf.is_closure else norm(side)
                if q.find_sub(r, lambda x: x[0] == 'param' and x[1] == ip and cf.is_closure is False) is None and \
                        q.find_sub(side, lambda x: x[0] == 'param' and x[1] == ip) is None:
                    thr_in_closure = r
        for dv in divs:
            # several copies of the loop (a per-player helper spliced in once per player): each division goes with the
            # filtered sum it divides by
            mine = [x for x in filts if norm(x[2]) == norm(dv['den'])]
            if mine and mine[0] is not filt:
                filt = mine[0]
                pred, cf, agg = q.closure_pred(lib, filt[1][2][1])
                ctx.touch(cf)
                thr_in_closure = None
                if pred:
                    ip = q.item_param(cf)
                    for side in (pred[1], pred[2]):
                        if side is None:
                            continue
                        r = norm(q.resolve_captures(lib, cf, side)) if cf.is_closure else norm(side)
                        if q.find_sub(r, lambda x: x[0] == 'param' and x[1] == ip and cf.is_closure is False) is None and \
                                q.find_sub(side, lambda x: x[0] == 'param' and x[1] == ip) is None:
                            thr_in_closure = r
            # guard of the division that compares the numerator (the element) with something
            num = norm(dv['num'])
            g = None
            for c in f.conds(dv['bi']):
                if c['kind'] in ('Gt', 'Ge', 'Lt', 'Le') and (c['a'] == num or c['b'] == num):
                    g = c
            site = f.where(line=dv['line'])
            key = '%s:%s' % (rule, q.top(f.name))
            if pred is None or g is None:
                ctx.bad(rule, key, text, site, 'cannot pair the filter predicate (%s) with a guard of the rescaling (%s)' % (pred and pred[0], g and g['kind']))
                continue
            # orientation: element on the left in both?
            elem_left_closure = facts.strip_refs(pred[1])[0] == 'param'
            elem_left_guard = g['a'] == num
            kc = pred[0] if elem_left_closure else {'Gt': 'Lt', 'Lt': 'Gt', 'Ge': 'Le', 'Le': 'Ge'}[pred[0]]
            kg = g['kind'] if elem_left_guard else {'Gt': 'Lt', 'Lt': 'Gt', 'Ge': 'Le', 'Le': 'Ge'}[g['kind']]
            thr_guard = g['b'] if elem_left_guard else g['a']
            same = kc == kg and g['truth'] is True and thr_in_closure is not None and norm(thr_in_closure) == norm(thr_guard)
            ctx.verdict(same, rule, key, text, site,
                        'sum selects `elem %s %s`, rescale keeps `elem %s %s` (edge %s)' % (kc, facts.show(thr_in_closure) if thr_in_closure else '?', kg, facts.show(thr_guard), g['truth']),
                        breaks='entries between the two predicates are kept but not counted (or counted but zeroed): the slice no longer sums to one')
            # the rewrite happens whenever something survives: besides the survivor predicate itself and
            # the non-zero test of the normaliser, no data-dependent condition may skip it
            nz = e2.nonzero_guard(f, dv['bi'], dv['den'])
            extra, thresh_only = [], []
            for c in f.conds(dv['bi']):
                if c is g or (nz is not None and c['switch'] == nz['switch']) or c['switch'] == g['switch']:
                    continue
                if c['kind'] == 'variant':
                    continue     # iterator protocol (Some / None)
                if c['kind'] in ('Gt', 'Ge', 'Lt', 'Le', 'Eq', 'Ne', 'bool', 'IsFinite', 'IsNan', 'Is:is_empty', 'Is:any', 'Is:all'):
                    deps = [x for side in (c.get('a'), c.get('b')) if side is not None for x in facts.walk(side) if x[0] in ('param', 'upvar', 'var', 'call', 'field')]
                    only_thresh = thr_in_closure is not None and deps and all(norm(x) == norm(thr_in_closure) for x in deps if x[0] in ('param', 'upvar', 'var')) and not any(x[0] == 'call' for x in deps)
                    (thresh_only if only_thresh else extra).append(c)
            ctx.verdict(not extra, 'C18.rewrite-whenever-survivors', 'C18.rewrite-whenever-survivors:%s' % q.top(f.name),
                        'in an infoset where something exceeds the threshold the small actions are removed: the rewrite is guarded only by the non-zero test of the normaliser', site,
                        'additional data-dependent guards on the rewrite: %s' % ['%s(%s, %s) edge %s @ line %s' % (c['kind'], facts.show(c['a'])[:40], facts.show(c['b'])[:30] if c.get('b') is not None else '', c.get('truth'), c['line']) for c in extra],
                        breaks='infosets with survivors keep their below-threshold actions (e.g. when the removed mass is below one ulp of the total)')
            if thresh_only:
                ctx.sres(False, 'C18.rewrite-whenever-survivors', 'C18.rewrite-whenever-survivors:threshold-only-guard:%s' % q.top(f.name),
                         'a guard that depends on the threshold alone may or may not preserve the behaviour', site, 'not decided: %d such guard(s)' % len(thresh_only))
            # the divisor is that sum
            den = norm(dv['den'])
            ctx.verdict(den == norm(filt[2]), 'C18.normaliser-is-sum', 'C18.normaliser-is-sum:%s' % q.top(f.name),
                        'surviving entries are divided by the sum of the surviving entries of the same slice', site,
                        'divisor = %s' % facts.show(den)[:120])
            # the other edge stores the constant zero
            zero_ok = False
            for bi, st, pl, rhs in q.stores(f):
                pass
            # find the multi-def temp assigned on both edges of g
            for l, ds in f.defs.items():
                if len(ds) == 2 and all(d[0] == 'assign' for d in ds):
                    vals = q.multi_def_values(f, l)
                    on_true = [v for b, cs, v in vals if any(c['switch'] == g['switch'] and c.get('truth') is True for c in cs)]
                    on_false = [v for b, cs, v in vals if any(c['switch'] == g['switch'] and c.get('truth') is False for c in cs)]
                    if on_true and on_false and on_true[0][0] == 'bin' and on_true[0][1] == 'Div':
                        zero_ok = is_const(on_false[0], 0)
            if not zero_ok:
                # statement form: `if keep { *p /= total } else { *p = 0.0 }` — a store of 0.0 to the element on the other edge
                for bi, st, pl, rhs in q.stores(f):
                    if is_const(facts.strip_refs(rhs), 0) and norm(pl) == num and any(c['switch'] == g['switch'] and c.get('truth') is False for c in f.conds(bi)):
                        zero_ok = True
            ctx.verdict(zero_ok, 'C18.others-zero', 'C18.others-zero:%s' % q.top(f.name),
                        'entries not kept are set to the constant 0.0', site, 'value on the other edge is %s0.0' % ('' if zero_ok else 'not '))
    # --- zeroing only when something survives (independent of how the sum is written)
    rule = 'C18.zero-only-with-survivors'
    zero_sites = []
    for bi, st, pl, rhs in q.stores(f):
        if st['pl'].get('ty') != 'f64':
            continue
        r = facts.strip_refs(rhs)
        if is_const(r, 0):
            zero_sites.append(bi)
        elif r[0] == 'var':
            for b2, cs2, v2 in q.multi_def_values(f, r[1]):
                if is_const(v2, 0):
                    zero_sites.append(b2)
    for bi in zero_sites:
        guarded = False
        for c in f.conds(bi):
            if c['kind'] in ('Gt', 'Lt') and c.get('truth') is True and c.get('b') is not None and is_const(c['b'], 0):
                guarded = True
            if c['kind'] == 'Eq' and c.get('truth') is False and c.get('b') is not None and is_const(c['b'], 0):
                guarded = True
        if not guarded and any(c['kind'] == 'variant' and c['variants'] == ['Some'] and not q.is_call(facts.strip_refs(c['a']), 'next') and
                               q.find_sub(c['a'], lambda s_: s_[0] == 'downcast' and s_[2] == 'Some' and q.is_call(facts.strip_refs(s_[1]), 'next')) is not None for c in f.conds(bi)):
            # guarded by `Some(divisor)` of an Option that was stored earlier (per infoset): whether Some means "something
            # survives" is decided where it was stored
            ctx.anchor_lost(rule, 'truncate: the guard of the zero store', 'guarded by the Some-ness of a stored per-infoset Option')
            continue
        ctx.verdict(guarded, rule, '%s:%s' % (rule, q.top(f.name)), 'a probability is set to 0.0 only under the test that the surviving mass of its infoset is non-zero (otherwise an infoset in which nothing exceeds the threshold is wiped)',
                    f.where(bi), 'zero store dominated by a non-zero test of the surviving total: %s' % guarded, breaks='an infoset in which no action exceeds the threshold ends up all-zero: not a distribution')
    # --- partition by the same player's infosets
    rule = 'C18.partition'
    sb = q.calls_named(f, 'split_by_mut')
    if not sb:
        ctx.anchor_lost(rule, 'truncate: split_by_mut')
    for bi, t, e in sb:
        a0, a1 = e[2][0], e[2][1]
        # the slice (player p's probs) and the lengths (num_actions of player p's infosets) belong to the same player
        same, how = q.same_player(a0, a1, 'probs', 'player_infosets')
        cf, _ = q.closure_of(lib, a1)
        lens_ok = q.maps_num_actions(lib, cf) or q.maps_num_actions(lib, q.find_sub(a1, lambda x: x[0] == 'fn'))
        detail = '%s; lengths via num_actions: %s' % (how, lens_ok)
        if same is None or (same and not lens_ok):
            ctx.anchor_lost(rule, 'truncate: pairing of probs with player_infosets', detail)
            continue
        ok = same and lens_ok
        ctx.verdict(ok, rule, '%s:%s' % (rule, q.top(f.name)),
                    'each player\'s probability vector is split by num_actions of that same player\'s infosets, in order', f.where(bi), detail,
                    breaks='slices straddle infoset boundaries: renormalisation mixes infosets')
