"""C10 — sampling follows declared distributions and is shared within a chance infoset."""
import e1
import facts
import invcdf
import parallel
import q
import sampling
from facts import short, strip_refs

EXPLANATION = """
Decided on the instance-resolved call graph and the MIR of the current tree: (1) the unsampled method
makes no random draws — no function defined in the rand family of crates is reachable from
solve_full_single / solve_full_multi; (2) the chance-sampled method never samples player actions —
solve_sampled_* reach SampledChance::sample (liveness floor) but neither CachedInfoset::sample nor
Multinomial::sample; the external method reaches both; (3) dispatch — SolveMethod::{Full, Sampled,
External} x {one thread, many} select the like-named solve_*_{single,multi}; (4) RNG confinement —
thread_rng is called from exactly the two cached draw functions (test modules excluded), which obey
the draw-once typestate and the reset-per-pass rules shared with C07; (5) shared draw — wherever a
sampled traversal selects a child, the table entry consulted is indexed by that node's own infoset
and the child is node.outcomes[sample()] / node.actions[sample()] of the same node; (6) the alias
table is built from the infoset's declared weights (probs()), the action sampler from the current
strategy `strat` (not cum_strat / cum_regret, all Box<[f64]>); (7) interval clause — the categorical
sampler, when it has the linear-scan shape (one forward scan over the weights, scalar state updated
by +-w, one comparison), is interpreted abstractly over linear forms in {u, S, w}: it must continue past
weight j exactly while u lies beyond the j-th cumulative bound and return the number of weights
passed (reversed comparison, off-by-one, reverse scan, wrong counter are violations; any other shape
is reported not-proved, never an alarm). A chance node declared without an infoset gets a key of its own in compact::OptBuilder (the value of a counter advanced by the same step), so independent anonymous chance nodes are never merged. Not decided: rand_distr's alias method; open/closed interval ends.
"""
ASSUMPTIONS = ['rand_distr::WeightedAliasIndex samples proportionally to its weights (third-party contract)',
               'rand::thread_rng is the only entropy source linked (getrandom is reached only through it)']
NOT_DECIDED = ['closedness of the interval ends (measure zero)', 'categorical samplers that are not linear scans (reported not-proved)', 'correctness of rand_distr']


DRAWS = {'thread_rng', 'sample', 'gen', 'gen_range', 'gen_bool', 'gen_ratio', 'next_u32', 'next_u64', 'fill_bytes', 'try_fill_bytes', 'fill', 'sample_iter', 'random', 'shuffle', 'choose', 'from_entropy'}


def run(ctx):
    lib = ctx.lib
    parallel.no_rng(ctx, 'C10', ['vanilla::solve_full_single', 'vanilla::solve_full_multi'])
    # (2) who can reach which sampler
    rule = 'C10.sampler-reachability'
    table = {
        'vanilla::solve_sampled_single': ({'solve::data::SampledChance::sample'}, {'solve::external::CachedInfoset::sample', 'Multinomial'}),
        'vanilla::solve_sampled_multi': ({'solve::data::SampledChance::sample'}, {'solve::external::CachedInfoset::sample', 'Multinomial'}),
        'external::solve_external_single': ({'solve::data::SampledChance::sample', 'solve::external::CachedInfoset::sample'}, set()),
        'external::solve_external_multi': ({'solve::data::SampledChance::sample', 'solve::external::CachedInfoset::sample'}, set()),
    }
    for suf, (must, must_not) in table.items():
        r, par = e1.reach(lib, suf)
        if r is None:
            ctx.anchor_lost(rule, 'instance-graph root ' + suf, hard=True)
            continue
        paths = {e1.node_path(lib.graph['nodes'][x]) for x in par}
        for m in sorted(must):
            ctx.verdict(any(m in p for p in paths), rule, '%s:%s:reaches:%s' % (rule, suf, m.split('::')[-2]), 'the sampled method does reach its sampler (liveness floor: the rule cannot pass vacuously)', '',
                        '%d instances reached' % len(paths), breaks='the method no longer samples at all')
        for m in sorted(must_not):
            hit = [p for p in paths if m in p]
            ctx.verdict(not hit, rule, '%s:%s:never:%s' % (rule, suf, m.split('::')[-1]), 'the chance-sampled method never samples player actions', '', 'reached: %s' % hit[:2],
                        breaks='chance sampling also samples player actions')
    # (3) dispatch
    rule = 'C10.dispatch'
    f = ctx.fn('lib', 'Game::<I, A>::solve', rule)
    if f is not None:
        # decision table (method, one thread?) -> solver, by abstract interpretation of Game::solve with its helpers
        # inlined: independent of how the dispatch is spelled (== on NonZero, .get() == 1, match, split functions)
        import dispatch
        it = dispatch.solve_table(f)
        tab = {}
        for p_ in it.paths:
            tab.setdefault((p_.tokens.get('method'), p_.tokens.get('one')), set()).add(p_.sink)
        if it.overflow or not any(k[1] is not None and k[0] is not None for k in tab):
            ctx.anchor_lost(rule, 'Game::solve dispatch', 'paths: %d, overflow: %s, keys: %s' % (len(it.paths), it.overflow, sorted(tab, key=str)[:6]))
        else:
            for variant, stem in (('Full', 'solve_full'), ('Sampled', 'solve_sampled'), ('External', 'solve_external')):
                for one in (True, False):
                    want = stem + ('_single' if one else '_multi')
                    sinks = set(tab.get((variant, one), set()))
                    undecided = tab.get((variant, None), set())
                    solvers = {s_[0] for s_ in sinks if s_[0] is not None}
                    key = '%s:%s:%s' % (rule, variant, 'single' if one else 'multi')
                    if not solvers and undecided:
                        ctx.anchor_lost(rule, 'Game::solve: one-thread test for %s' % variant, 'the thread-count test was not recognised on these paths: %s' % sorted(undecided, key=str))
                        continue
                    ctx.verdict(solvers == {want}, rule, key, 'SolveMethod::X with one / many threads selects solve_x_single / solve_x_multi', f.where(0),
                                'SolveMethod::%s, threads==1 %s -> %s' % (variant, one, sorted(solvers)), breaks='a method name selects another algorithm')
    # (4) RNG confinement
    rule = 'C10.rng-confinement'
    callers = set()
    for g in lib.non_test_fns():
        for bi, t, p in g.calls():
            if t['callee'].get('krate') in e1.RNG_CRATES and short(p) in DRAWS:
                callers.add(q.top(g.name))
    allowed = set(sampling.SAMPLERS) | {"<solve::multinomial::Multinomial<'_> as rand_distr::Distribution<usize>>::sample"}
    extra = sorted(callers - allowed)
    ctx.verdict(not extra and set(sampling.SAMPLERS) <= callers, rule, rule + ':callers', 'functions of the rand family are called only from the two cached draw functions (and the categorical sampler they use)', '',
                'callers: %s; unexpected: %s' % (sorted(callers), extra), breaks='randomness outside the once-per-infoset-per-pass discipline')
    sampling.draw_once(ctx, 'C10')
    sampling.resets(ctx, 'C10')
    sampling.pass_structure(ctx, 'C10')
    sampling.index_provenance(ctx, 'C10')
    sampling.distributions(ctx, 'C10')
    invcdf.sampler_form(ctx, 'C10')
    anonymous_chance_unique(ctx)


def anonymous_chance_unique(ctx):
    """chance nodes declared without an infoset are independent: OptBuilder::entry(None) files each of them under a key
    of its own (the value of a counter of the builder that the same step advances), never under something computed
    from the node's content"""
    import facts
    import q
    from facts import strip_refs
    rule = 'C10.anonymous-chance-unique'
    lib = ctx.lib
    f = lib.one('compact::OptBuilder::<K, V>::entry')
    if f is None:
        ctx.anchor_lost(rule, 'compact::OptBuilder::entry')
        return
    ctx.touch(f)
    sites = q.calls_named(f, 'ok_or_else') + q.calls_named(f, 'unwrap_or_else') + q.calls_named(f, 'map_or_else')
    if not sites:
        ctx.anchor_lost(rule, 'OptBuilder::entry: the key made up for an entry without a name', 'no ok_or_else / unwrap_or_else on the optional key')
        return
    for bi, t, e in sites[:1]:
        cf, _ = q.closure_of(lib, e[2][-1] if short(e[1]) != 'map_or_else' else e[2][1])
        if cf is None:
            ctx.anchor_lost(rule, 'OptBuilder::entry: closure producing the key of a nameless entry')
            continue
        ctx.touch(cf)
        r = strip_refs(q.ret_expr(cf))
        # the counter: a captured place of the builder that this closure increments
        incs = [strip_refs(pl) for bj, st, pl, rhs in q.stores(cf)
                if strip_refs(rhs)[0] == 'bin' and strip_refs(rhs)[1] in ('Add', 'AddWithOverflow') and strip_refs(strip_refs(rhs)[2]) == strip_refs(pl) and facts.is_const(strip_refs(rhs)[3], 1)]
        from_counter = bool(incs) and any(r == c_ or q.find_sub(r, lambda x, c_=c_: strip_refs(x) == c_) is not None for c_ in incs)
        uses_other = [x for x in facts.walk(r) if x[0] == 'upvar' and not any(q.find_sub(c_, lambda y, x=x: y == x) is not None for c_ in incs)]
        ctx.verdict(from_counter and not uses_other, rule, rule, 'an entry without a name gets a key no other entry has: the value of the builder\'s counter, advanced by the same step', cf.where(0),
                    'key = %s; counter incremented in the same closure: %s; other captured inputs of the key: %s' % (facts.show(r)[:50], bool(incs), [facts.show(x) for x in uses_other] or 'none'),
                    breaks='independent anonymous chance nodes that look alike are merged into one chance infoset: the sampled methods draw once for all of them')
