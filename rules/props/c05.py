"""C05 — every solve returns a well-formed strategy profile and never panics."""
import divisions
import e1
import e9
import facts
import parallel
import q
import props.c02 as c02
from facts import norm, short, strip_refs, is_const

EXPLANATION = """
Totality over all games x parameter tuples is mostly about float magnitudes (NaN, overflow) and the
feasibility of individual unwraps; an inventory of panic sites would alarm on infeasible ones, so it
is reported in evidence only (S-rule). Decided on the MIR and the instance graph of the current tree:
(1) thread errors — every ThreadPoolBuilder::build result is propagated with `?`, the From impl maps
it to SolveError::ThreadSpawnError, the task target is computed with checked_mul and None becomes
SolveError::ThreadOverflow, and on the `threads == 1` edge of Game::solve no Err is constructible
(the three single-thread callees return SolveInfo, not Result); (2) no deadlock — the lock-order
graph over Mutex acquisition sites (guard live range x blocking acquisitions reachable while it is
held) has no cycle through distinct blocking sites; (3) the normalisations that produce the returned
probabilities are zero-guarded (division rule: avg_strat on the `norm == 0` false edge, regret_match
on `norm > 0`; unguarded divisors must be audited entries whose invariant another rule protects), the
zero-norm branch of avg_strat fills the uniform 1/len, and every returned strategy goes through
into_avg_strat; (4) each per-player bound is 2*max(.,0)/it summed (>= 0) and starts infinite
(C02 rules); (5) zero unsafe. Not decided: absence of panics in general (the try_lock().unwrap()
uniqueness argument — its structural premises are decided under C07 and C11), NaN / overflow
introduction (DESIGN D9, D10 are confirmed defects no sound rule in reach detects), termination of
the frontier loop.
"""
ASSUMPTIONS = ['std::sync::Mutex::lock blocks until the guard is released; try_lock never blocks', 'rayon ThreadPoolBuilder::build reports failures through its Result']
NOT_DECIDED = ['absence of panics in general', 'NaN / overflow introduction (D9, D10)', 'termination of the frontier expansion loop']


def run(ctx):
    lib = ctx.lib
    divisions.run(ctx, 'C05')
    # ---------------- (1) thread errors
    rule = 'C05.thread-errors'
    n = 0
    for f in lib.non_test_fns():
        for bi, t, p in f.calls():
            if short(p) == 'build' and 'ThreadPoolBuilder' in p:
                n += 1
                ctx.touch(f)
                lus = q.local_uses(f, t['dest']['l'])
                uses = [short(x['callee'].get('path') or '') for bj, kind, x in lus if kind == 'arg']
                PANICKY = {'unwrap', 'expect', 'unwrap_or', 'unwrap_or_else', 'unwrap_or_default', 'unwrap_unchecked', 'ok', 'is_ok', 'is_err', 'drop'}
                matched = any(kind == 'discr' for bj, kind, x in lus)      # `match pool { Ok(p) => p, Err(e) => return Err(e.into()) }`
                good = (uses == ['branch'] or (matched and not (set(uses) & PANICKY))) and not (set(uses) & PANICKY)
                ctx.verdict(good, rule, '%s:build-propagated:%s' % (rule, q.top(f.name)), 'the result of ThreadPoolBuilder::build is propagated (`?` or an explicit match), never unwrapped or discarded', f.where(bi), 'consumed by %s%s' % (uses, ' and matched on' if matched else ''),
                            breaks='a failure to spawn threads panics instead of returning SolveError::ThreadSpawnError')
    if n < 2:
        ctx.anchor_lost(rule, 'ThreadPoolBuilder::build call sites', 'found %d of 2' % n)
    f = ctx.fn('lib', '<error::SolveError as std::convert::From<rayon::ThreadPoolBuildError>>::from', rule)
    if f is not None:
        r = strip_refs(q.ret_expr(f))
        ctx.verdict(r[0] == 'agg' and r[1].endswith('SolveError::ThreadSpawnError'), rule, rule + ':from-impl', 'ThreadPoolBuildError converts to SolveError::ThreadSpawnError', f.where(0), 'returns %s' % facts.show(r))
    s = ctx.fn('lib', 'Game::<I, A>::solve', rule)
    if s is not None:
        cm = q.calls_named(s, 'checked_mul')
        ok = False
        for bi, t, e in cm:
            for bj, tt, ee in q.calls_named(s, 'ok_or'):
                if strip_refs(ee[2][0]) == e and strip_refs(ee[2][1])[0] == 'agg' and strip_refs(ee[2][1])[1].endswith('SolveError::ThreadOverflow'):
                    uses = [short(x['callee'].get('path') or '') for bk, kind, x in q.local_uses(s, tt['dest']['l']) if kind == 'arg']
                    ok = uses == ['branch']
        if not ok and cm:
            # other spellings: ThreadOverflow built on the None edge of the checked_mul result, or ok_or applied to a
            # value derived from it (e.g. through a small constructor of a thread-info struct)
            def from_cm(x, depth=0):
                x = strip_refs(x)
                if q.find_sub(x, lambda y: q.is_call(y, 'checked_mul')) is not None:
                    return True
                if x[0] in ('var',) and depth < 3:
                    return any(from_cm(v, depth + 1) for _, _, v in q.multi_def_values(s, x[1]))
                return any(from_cm(y, depth + 1) for y in facts.walk(x) if y is not x and y[0] == 'var') if depth < 3 else False
            for bj, st, e in q.agg_sites(s, 'error::SolveError', 'ThreadOverflow'):
                if any(c['kind'] == 'variant' and c['variants'] == ['None'] and from_cm(c['a']) for c in s.conds(bj)):
                    ok = True
            # `.ok_or(SolveError::ThreadOverflow)` lowered to its match: Err(ThreadOverflow) built on the None edge
            for bj, st, e in q.agg_sites(s, 'result::Result', 'Err'):
                pay = strip_refs(e[2][0]) if e[2] else None
                if pay is not None and pay[0] == 'agg' and pay[1].endswith('SolveError::ThreadOverflow') and \
                        any(c['kind'] == 'variant' and c['variants'] == ['None'] and from_cm(c['a']) for c in s.conds(bj)):
                    # ... and that Err is what the function returns (through `?` or directly), not something it recovers from
                    dl = st['pl']['l']
                    uses = [(kind, short(x['callee'].get('path') or '') if kind == 'arg' else '') for bk, kind, x in q.local_uses(s, dl)]
                    ok = ok or dl == 0 or all(u in (('arg', 'branch'), ('arg', 'from_residual'), ('discr', ''), ('stmt', '')) for u in uses)
            for bj, tt, ee in q.calls_named(s, 'ok_or'):
                if from_cm(ee[2][0]) and strip_refs(ee[2][1])[0] == 'agg' and strip_refs(ee[2][1])[1].endswith('SolveError::ThreadOverflow'):
                    uses = [short(x['callee'].get('path') or '') for bk, kind, x in q.local_uses(s, tt['dest']['l']) if kind == 'arg']
                    ok = ok or uses == ['branch'] or any(kind == 'discr' for bk, kind, x in q.local_uses(s, tt['dest']['l']))
        ctx.verdict(ok, rule, rule + ':target-overflow', 'the task target is threads.checked_mul(3), and None is returned as SolveError::ThreadOverflow through `?`', s.where(cm[0][0]) if cm else s.where(0), 'found: %s' % ok,
                    breaks='a huge thread count overflows (panic or wrap) instead of the documented error')
        # one thread: no Err constructible — every path of the decision table with threads == 1 returns Ok
        import dispatch
        it = dispatch.solve_table(s)
        ones = [p_ for p_ in it.paths if p_.tokens.get('one') is True]
        unknown = [p_ for p_ in it.paths if p_.tokens.get('one') is None and p_.sink[0] is not None]
        if it.overflow or not ones or unknown:
            ctx.anchor_lost(rule, 'Game::solve: paths with threads == 1', 'paths with the one-thread test recognised: %d; without: %d' % (len(ones), len(unknown)))
        else:
            bad_ = sorted({p_.sink for p_ in ones if p_.sink[1] != 'Ok' or not str(p_.sink[0]).endswith('_single')}, key=str)
            maybe = [x for x in bad_ if x[1] == '?' and str(x[0]).endswith('_single')]
            if bad_ and len(maybe) == len(bad_):
                ctx.anchor_lost(rule, 'Game::solve: value returned with threads == 1', 'returned variant not determined: %s' % maybe)
            else:
                ctx.verdict(not bad_, rule, rule + ':one-thread-infallible', 'with `threads == 1` every path runs a single-thread solver and returns Ok: no error can be constructed', s.where(0),
                            '%d paths with threads == 1; other outcomes: %s' % (len(ones), bad_), breaks='solving with one thread can return an error')
        # thread count: zero selects available parallelism, falling back to one
        th_ok = any(short(p) == 'available_parallelism' for g in [s] + lib.closures_of(s) for _, _, p in g.calls())
        ctx.verdict(th_ok, rule, rule + ':zero-means-available', 'num_threads = 0 selects thread::available_parallelism (falling back to one thread)', s.where(0), 'found: %s' % th_ok)
    # ---------------- (2) lock order
    rule = 'C05.lock-order'
    sites = e9.lock_sites(lib)
    g = lib.graph
    edges = []
    site_fn = {}
    for f, bi, kind, t in sites:
        site_fn[(f.name, bi)] = kind
    lock_fns = {f.name: kind for f, bi, kind, t in sites}
    for f, bi, kind, t in sites:
        ctx.touch(f)
        calls, found = e9.held_calls(f, bi)
        # functions reachable from the calls made while the guard is held
        reach_paths = set()
        starts = [i for i, nname in enumerate(g['nodes']) if e1.node_path(nname) == f.name]
        held_callees = {(tt['callee'].get('path') or tt['callee'].get('def') or '') for bj, tt in calls}
        acquired = set()
        for s_ in starts:
            for b_, line, k in lib.adj.get(s_, []):
                pth = e1.node_path(g['nodes'][b_])
                if pth in held_callees or any(pth.endswith(short(h)) for h in held_callees if h):
                    par = lib.reach_from(b_)
                    for x in par:
                        px = e1.node_path(g['nodes'][x])
                        if px in lock_fns and px != f.name:
                            acquired.add(px)
                        elif px == f.name and x != s_:
                            acquired.add(px)
        for a in sorted(acquired):
            edges.append((f.name, kind, a, lock_fns[a]))
        ctx.ok(rule, '%s:site:%s' % (rule, f.name), 'acquisition site inventory', f.where(bi), '%s; guard live range identified: %s; acquisition sites reachable while held: %s' % (kind, found, sorted(acquired) or 'none (leaf critical section)'))
    # cycle through distinct blocking sites
    adj = {}
    for a, ka, b, kb in edges:
        if kb == 'lock' and a != b:
            adj.setdefault(a, set()).add(b)
    cyc = None
    def dfs(x, stack, seen):
        nonlocal cyc
        for y in adj.get(x, ()):
            if y in stack:
                cyc = stack[stack.index(y):] + [y]
                return
            if y not in seen:
                seen.add(y)
                dfs(y, stack + [y], seen)
    for a in adj:
        dfs(a, [a], {a})
    if cyc is None and 0 < len(sites) < 5:
        ctx.anchor_lost(rule, 'the five Mutex acquisition sites of the reference tree', 'found %d (wrappers merged): no cycle among them' % len(sites))
    else:
      ctx.verdict(cyc is None and len(sites) >= 5, rule, rule + ':acyclic', 'no cycle of blocking Mutex acquisitions across distinct sites (a held guard never waits for a lock whose holder can wait for it)', '',
                '%d acquisition sites, %d held-while-acquiring edges: %s; cycle: %s' % (len(sites), len(edges), [(a.split('::')[-2:], ka, '->', b.split('::')[-2:], kb) for a, ka, b, kb in edges][:6], cyc),
                breaks='two workers can deadlock')
    # ---------------- (3) uniform fallback and avg strat everywhere
    rule = 'C05.normalised-output'
    f = ctx.fn('lib', 'solve::data::avg_strat', rule)
    if f is not None:
        fills = q.calls_named(f, 'fill')
        ok = False
        for bi, t, e in fills:
            v = strip_refs(e[2][1])
            zero_edge = any(c['kind'] == 'Eq' and c['truth'] is True and is_const(c['b'], 0) and q.is_call(strip_refs(c['a']), 'sum') for c in f.conds(bi))
            ok = v[0] == 'bin' and v[1] == 'Div' and is_const(v[2], 1) and zero_edge and norm(e[2][0]) == ('param', 1, f.local_name(1))
        # on the other edge every entry is *divided* by the sum (x * (1/sum) is not the same function: 1/sum overflows
        # for a subnormal sum, and rounds differently)
        divs_ = []
        recips_ = []
        for bi, st, pl, rhs in q.stores(f):
            rr = strip_refs(rhs)
            if rr[0] == 'bin' and rr[1] == 'Div' and norm(rr[2]) == norm(pl) and q.is_call(strip_refs(rr[3]), 'sum'):
                divs_.append(bi)
            if rr[0] == 'bin' and rr[1] == 'Mul' and norm(rr[2]) == norm(pl) and q.find_sub(rr[3], lambda x: q.is_call(x, 'recip') or (x[0] == 'bin' and x[1] == 'Div' and is_const(x[2], 1))) is not None:
                recips_.append(bi)
        if divs_ or recips_:
            ctx.verdict(bool(divs_) and not recips_, rule, rule + ':divides-by-sum', 'an infoset with accumulated mass is normalised by dividing every entry by the sum of the slice', f.where((divs_ or recips_)[0]),
                        '%d entry / sum store(s); %d entry * reciprocal store(s)' % (len(divs_), len(recips_)), breaks='a tiny (subnormal) accumulated mass turns into inf / NaN probabilities through 1/sum')
        else:
            ctx.anchor_lost(rule, 'avg_strat: normalising store')
        ctx.verdict(ok, rule, rule + ':uniform-on-zero', 'an infoset that accumulated nothing gets the uniform distribution 1/len (on the `norm == 0` edge)', f.where(0), 'found: %s' % ok, breaks='never-visited infosets are returned as all-zero (or NaN) vectors')
    n = 0
    for g_ in lib.non_test_fns():
        if g_.is_closure or not g_.name.startswith(('solve::vanilla::solve_generic', 'solve::external::solve_external')):
            continue
        n += 1
        cl = lib.closures_of(g_)
        has = any(short(p) == 'into_avg_strat' for c in cl + [g_] for _, _, p in c.calls()) or \
            any(x[0] == 'fn' and short(x[1]) == 'into_avg_strat' for c in cl + [g_] for bi, t, p in c.calls() for x in facts.walk(c.call_expr(t, bi)))    # passed as a method reference
        fm = any(short(p) == 'flat_map' for c in cl + [g_] for _, _, p in c.calls())
        ctx.touch(g_)
        ctx.verdict(has and fm, rule, '%s:avg-strat:%s' % (rule, g_.name), 'every infoset\'s returned probabilities are its normalised average strategy (flat_map over all infosets of into_avg_strat)', g_.where(0), 'into_avg_strat: %s, flat_map: %s' % (has, fm))
    if n < 4:
        ctx.anchor_lost(rule, 'solver entry functions', 'found %d of 4' % n)
    for suf in ('solve::data::RegretInfoset::into_avg_strat', 'solve::vanilla::MutexRegretInfoset::into_avg_strat'):
        f = ctx.fn('lib', suf, rule)
        if f is None:
            continue
        av = q.calls_named(f, 'avg_strat')
        r = q.ret_expr(f)
        # the cumulative strategy is the field the sibling update_cum_strat accumulates into (robust to renaming)
        ty_ = suf.rsplit('::', 1)[0]
        written = set()
        for n_, u in lib.fns.items():
            if n_.endswith('::update_cum_strat') and ('<%s as ' % ty_) in n_:
                for bi, st, pl, rhs in q.stores(u):
                    for x in facts.walk(pl):
                        if x[0] == 'field' and strip_refs(x[1])[0] == 'param' and strip_refs(x[1])[1] == 1:
                            written.add(x[2])
        written = written or {'cum_strat'}
        on_cum = bool(av) and any(x[0] == 'field' and x[2] in written for x in facts.walk(av[0][2][2][0]))
        ctx.verdict(on_cum, rule, '%s:normalises-cum-strat:%s' % (rule, suf.split('::')[-2]), 'into_avg_strat normalises and returns the cumulative strategy', f.where(0), 'avg_strat(cum_strat): %s' % on_cum)
    # ---------------- (4) bounds
    c02.bound_form(ctx, 'C05.bound-nonnegative')
    # ---------------- (5) unsafe
    parallel.no_unsafe(ctx, 'C05')
    # ---------------- panic inventory (evidence only)
    r, par = e1.reach(lib, 'Game::<I, A>::solve')
    if r is not None:
        local = e1.local_nodes(lib, par)
        sites_p = []
        for pth in sorted(local):
            fn = lib.fns[pth]
            for bi, t, p in fn.calls():
                if short(p) in ('unwrap', 'expect') or (t['to'] < 0 and short(p).startswith('panic')):
                    if not t.get('exp') or short(p) in ('unwrap', 'expect'):
                        sites_p.append('%s %s' % (fn.where(bi), short(p)))
        ctx.sres(False, 'C05.panic-inventory', 'C05.panic-inventory', 'inventory of unwrap / expect / panic sites reachable from Game::solve in this crate (feasibility of each is not decided; never an alarm)', '',
                 '%d sites in %d local functions: %s' % (len(sites_p), len(local), sites_p[:12]))
