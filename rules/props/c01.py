"""C01 — reported utility and regret of any strategy profile are exact."""
import divisions
import e2
import e4
import facts
import q
from facts import norm, short, strip_refs, is_const

EXPLANATION = """
The core of the statement — that the bottom-up best-response bookkeeping computes the true
best-response value on every perfect-recall tree — is a functional-correctness theorem about a graph
algorithm and is not decided. Decided (MIR of the current tree; E4 forms specialised per PlayerNum /
const-generic context, E2 guards, E10 player tags) are the clauses of the statement and the structural
conditions the traversals need, each necessary: (1) StrategiesInfo::player_utility is +util for One
and -util for Two; regret() is f64::max of both slots; (2) regret::regret returns [PosPart(BR1 - E),
PosPart(BR2 + E)] with E the value of expected() and BRp the value of optimal_deviations for player
p, and the sign of E in slot p is opposite to the sign with which a terminal payoff enters
next_infoset_search::<p> (+payoff*reach for true, -payoff*reach for false), while expected()
accumulates +reach*payoff; (3) reach propagation in expected, optimal_deviations and
next_infoset_search — the weight pushed for a child is parent weight * edge probability at chance
nodes and at nodes of the player whose strategy is fixed, parent weight at the deviating player's own
nodes, and the probabilities come from the table entry indexed by the same node's `.infoset`;
(4) below a fixed-strategy node children are pushed only under the strict `prob > 0.0`; (5) the
deviating role is (One, true) | (Two, false) in every traversal; (6) E10 — optimal_deviations::<true>
gets player_info[0] and strat_info[1], ::<false> gets [1] and [0]; get_info pairs each player's
probabilities with that player's infoset table; (7) an infoset's value is the f64::max reduction of
its per-action payoffs divided by its total reach, each payoff accumulating continuation * reach of
the node (division audited against (4)).
"""
ASSUMPTIONS = ['perfect recall of accepted games (C11) — needed by the leaves-first resolution of infosets',
               'Vec::push / pop implement a stack (any traversal order visits the same nodes)']
NOT_DECIDED = ['that the leaves-first resolution computes the best response on every tree (an inductive invariant over infoset forests)', 'rounding']

TRAVERSALS = ['regret::expected', 'regret::optimal_deviations', 'regret::next_infoset_search']


def role_ctx(c):
    """context selector for the deviating / fixed role of a player node: the PlayerNum switch, the
    const-generic switch, or the combined test `(node.num == PlayerNum::X) == PLAYER_ONE`"""
    r = q.player_ctx(c)
    if r is not None:
        return r
    if c['kind'] == 'Eq' and c.get('b') is not None:
        for x, y in ((c['a'], c['b']), (c['b'], c['a'])):
            xs, ys = strip_refs(x), strip_refs(y)
            if ys[0] == 'cparam' and xs[0] == 'call' and short(xs[1]) == 'eq' and len(xs[2]) == 2:
                sides = [strip_refs(z) for z in xs[2]]
                const = [z for z in sides if z[0] == 'agg' and 'PlayerNum::' in z[1]]
                num = [z for z in sides if z[0] == 'field' and z[2] == 'num']
                if len(const) == 1 and len(num) == 1:
                    is_one = const[0][1].split('PlayerNum::')[-1].startswith('One')
                    # (num == One) == P on the true edge  <=>  deviating ; with Two the roles flip
                    return ('role', c['truth'] == is_one)
    return None


def role_ctx_for(f):
    """role_ctx, plus the form `node.num == deviator` where `deviator` is a PlayerNum chosen by the const parameter
    (`if PLAYER_ONE { One } else { Two }`, possibly returned by a spliced helper): equal means deviating"""
    def want(c):
        r = role_ctx(c)
        if r is not None:
            return r
        if c['kind'] == 'Eq' and c.get('b') is not None and c.get('truth') is not None:
            for x, y in ((c['a'], c['b']), (c['b'], c['a'])):
                xs, ys = strip_refs(x), strip_refs(y)
                if not (xs[0] == 'field' and xs[2] == 'num') or ys[0] != 'var':
                    continue
                sel = {}
                for bi, cs, v in q.multi_def_values(f, ys[1]):
                    v = strip_refs(v)
                    first = [cc for cc in cs if cc['kind'] == 'bool' and cc['a'][0] == 'cparam']
                    if v[0] == 'agg' and 'PlayerNum::' in v[1] and first:
                        sel[first[-1]['truth']] = v[1].split('PlayerNum::')[-1]
                if sel == {True: 'One', False: 'Two'}:
                    return ('role', c['truth'])
                if sel == {True: 'Two', False: 'One'}:
                    return ('role', not c['truth'])
        return None
    return want


def roles_of(cxs):
    out = set()
    for c in cxs:
        if 'role' in c:
            out.add(c['role'])
        elif 'num' in c and 'PLAYER_ONE' in c:
            out.add((c.get('num') == 'One') == (c.get('PLAYER_ONE') is True))
    return out


def dev_fields(lib):
    """field names of the per-infoset deviation record by role (robust to renaming): the list of reached
    nodes with their reach, the pending-descendant counter and the best continuation value"""
    for name, adt in lib.adts.items():
        if not name.startswith('regret::') or len(adt) != 1:
            continue
        fs, tys = adt[0].get('fields', []), adt[0].get('ftys', [])
        role = {}
        for fn_, ty in zip(fs, tys):
            if ty.startswith(('std::vec::Vec<', 'Vec<')) and ('f64' in ty or any(n2.split('::')[-1] in ty and 'f64' in (a2[0].get('ftys') or []) for n2, a2 in lib.adts.items() if n2.startswith('regret::') and len(a2) == 1)):
                role['nodes'] = fn_       # the registered nodes with their reach: pairs, or a small private struct
            elif ty == 'f64':
                role['value'] = fn_
            elif ty == 'usize':
                role['pending'] = fn_
        if len(role) == 3:
            return role
    return {'nodes': 'prob_nodes', 'value': 'max_utility', 'pending': 'future_nodes'}


class Pops(list):
    """the pop() calls of a traversal (work stack, and possibly other stacks); an item is 'the popped
    item' when it derives from any of them"""


def same_call(a, b):
    if isinstance(b, Pops):
        return a[0] == 'call' and any(x[0] == 'call' and a[3] == x[3] for x in b)
    return a[0] == 'call' and b is not None and b[0] == 'call' and a[3] == b[3]


def pop_item(f):
    """the (node, reach) items popped from work stacks: expressions of `pop(queue)`"""
    out = Pops(e for bi, t, e in q.calls_named(f, 'pop'))
    return out if out else None


def weight_fields(lib):
    """names under which the weight component of a work item is read: `.1` of the (node, reach) tuple, or the f64
    field of a private two-field struct of the module that took the tuple's place"""
    out = {'1'}
    for name, adt in lib.adts.items():
        if name.startswith('regret::') and len(adt) == 1:
            fs, tys = adt[0].get('fields', []), adt[0].get('ftys', [])
            if len(fs) == 2 and sorted(ty == 'f64' for ty in tys) == [False, True] and any('Node' in ty for ty in tys):
                out.add(fs[tys.index('f64')])
    return out


def item_parts(lib, item):
    """(node expression, weight expression) of a pushed work item: a pair, or a two-field struct with one f64"""
    item = strip_refs(item)
    if item[0] != 'agg' or len(item[2]) != 2:
        return None
    if item[1] == 'tuple':
        return item[2][0], item[2][1]
    if item[1].startswith('adt:'):
        path = item[1][4:].rsplit('::', 1)[0]
        adt = lib.adts.get(path)
        if adt and len(adt) == 1:
            tys = adt[0].get('ftys', [])
            if len(tys) == 2 and sorted(ty == 'f64' for ty in tys) == [False, True]:
                i = tys.index('f64')
                return item[2][1 - i], item[2][i]
    return None


WEIGHT_FIELDS = {'1'}


def classify_weight(f, w, popped):
    """describe a pushed weight: set of factor kinds"""
    p = e4.try_poly(w)
    if p is None or len(p) != 1 or list(p.values()) != [1.0]:
        return None, None
    kinds = []
    probsrc = None
    for a in list(p)[0]:
        if a[0] != 'val':
            kinds.append('?')
            continue
        x = a[1]
        if q.find_sub(x, lambda s: same_call(s, popped)) is not None and strip_refs(x)[0] == 'field' and strip_refs(x)[2] in WEIGHT_FIELDS:
            kinds.append('reach')
        else:
            c = q.elem_of(x)
            if c is not None:
                kinds.append('prob')
                probsrc = c
            else:
                kinds.append('?')
    return sorted(kinds), probsrc


def run(ctx):
    lib = ctx.lib
    WEIGHT_FIELDS.clear()
    WEIGHT_FIELDS.update(weight_fields(lib))
    divisions.run(ctx, 'C01')
    # ---------------- (1) accessors
    rule = 'C01.accessors'
    def self_path(x):
        # `self.a.b` (through references): 'a.b'
        names = []
        x = strip_refs(x)
        while x[0] == 'field':
            names.append(str(x[2]))
            x = strip_refs(x[1])
        return '.'.join(reversed(names)) if names and x[0] == 'param' and x[1] == 1 else None
    upaths = set()
    f = ctx.fn('lib', 'StrategiesInfo::player_utility', rule)
    if f is not None:
        d = {}
        for bi, cs, v in q.multi_def_values(f, 0):
            pl = [c for c in cs if c['kind'] == 'variant' and len(c['variants']) == 1]
            p = e4.try_poly(v)
            if pl and p is not None and len(p) == 1:
                (mono, c), = p.items()
                sp_ = self_path(mono[0][1]) if len(mono) == 1 and mono[0][0] == 'val' else None
                d[pl[-1]['variants'][0]] = c if sp_ is not None else None
                if sp_ is not None:
                    upaths.add(sp_)
        # one stored value (whichever field path of self holds it: which one is the utility is C01.get-info-wiring), +1 / -1
        ctx.verdict(d == {'One': 1.0, 'Two': -1.0} and len(upaths) == 1, rule, rule + ':player_utility', 'player one\'s utility is +util and player two\'s is its negation', f.where(0), 'coefficients: %s of self.%s' % (d, ' / self.'.join(sorted(upaths))), breaks='player two\'s reported utility has the wrong sign')
    util_field = next(iter(upaths)) if len(upaths) == 1 else 'util'
    regret_slots = None      # how the two regrets are stored: ('array', field) or ('fields', {names})
    # player_regret() selecting from the stored pair: by PlayerNum::ind, or by a match on the player number
    pr_sel, pr_field = {}, None
    g = lib.one('StrategiesInfo::player_regret')
    if g is not None:
        r = strip_refs(q.ret_expr(g))
        if q.is_call(r, 'ind') and len(r[2]) == 2 and strip_refs(r[2][0])[0] == 'param':
            fl = q.find_sub(r[2][1], lambda x: x[0] == 'field' and strip_refs(x[1])[0] == 'param')
            pr_field = fl[2] if fl is not None else None
        else:
            for bi, cs, v in q.multi_def_values(g, 0):
                pl = [c for c in cs if c['kind'] == 'variant' and len(c['variants']) == 1 and c['variants'][0] in ('One', 'Two')]
                v = strip_refs(v)
                if pl and v[0] == 'cidx' and strip_refs(v[1])[0] == 'field' and strip_refs(strip_refs(v[1])[1])[0] == 'param':
                    pr_sel[pl[-1]['variants'][0]] = (strip_refs(v[1])[2], v[2])
            if set(pr_sel) == {'One', 'Two'} and len({x[0] for x in pr_sel.values()}) == 1 and {x[1] for x in pr_sel.values()} == {0, 1}:
                pr_field = pr_sel['One'][0]
            else:
                pr_sel = {}
    f = ctx.fn('lib', 'StrategiesInfo::regret', rule)
    if f is not None:
        r = strip_refs(q.ret_expr(f))
        ok = q.is_call(r, 'max') and 'f64' in r[1] and len(r[2]) == 2
        if ok:
            args = [strip_refs(a) for a in r[2]]
            via = [a for a in args if q.is_call(a, 'player_regret') and len(a[2]) == 2 and strip_refs(a[2][0])[0] == 'param'
                   and strip_refs(a[2][1])[0] == 'agg' and strip_refs(a[2][1])[1] in ('adt:PlayerNum::One', 'adt:PlayerNum::Two')]
            if len(via) == 2 and {strip_refs(a[2][1])[1] for a in via} == {'adt:PlayerNum::One', 'adt:PlayerNum::Two'} and pr_field is not None:
                # max(self.player_regret(One), self.player_regret(Two)): the stored pair, read through the accessor
                regret_slots = ('array', pr_field)
            elif {tuple(sorted(q.tags(a))) for a in args} == {(0,), (1,)} and all(a[0] in ('cidx', 'index') and strip_refs(a[1])[0] == 'field' for a in args) and len({strip_refs(a[1])[2] for a in args}) == 1:
                regret_slots = ('array', strip_refs(args[0][1])[2])
            elif all(self_path(a) is not None for a in args) and len({self_path(a) for a in args}) == 2 and util_field not in {self_path(a) for a in args}:
                regret_slots = ('fields', {self_path(a) for a in args})
            ok = regret_slots is not None
        ctx.verdict(ok, rule, rule + ':regret-is-max', 'the total regret is f64::max of the two players\' regrets', f.where(0), 'returns %s' % facts.show(r)[:70], breaks='the total regret is not the larger of the two')
    f = ctx.fn('lib', 'StrategiesInfo::player_regret', rule)
    if f is not None:
        r = strip_refs(q.ret_expr(f))
        if q.is_call(r, 'ind'):
            ctx.verdict(strip_refs(r[2][0])[0] == 'param' and regret_slots is not None and regret_slots[0] == 'array' and q.find_sub(r[2][1], lambda x: x[0] == 'field' and x[2] == regret_slots[1]) is not None, rule, rule + ':player_regret',
                        'a player\'s regret is selected by that player\'s number', f.where(0), 'returns %s' % facts.show(r)[:60])
        else:
            # one stored value per player, selected by a match on the player number
            sel = {}
            for bi, cs, v in q.multi_def_values(f, 0):
                pl = [c for c in cs if c['kind'] == 'variant' and len(c['variants']) == 1 and c['variants'][0] in ('One', 'Two')]
                v = strip_refs(v)
                if pl and self_path(v) is not None:
                    sel[pl[-1]['variants'][0]] = self_path(v)
            if pr_sel and regret_slots is not None and regret_slots == ('array', pr_field):
                # a match on the player number over the stored pair: position k is player k+1 (C01.regret-form)
                good = pr_sel['One'][1] == 0 and pr_sel['Two'][1] == 1
                ctx.verdict(good, rule, rule + ':player_regret', 'a player\'s regret is selected by that player\'s number', f.where(0),
                            'One -> .%s[%d], Two -> .%s[%d]' % (pr_sel['One'] + pr_sel['Two']), breaks='each player is reported the other player\'s regret')
            elif regret_slots is not None and regret_slots[0] == 'fields' and set(sel) == {'One', 'Two'} and set(sel.values()) == regret_slots[1]:
                ctx.ok(rule, rule + ':player_regret', 'a player\'s regret is selected by that player\'s number', f.where(0), 'One -> .%s, Two -> .%s (the two stored regrets, one each)' % (sel['One'], sel['Two']))
                ctx.anchor_lost(rule, 'StrategiesInfo: which stored regret belongs to which player', 'per-player fields instead of the pair: the field <-> player correspondence through regret() is not followed')
            else:
                ctx.anchor_lost(rule, 'StrategiesInfo::player_regret: selection by player number', 'returns %s' % facts.show(r)[:60])

    # ---------------- (2) regret(): forms and sign agreement
    rule = 'C01.regret-form'
    f = lib.one('regret::regret')
    spliced = None
    if f is None:
        # renamed with a reshaped result (no alias: the signature changed), hence spliced into its caller by the
        # normalisation: the one function that calls expected() and the best-response search and builds the
        # StrategiesInfo from them
        cands = [g for g in lib.non_test_fns() if '{closure' not in g.name and q.calls_named(g, 'expected') and q.calls_named(g, 'optimal_deviations')
                 and list(q.struct_sites(g, 'StrategiesInfo'))]
        if len(cands) == 1:
            sites = list(q.struct_sites(cands[0], 'StrategiesInfo'))
            if len(sites) == 1 and set(sites[0][2]) == {'util', 'regrets'}:
                f = cands[0]
                spliced = ('agg', 'tuple', [sites[0][2]['util'], sites[0][2]['regrets']], None)
    if f is None:
        f = ctx.fn('lib', 'regret::regret', rule)
    else:
        ctx.touch(f)
    ev_name = 'regret'
    ret_roles = {}
    sign_in_slot = {}
    if f is not None:
        r = strip_refs(q.ret_expr(f)) if spliced is None else spliced
        comps = [strip_refs(x) for x in r[2]] if r[0] == 'agg' and (r[1] == 'tuple' or r[1].startswith('adt:')) else []
        exp_calls = [x for x in comps if q.is_call(x, 'expected')]
        exp_call = exp_calls[0] if len(exp_calls) == 1 else None
        # which component of the result is what (by position, and by field name for a named result type)
        fnames = []
        if r[0] == 'agg' and r[1].startswith('adt:'):
            adt = lib.adts.get(r[1][4:].split('<')[0]) or lib.adts.get(r[1][4:])
            if adt and len(adt) >= 1 and len(adt[0].get('fields', [])) == len(comps):
                fnames = list(adt[0]['fields'])
        for i_, x in enumerate(comps):
            role = 'util' if x is exp_call else 'regrets' if (x[0] == 'agg' and x[1] == 'array' and len(x[2]) == 2) else None
            if role:
                ret_roles[str(i_)] = role
                if fnames:
                    ret_roles[fnames[i_]] = role
        ctx.verdict(exp_call is not None, rule, rule + ':utility-is-expected', 'the reported utility is the value of expected()', f.where(0), 'components %s' % [facts.show(x)[:30] for x in comps])
        arrs = [x for x in comps if x[0] == 'agg' and x[1] == 'array' and len(x[2]) == 2]
        if exp_call is not None and len(comps) == 2 and len(arrs) == 1:
            slots = list(enumerate(arrs[0][2]))          # the pair: position k is player k+1
        elif exp_call is not None and len(comps) == 3:
            slots = [(None, x) for x in comps if x is not exp_call]     # one scalar per player: told apart by content
        else:
            slots = None
        if slots is not None:
            seen_inst = set()
            for k0, el in slots:
                p = e4.try_poly(el)
                good = False
                detail = e4.show_poly(p)
                k = k0
                if p is not None and len(p) == 1 and list(p.values()) == [1.0] and len(list(p)[0]) == 1 and list(p)[0][0][0] == 'PosPart':
                    inner = dict(list(p)[0][0][1])
                    br = [(m, c) for m, c in inner.items() if any(a[0] == 'val' and q.is_call(a[1], 'optimal_deviations') for a in m)]
                    ex = [(m, c) for m, c in inner.items() if any(a[0] == 'val' and same_call(a[1], exp_call) for a in m)]
                    if len(inner) == 2 and len(br) == 1 and len(ex) == 1 and br[0][1] == 1.0 and abs(ex[0][1]) == 1.0:
                        brc = br[0][0][0][1]
                        # which instantiation of optimal_deviations
                        site = brc[3]
                        t = f.blocks[site[1]]['term']
                        cargs = [a for a in t['callee'].get('args', []) if a in ('true', 'false')]
                        inst = cargs[0] if cargs else '?'
                        if k is None and inst in ('true', 'false') and inst not in seen_inst:
                            k = 0 if inst == 'true' else 1
                        seen_inst.add(inst)
                        if k is not None:
                            sign_in_slot[k] = (inst, ex[0][1])
                            want_inst = 'true' if k == 0 else 'false'
                            tags_ok = q.tags(brc[2][2]) == {k} and q.tags(brc[2][3]) == {1 - k}
                            good = inst == want_inst and tags_ok and ex[0][1] == (-1.0 if k == 0 else 1.0)
                            detail = 'slot %d = PosPart(optimal_deviations::<%s>(player_info%s, strat_info%s) %+g*expected)' % (k, inst, sorted(q.tags(brc[2][2])), sorted(q.tags(brc[2][3])), ex[0][1])
                if k is None:
                    k = len(sign_in_slot) if len(sign_in_slot) < 2 else 1
                if not good and lib.one('regret::optimal_deviations') is None:
                    # the best-response search is no longer a function of that name (moved into a method of a new type,
                    # spliced in here): the slot's form cannot be matched against it
                    ctx.anchor_lost(rule, 'regret(): best-response term of slot %d' % k, 'optimal_deviations is gone; slot = %s' % (detail or '')[:80])
                    continue
                ctx.verdict(good, rule, '%s:slot-%d' % (rule, k),
                            'regret of player %d is max(best response value of that player (own infoset table, *other* player\'s strategy) %s expected, 0)' % (k + 1, '-' if k == 0 else '+'), f.where(0), detail,
                            breaks='a player\'s regret is computed against the wrong strategy / with the wrong sign, or can be negative')
        else:
            ctx.anchor_lost(rule, 'regret(): result of the form (expected, [r1, r2])', 'components %s' % [facts.show(x)[:30] for x in comps])
    # terminal signs in the searches
    rule = 'C01.sign-consistency'
    g = ctx.fn('lib', 'regret::next_infoset_search', rule)
    term_sign = {}
    if g is not None:
        popped = pop_item(g)
        for l, ds in g.defs.items():
            if g.locals[l]['ty'] != 'f64' or not g.local_name(l):
                continue
            for d in ds:
                if d[0] != 'assign':
                    continue
                u = strip_refs(g.rvalue_expr(d[3], d[1]))
                if u[0] == 'bin' and u[1] in ('Add', 'Sub') and norm(u[2]) == ('var', l, g.local_name(l)):
                    cs = g.conds(d[1])
                    if any(c['kind'] == 'variant' and c['variants'] == ['Terminal'] for c in cs):
                        first = [c for c in cs if c['kind'] == 'bool' and c['a'][0] == 'cparam']
                        p = e4.try_poly(u[3])
                        form_ok = p is not None and len(p) == 1 and list(p.values()) == [1.0] and len(list(p)[0]) == 2
                        if first and form_ok:
                            term_sign['true' if first[-1]['truth'] else 'false'] = 1.0 if u[1] == 'Add' else -1.0
        no_stack = popped is None and not term_sign
        if no_stack:
            ctx.anchor_lost(rule, 'next_infoset_search: terminal contribution of the stack-driven search', 'no work stack is popped in this function (another traversal style)')
        else:
          ctx.verdict(term_sign == {'true': 1.0, 'false': -1.0}, rule, rule + ':terminal-contribution', 'a terminal contributes +payoff*reach to player one\'s continuation value and -payoff*reach to player two\'s', g.where(0), 'signs: %s' % term_sign,
                    breaks='best-response values are those of the wrong player')
        agree = bool(sign_in_slot) and all(term_sign.get(inst) == -s for inst, s in sign_in_slot.values())
        if (not sign_in_slot and f is None) or no_stack:
            ctx.anchor_lost(rule, 'regret(): slots to compare the searches with')
        else:
          ctx.verdict(agree and len(sign_in_slot) == 2, rule, rule + ':slot-vs-search', 'in each slot the sign of `expected` is opposite to the sign of terminal payoffs in that player\'s search (both values are in the same player\'s units)', g.where(0),
                      'slots: %s, search: %s' % (sign_in_slot, term_sign), breaks='regret = BR - current value is computed with mismatched units on any game with non-zero payoffs')
    h = ctx.fn('lib', 'regret::expected', rule)
    if h is not None:
        ok = False
        for l, ds in h.defs.items():
            if h.locals[l]['ty'] == 'f64' and h.local_name(l):
                for d in ds:
                    if d[0] == 'assign':
                        u = strip_refs(h.rvalue_expr(d[3], d[1]))
                        if u[0] == 'bin' and u[1] == 'Add' and norm(u[2]) == ('var', l, h.local_name(l)) and any(c['kind'] == 'variant' and c['variants'] == ['Terminal'] for c in h.conds(d[1])):
                            p = e4.try_poly(u[3])
                            ok = p is not None and len(p) == 1 and list(p.values()) == [1.0] and len(list(p)[0]) == 2
        if not ok and pop_item(h) is None:
            ctx.anchor_lost(rule, 'expected(): accumulation at terminals of the stack-driven walk', 'no work stack is popped in this function')
        else:
          ctx.verdict(ok, rule, rule + ':expected-accumulates', 'expected() accumulates +reach * payoff at terminals', h.where(0), 'found: %s' % ok)

    # ---------------- (3)(4)(5) traversals
    n_push = 0
    for suf in TRAVERSALS:
        f = ctx.fn('lib', suf, 'C01.reach')
        if f is None:
            continue
        nm = suf.split('::')[-1]
        popped = pop_item(f)
        if popped is None:
            ctx.anchor_lost('C01.reach', suf + ': pop of the work stack')
            continue
        has_role = nm != 'expected'
        sites = []      # (block, weight kinds, probability source, positivity guard or None)
        for bi, t, e in q.calls_named(f, 'push'):
            parts = item_parts(lib, e[2][1])
            if parts is None:
                continue
            kinds, probsrc = classify_weight(f, parts[1], popped)
            pr = None
            pw = e4.try_poly(parts[1])
            for a in (list(pw)[0] if pw else ()):
                if a[0] == 'val' and q.elem_of(a[1]) is not None:
                    pr = a[1]
            pos = pr is not None and any(e2.cond_positive(c, pr) for c in f.conds(bi))
            sites.append((bi, kinds, probsrc, pos))
        # the same push written as `queue.extend(probs.iter().zip(children)[.filter(P)].map(|(prob, next)| (next, prob * reach)))`
        for bi, t, e in q.calls_named(f, 'extend'):
            chain = strip_refs(e[2][1]) if len(e[2]) > 1 else None
            mp = q.find_sub(chain, lambda x: q.is_call(x, 'map')) if chain is not None else None
            if mp is None or len(mp[2]) < 2:
                continue
            cf, _ = q.closure_of(lib, mp[2][1])
            if cf is None:
                continue
            parts = item_parts(lib, q.ret_expr(cf))
            if parts is None:
                continue
            ctx.touch(cf)
            ip = q.item_param(cf)
            w = q.resolve_captures(lib, cf, parts[1]) if cf.is_closure else parts[1]
            pw = e4.try_poly(w)
            kinds, probsrc = None, None
            if pw is not None and len(pw) == 1 and list(pw.values()) == [1.0]:
                kinds = []
                for a in list(pw)[0]:
                    x = a[1] if a[0] == 'val' else None
                    if x is not None and q.find_sub(x, lambda s_: same_call(s_, popped)) is not None and strip_refs(x)[0] == 'field' and strip_refs(x)[2] in WEIGHT_FIELDS:
                        kinds.append('reach')
                    elif x is not None and q.find_sub(x, lambda s_: s_[0] == 'param' and s_[1] == ip) is not None:
                        kinds.append('prob')
                    else:
                        kinds.append('?')
                kinds = sorted(kinds)
                z = q.find_sub(mp[2][0], lambda x: q.is_call(x, 'zip'))
                probsrc = strip_refs(z[2][0]) if z is not None else None
            fl = q.find_sub(mp[2][0], lambda x: q.is_call(x, 'filter'))
            pos = False
            if fl is not None and len(fl[2]) > 1:
                pred, pcf, _ = q.closure_pred(lib, fl[2][1])
                pos = pred is not None and pred[0] == 'Gt' and pred[2] is not None and is_const(pred[2], 0)
            sites.append((bi, kinds, probsrc, pos))
        for bi, kinds, probsrc, pos_guard in sites:
            cs = f.conds(bi)
            var = [c['variants'][0] for c in cs if c['kind'] == 'variant' and c['variants'][0] in ('Chance', 'Player', 'Terminal') and len(c['variants']) == 1]
            if not var:
                continue     # the initial push of the start node
            n_push += 1
            if var[-1] == 'Chance':
                role = 'chance'
            elif not has_role:
                role = 'fixed'
            else:
                cxs = f.contexts(bi, role_ctx_for(f))
                roles = roles_of(cxs)
                role = 'deviating' if roles == {True} else 'fixed' if roles == {False} else 'mixed'
            rule = 'C01.reach'
            want = ['reach'] if role == 'deviating' else ['prob', 'reach']
            # the probability table entry is indexed by this node's infoset
            own = True
            if probsrc is not None:
                idx = q.find_sub(probsrc, lambda s: s[0] == 'index')
                if idx is None:
                    # probs local defined by a call on table[node.infoset]
                    idx = q.find_sub(probsrc, lambda s: s[0] == 'index')
                own = idx is not None and strip_refs(idx[2])[0] == 'field' and strip_refs(idx[2])[2] == 'infoset' and q.find_sub(idx[2], lambda s: same_call(s, popped)) is not None
            ctx.verdict(kinds == want and own and role != 'mixed', rule, '%s:%s:%s' % (rule, nm, role),
                        'the weight pushed for a child is parent weight * edge probability at chance / fixed-strategy nodes and the parent weight at the deviating player\'s nodes; probabilities come from the entry of the node\'s own infoset',
                        f.where(bi), 'role %s: weight factors %s, probability from own infoset entry: %s' % (role, kinds, own), breaks='expected payoffs / counterfactual weights are wrong on any non-trivial tree')
            if role == 'fixed':
                pos = bool(pos_guard)
                ctx.verdict(pos, 'C01.positive-filter', 'C01.positive-filter:%s' % nm, 'below a fixed-strategy node a child is pushed only under the strict `prob > 0.0` (zero-reach subtrees register no infoset nodes: total reach stays positive)',
                            f.where(bi), 'strict positivity test on the pushed probability dominates: %s' % pos, breaks='profiles that make subtrees unreachable give 0/0 = NaN best-response values')
    if n_push < 7:
        ctx.anchor_lost('C01.reach', 'child pushes in the three traversals', 'found %d of 7' % n_push)
    # deviating player's node registration in optimal_deviations happens in the deviating role only
    f = ctx.fn('lib', 'regret::optimal_deviations', 'C01.role')
    if f is not None:
        rule = 'C01.role'
        DF = dev_fields(lib)
        reg = [(bi, t, e) for bi, t, e in q.calls_named(f, 'push') if q.find_sub(e[2][0], lambda s: s[0] == 'field' and s[2] == DF['nodes']) is not None]
        if not reg:
            ctx.anchor_lost(rule, 'optimal_deviations: registration of infoset nodes')
        for bi, t, e in reg:
            cxs = f.contexts(bi, role_ctx_for(f))
            roles = roles_of(cxs)
            parts = item_parts(lib, e[2][1])
            kinds, _ = classify_weight(f, parts[1], pop_item(f)) if parts is not None else (None, None)
            own = q.find_sub(e[2][0], lambda s: s[0] == 'index' and strip_refs(s[2])[0] == 'field' and strip_refs(s[2])[2] == 'infoset') is not None
            ctx.verdict(roles == {True} and kinds == ['reach'] and own, rule, rule + ':registration', 'a node is registered with its reach at its own infoset exactly when it belongs to the deviating player ((One, true) | (Two, false))',
                        f.where(bi), 'roles %s, weight %s, own infoset %s' % (roles, kinds, own), breaks='the best response is computed over the opponent\'s infosets')
        # (6c) resolution queue: only infosets that were reached (have registered nodes) and have no pending
        # later infoset are resolved — an unreached infoset would be resolved with zero nodes, leave its
        # predecessor's pending count unchanged and queue that predecessor a second time
        rule = 'C01.resolution-queue'
        flt = None
        for bi, t, e in q.calls_named(f, 'filter') + q.calls_named(f, 'filter_map'):
            cf, agg = q.closure_of(lib, e[2][1]) if len(e[2]) > 1 else (None, None)
            if cf is not None and any(x[0] == 'field' and x[2] == DF['pending'] for bj in cf.reach for st in cf.blocks[bj]['stmts'] if st['s'] == 'assign' for x in facts.walk(cf.rvalue_expr(st['rv'], bj))):
                flt = cf
        if flt is None:
            ctx.anchor_lost(rule, 'optimal_deviations: initial filter of the resolution queue')
        else:
            ctx.touch(flt)
            nonempty = False
            for bj, t, p in flt.calls():
                if short(p) in ('is_empty', 'len') and q.find_sub(flt.call_expr(t, bj), lambda x: x[0] == 'field' and x[2] == DF['nodes']) is not None:
                    nonempty = True
            ctx.verdict(nonempty, rule, rule + ':reached-only', 'the initial resolution queue holds only infosets with no pending later infoset *and* at least one registered node', flt.where(0),
                        'filter tests the registered-node list for emptiness: %s' % nonempty, breaks='an infoset never reached under the profile is resolved with zero nodes and its predecessor is queued (and resolved) twice: wrong best-response value')
        # (6d) the value returned is the continuation value of the root under the resolved infosets, on every path
        rule = 'C01.best-response-from-root'
        vals0 = q.multi_def_values(f, 0) or [(0, [], f.local_expr(0))]
        kinds0 = []
        for bi0, cs0, v0 in vals0:
            v0 = strip_refs(v0)
            if q.is_call(v0, 'next_infoset_search') and v0[2] and strip_refs(v0[2][0]) == ('param', 1, f.local_name(1)):
                kinds0.append('search')
            elif v0[0] == 'const':
                kinds0.append('constant %s' % v0[1])
            elif v0[0] == 'param' and f.locals[v0[1]]['ty'] == 'f64':
                kinds0.append('constant (a number handed in: %s)' % (f.local_name(v0[1]) or v0[1]))
            else:
                kinds0.append('?')
        if '?' in kinds0 and not any(k.startswith('constant') for k in kinds0):
            ctx.anchor_lost(rule, 'optimal_deviations: returned value', str(kinds0))
        else:
            ctx.verdict(all(k == 'search' for k in kinds0), rule, rule, 'optimal_deviations returns the continuation value of the root node computed by the search — on every path (a player without decisions still has a value: the expected payoff)',
                        f.where(vals0[0][0]), 'returned values: %s' % kinds0, breaks='a player with no (multi-action) infosets gets best-response value 0: the regret then depends on additive payoff shifts')
        # (7) infoset value
        rule = 'C01.infoset-value'
        divs = list(e2.f64_divisions(f))
        ok = False
        undecided = False
        for dv in divs:
            num = strip_refs(dv['num'])
            x = num[2][0] if q.is_call(num, 'unwrap') else num
            x = strip_refs(x)
            red = q.is_call(x, 'reduce') and x[2][1][0] == 'fn' and short(x[2][1][1]) == 'max' and 'f64' in x[2][1][1]
            if not red and q.is_call(x, 'fold') and len(x[2]) == 3 and x[2][2][0] == 'fn' and short(x[2][2][1]) == 'max' and 'f64' in x[2][2][1]:
                # reduce spelled out: fold(first element of the same iterator | -inf, f64::max)
                init = strip_refs(x[2][1])
                if init[0] == 'var':
                    vals = [strip_refs(v) for _, _, v in q.multi_def_values(f, init[1])]
                    init = vals[0] if len(vals) == 1 else init
                if q.is_call(init, 'unwrap') or q.is_call(init, 'expect'):
                    init = strip_refs(init[2][0])
                red = (q.is_call(init, 'next') and norm(strip_refs(init[2][0])) == norm(strip_refs(x[2][0]))) or (init[0] == 'const' and 'NEG_INFINITY' in str(init))
            if not red and x[0] == 'var' and q.running_max(f, x[1]) is not None:
                red = True      # the reduction spelled as a running-maximum loop
            if not red and (x[0] == 'var' or (x[0] == 'call' and short(x[1]) not in ('reduce', 'fold', 'min', 'sum', 'max_by', 'min_by', 'last', 'next'))):
                undecided = True
            den = strip_refs(dv['den'])
            tot = q.is_call(den, 'sum')
            ok = bool(red and tot)
        # the reduced vector has exactly one entry per action of the infoset being resolved (a longer, reused buffer
        # lets its padding compete in the maximum)
        for dv in divs:
            num = strip_refs(dv['num'])
            x = strip_refs(num[2][0]) if q.is_call(num, 'unwrap') and num[2] else num
            if not (x[0] == 'call' and short(x[1]) in ('reduce', 'fold') and x[2]):
                continue
            src = strip_refs(x[2][0])
            while src[0] == 'call' and short(src[1]) in ('into_iter', 'iter', 'copied', 'cloned', 'by_ref') and src[2]:
                src = strip_refs(src[2][0])
            popped_info = [e_ for _, _, e_ in q.calls_named(f, 'pop')]
            if src[0] == 'call' and short(src[1]) == 'from_elem' and len(src[2]) == 2:
                n_ = strip_refs(src[2][1])
                per_infoset = q.is_num_actions(n_) and q.find_sub(n_, lambda s_: s_[0] == 'call' and any(s_[3] == p_[3] for p_ in popped_info)) is not None
                ctx.verdict(per_infoset, rule, rule + ':payoff-vector-length', 'the per-action payoff vector that is maximised has num_actions(this infoset) entries', f.where(line=dv['line']),
                            'length %s' % facts.show(n_)[:70], breaks='zero padding of a shared buffer competes in the maximum: a negative best-response value is reported as 0')
            elif src[0] == 'var' and 'Vec<f64>' in f.locals[src[1]]['ty']:
                vals_ = [strip_refs(v_) for _, _, v_ in q.multi_def_values(f, src[1])]
                lens_ = [strip_refs(v_[2][1]) for v_ in vals_ if v_[0] == 'call' and short(v_[1]) == 'from_elem' and len(v_[2]) == 2]
                if lens_ and not all(q.is_num_actions(n_) and q.find_sub(n_, lambda s_: s_[0] == 'call' and any(s_[3] == p_[3] for p_ in popped_info)) is not None for n_ in lens_):
                    ctx.verdict(False, rule, rule + ':payoff-vector-length', 'the per-action payoff vector that is maximised has num_actions(this infoset) entries', f.where(line=dv['line']),
                                'buffer allocated with length %s and reused' % [facts.show(n_)[:40] for n_ in lens_], breaks='zero padding of a shared buffer competes in the maximum: a negative best-response value is reported as 0')
        if not ok and undecided:
            ctx.anchor_lost(rule, 'optimal_deviations: the maximum over the per-action payoffs', 'numerator of the infoset value is a value the rule cannot trace to a reduction')
        else:
          ctx.verdict(ok, rule, rule + ':max-over-actions', 'an infoset\'s value is the f64::max reduction of its per-action payoffs divided by the total reach of its nodes', f.where(line=divs[0]['line']) if divs else f.where(0), 'recognised: %s' % ok,
                    breaks='the deviation is not the best action')
        acc = False
        for bi, st, pl, rhs in q.stores(f):
            r = strip_refs(rhs)
            if r[0] == 'bin' and r[1] == 'Add' and norm(r[2]) == norm(pl):
                p = e4.try_poly(r[3])
                if p is not None and len(p) == 1 and list(p.values()) == [1.0] and len(list(p)[0]) == 2 and any(a[0] == 'val' and q.is_call(a[1], 'next_infoset_search') for a in list(p)[0]):
                    acc = True
        ctx.verdict(acc, rule, rule + ':action-payoff', 'each action\'s payoff accumulates (continuation value of the child) * (reach of the node)', f.where(0), 'recognised: %s' % acc)
    g = ctx.fn('lib', 'regret::next_infoset_search', 'C01.infoset-value')
    if g is not None:
        ok = False
        popped = pop_item(g)
        for l, ds in g.defs.items():
            if g.locals[l]['ty'] == 'f64' and g.local_name(l):
                for d in ds:
                    if d[0] == 'assign':
                        u = strip_refs(g.rvalue_expr(d[3], d[1]))
                        if u[0] == 'bin' and u[1] == 'Add' and norm(u[2]) == ('var', l, g.local_name(l)) and any(c['kind'] == 'variant' and c['variants'] == ['Player'] for c in g.conds(d[1])):
                            p = e4.try_poly(u[3])
                            if p is not None and len(p) == 1 and list(p.values()) == [1.0]:
                                atoms = list(p)[0]
                                mu = [a for a in atoms if a[0] == 'val' and strip_refs(a[1])[0] == 'field' and strip_refs(a[1])[2] == dev_fields(lib)['value']]
                                own = mu and q.find_sub(mu[0][1], lambda s: s[0] == 'index' and strip_refs(s[2])[0] == 'field' and strip_refs(s[2])[2] == 'infoset' and q.find_sub(s[2], lambda z: same_call(z, popped)) is not None) is not None
                                cxs = g.contexts(d[1], role_ctx_for(g))
                                roles = roles_of(cxs)
                                ok = bool(mu) and bool(own) and len(atoms) == 2 and roles == {True}
        if not ok and popped is None:
            ctx.anchor_lost('C01.infoset-value', 'next_infoset_search: use of the infoset value at the deviating player\'s nodes', 'no work stack is popped in this function')
        else:
          ctx.verdict(ok, 'C01.infoset-value', 'C01.infoset-value:used-at-own-nodes', 'at a node of the deviating player the search adds (+1) * (value of that node\'s own infoset) * reach and stops', g.where(0), 'recognised: %s' % ok)

    # ---------------- (6b) no stale evaluation: a memo inside the profile must be dropped by every mutator
    rule = 'C01.no-stale-evaluation'
    INTERIOR = ('OnceLock', 'OnceCell', 'LazyCell', 'LazyLock', 'Cell<', 'RefCell<', 'Mutex<', 'RwLock<', 'Atomic')
    st_adt = lib.adts.get('Strategies')
    if st_adt:
        memo = [(n, ty) for n, ty in zip(st_adt[0].get('fields', []), st_adt[0].get('ftys', [])) if any(x in ty for x in INTERIOR)]
        if not memo:
            ctx.ok(rule, rule + ':no-interior-state', 'the profile carries no interior-mutable cache, so get_info() is a function of the probabilities it holds now', '', 'fields: %s' % st_adt[0].get('fields'))
        for n, ty in memo:
            for g in lib.non_test_fns():
                if g.is_closure or not g.j.get('impl_self', '').startswith('Strategies') and 'Strategies::<' not in g.name:
                    continue
                if g.argc < 1 or not g.locals[1]['ty'].startswith('&mut Strategies'):
                    continue
                writes = any(pl[0] == 'field' and pl[2] == n for bi, st, pl, rhs in q.stores(g)) or \
                    any(short(p) in ('take', 'set', 'replace', 'get_mut', 'clear') and q.find_sub(g.call_expr(t, bi), lambda x: x[0] == 'field' and x[2] == n) is not None for bi, t, p in g.calls())
                ctx.touch(g)
                ctx.verdict(writes, rule, '%s:%s:%s' % (rule, n, q.top(g.name).split('::')[-1]), 'a method that mutates the profile resets the cached evaluation held in `%s`' % n, g.where(0),
                            'field `%s: %s` written / reset by this &mut self method: %s' % (n, ty[:40], writes), breaks='get_info() after truncate() reports the utilities and regrets of the profile before truncation')
    # ---------------- (6) get_info wiring
    rule = 'C01.get-info-wiring'
    f = ctx.fn('lib', "Strategies::<'a, I, A>::get_info", rule)
    if f is not None:
        host = f
        rc = [(bi, t, e) for bi, t, e in q.calls_named(f, ev_name) if e[1].startswith('regret::')]
        if not rc:
            for c in lib.closures_of(f):
                rc = [(bi, t, q.resolve_captures(lib, c, e)) for bi, t, e in q.calls_named(c, ev_name) if e[1].startswith('regret::')]
                if rc:
                    host = c
                    break
        if not rc and spliced is not None:
            # the evaluation function is spliced into get_info: its arguments are checked where they are used (regret-form
            # slots: own table / other's strategy); what is left is the pairing of each split
            sps = [(bi, e) for bi, t, e in q.calls_named(f, 'split_by')]
            pairs = [(q.tags(e[2][0]), q.tags(e[2][1]), 'probs' in facts.show(e[2][0]) and 'player_infosets' in facts.show(e[2][1])) for bi, e in sps]
            ok = len(pairs) == 2 and all(a == b and len(a) == 1 and c for a, b, c in pairs) and {tuple(a) for a, b, c in pairs} == {(0,), (1,)}
            ctx.verdict(ok, rule, rule, 'get_info evaluates (tables of player 1, 2) with (probabilities of player 1 split by player 1\'s infosets, same for 2)', f.where(sps[0][0] if sps else 0),
                        'evaluation spliced into get_info; splits (probs tags, infoset tags, fields ok): %s' % [(sorted(a), sorted(b), c) for a, b, c in pairs], breaks='a player\'s probabilities are interpreted with the other player\'s infoset sizes')
        elif not rc:
            ctx.anchor_lost(rule, 'get_info: regret::regret call')
        for bi, t, e in rc:
            infos, strats = strip_refs(e[2][2]), strip_refs(e[2][3])
            ok = infos[0] == 'agg' and strats[0] == 'agg' and len(infos[2]) == 2 and len(strats[2]) == 2
            detail = 'arguments not arrays'
            if ok:
                ti = [q.tags(x) for x in infos[2]]
                good = ti == [{0}, {1}]
                pair = True
                for k, s in enumerate(strats[2]):
                    sp = q.find_sub(s, lambda x: q.is_call(x, 'split_by'))
                    if sp is None:
                        # split by some other adaptor (a dedicated chunk iterator): what this rule decides is the pairing —
                        # everything the k-th argument is computed from belongs to player k
                        txt_ = facts.show(s)
                        if 'probs' in txt_ and 'player_infosets' in txt_ and q.tags(s):
                            pair &= q.tags(s) == {k}
                        else:
                            pair = None if pair is not False else False
                        continue
                    pair &= q.tags(sp[2][0]) == {k} and q.tags(sp[2][1]) == {k} and 'probs' in facts.show(sp[2][0]) and 'player_infosets' in facts.show(sp[2][1])
                if pair is None and good:
                    ctx.anchor_lost(rule, 'get_info: how each player\'s probabilities are split by infoset', 'no split_by call and no per-player source recognised')
                    continue
                ok = good and bool(pair)
                detail = 'infoset tables at positions %s; split of player k\'s probabilities by player k\'s infosets: %s' % ([sorted(x) for x in ti], pair)
            ctx.verdict(ok, rule, rule, 'get_info evaluates (tables of player 1, 2) with (probabilities of player 1 split by player 1\'s infosets, same for 2)', host.where(bi), detail, breaks='a player\'s probabilities are interpreted with the other player\'s infoset sizes')
            root_ok = 'root' in facts.show(e[2][0]) and 'chance_infosets' in facts.show(e[2][1])
            ctx.verdict(root_ok, rule, rule + ':root-and-chance', 'evaluation starts at the game\'s root with the game\'s chance table', host.where(bi), 'found: %s' % root_ok)
        # StrategiesInfo fields
        for bi, st, fields in q.struct_sites(f, 'StrategiesInfo'):
            vals = {k_: strip_refs(v) for k_, v in fields.items()}
            srcs = set()
            comp = {}
            for k_, v in vals.items():
                base = v
                path = []
                while base[0] in ('field', 'cidx'):
                    path.append(base[2])
                    base = strip_refs(base[1])
                srcs.add(base if q.is_call(base, ev_name) and base[1].startswith('regret::') else ('other', k_))
                comp[k_] = tuple(reversed(path))
            from_one_call = len(srcs) == 1 and next(iter(srcs))[0] == 'call'
            if spliced is not None:
                ctx.ok(rule, rule + ':info-fields', 'StrategiesInfo { util, regrets } are the utility and the regret pair of the one evaluation', f.where(bi), 'the evaluation is spliced into get_info: the fields are its result (forms decided by C01.regret-form)')
            elif set(vals) == {'util', 'regrets'} and from_one_call and set(ret_roles.values()) != {'util', 'regrets'}:
                ctx.anchor_lost(rule, 'get_info: which component of regret() is the utility / the regret pair', 'components recognised in regret(): %s' % ret_roles)
            elif set(vals) == {'util', 'regrets'} and (ret_roles or not from_one_call):
                ok = from_one_call and len(comp['util']) == 1 and len(comp['regrets']) == 1 and ret_roles.get(comp['util'][0]) == 'util' and ret_roles.get(comp['regrets'][0]) == 'regrets'
                ctx.verdict(ok, rule, rule + ':info-fields', 'StrategiesInfo { util, regrets } are the utility and the regret pair of the one regret() evaluation', f.where(bi), 'components: %s; result of %s(): %s' % (comp, ev_name, ret_roles))
            elif from_one_call and len(set(comp.values())) == len(comp):
                ctx.ok(rule, rule + ':info-fields', 'every field of StrategiesInfo is a distinct component of the one regret() evaluation', f.where(bi), 'components: %s' % comp)
                ctx.anchor_lost(rule, 'get_info: which component of regret() feeds which field', 'reshaped result types: the correspondence is not followed (%s)' % comp)
            else:
                ctx.verdict(False, rule, rule + ':info-fields', 'every field of StrategiesInfo is a distinct component of the one regret() evaluation', f.where(bi), 'components: %s, sources: %d' % (comp, len(srcs)))
