"""C07 — sampled solvers are thread-count invariant once random choices are fixed."""
import parallel
import sampling

EXPLANATION = """
Schedule clauses of the two sampled parallel solvers, decided on the MIR of the current tree:
(1) E3 container typestate — per-pass workspace (frontier queue, work list, payoff cache) of
single_player_iter / solve_external_multi and of the shared solve_generic_multi is empty wherever a
pass starts using it (interprocedural summaries; the external solver runs two passes per
iteration, both call sites are instances); (2) draw-at-most-once typestate of SampledChance::sample
and CachedInfoset::sample — the RNG call is control dependent on `cached == 0`, that path stores
draw+1 before returning the draw, the other path returns cached-1 and reaches no RNG; inside the
parallel region the store is a set-once under the infoset's lock (E9); (3) reset per pass — in every
sampled solver loop and in single_player_iter the traversals of one pass (frontier, tasks, root
traversal) are followed by a reset of the whole chance table, no reset separates traversals of one
pass, and the updated player's whole slice is advanced (which resets its cached actions); (4) lock
kinds — try_lock appears only in ActiveRecurse for Mutex and is applied to the updating player's
table (One under FIRST, Two otherwise), the sampled player's and chance tables use blocking lock();
(5) cache discipline of recurse_regret / the task closures, and E9 parallel effects (every shared
write is `x = x ± e` under the lock, fetch_add/fetch_sub, or the set-once of `cached`); (6) zero
unsafe; the payoff cache filled by the tasks is not emptied between the fill and the root traversal that reads it. Not decided: the unique-visit theorem behind try_lock().unwrap() (its structural premises
are the recall witness of C11 and the rules above) and equality of results as numbers.
"""
ASSUMPTIONS = ['rayon runs every task exactly once; std::sync::Mutex provides mutual exclusion',
               '"fixed random choices" is modelled as: each cached sampler returns one value per pass (decided) and the value itself is an input']
NOT_DECIDED = ['unique-visit theorem for the updating player\'s infosets', 'numeric equality of results']


def run(ctx):
    parallel.workspace(ctx, 'C07', ['external', 'vanilla'])
    sampling.draw_once(ctx, 'C07')
    sampling.resets(ctx, 'C07')
    sampling.pass_structure(ctx, 'C07')
    sampling.lock_kinds(ctx, 'C07')
    sampling.first_wiring(ctx, 'C07')
    parallel.cache_discipline(ctx, 'C07', 'solve::external::recurse_regret')
    parallel.task_closure(ctx, 'C07', 'external::single_player_iter', 'recurse_regret')
    parallel.parallel_effects(ctx, 'C07', ['external::single_player_iter', 'vanilla::solve_generic_multi'])
    parallel.child_reach_fresh(ctx, 'C07', ['solve::vanilla::thread_threshold'])
    parallel.frontier_reach_form(ctx, 'C07')
    parallel.frontier_search_pure(ctx, 'C07', ['external', 'vanilla'])
    parallel.cache_live_at_root(ctx, 'C07', ['external', 'vanilla'])
    parallel.no_unsafe(ctx, 'C07')
