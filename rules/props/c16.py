"""C16 — CLI options and input formats mean what the help text says."""
import re

import absint
import os
import facts
import q
from facts import norm, short, strip_refs, is_const

EXPLANATION = """
Decided on the MIR of main.rs / auto.rs (E6 table agreement, E4 data flow, E2 guards): (1) tables —
Discount::X selects RegretParams::x, Method::X selects SolveMethod::X, InputFormat::X selects
x::from_reader, by normalised name; under Auto the extension ".json" selects json and ".efg" gambit,
explicit formats are taken without looking at the extension, and the content-based auto-detection
tries JSON first and Gambit on its Err edge; (2) wiring (frozen from the help text) — solve(method <-
-m, max_iter <- -t with 0 |-> u64::MAX, max_reg <- -r, num_threads <- -p, params <- Some(discount
preset)) and truncate(thresh <- -c); (3) clip — the condition is the strict `regret(evaluation of the
truncated clone) < regret(evaluation of the original)`; on its true edge both the strategies and
their evaluation are replaced, on the false edge neither, so at the output the pair is (S, eval(S))
on every path — independently of how the comparison is written, wherever the local that the output's as_named reads is
re-assigned, the local its player_utility reads is re-assigned under the same guards; (4) both destinations serialise the same `out` value with the same function.
(5) no option has a hand-written value parser that rejects values of its type by magnitude (no range is documented).
Thread-count independence is C06; validity of what is printed is C18.
"""
ASSUMPTIONS = ['clap maps the documented flags to the fields of Args (derive macro)']
NOT_DECIDED = ['clap\'s own parsing of flags and defaults']


def snake(name):
    return re.sub(r'(?<!^)(?=[A-Z])', '_', name).lower()


def snake_rev(x):
    return ''.join(w.capitalize() for w in x.split('_'))


def option_value_parsers(ctx):
    """an option documented without a range accepts every value of its type: a hand-written `value_parser` of the binary
    that returns Err under a comparison of the parsed value rejects part of the range (`--clip-threshold 1` is a legal
    threshold).  A custom parser without such a test is not decided."""
    rule = 'C16.option-ranges'
    b = ctx.bin
    custom = set()
    for n, f in b.fns.items():
        if 'augment_args' not in n or '{closure' in n:
            continue

        def walk(x):
            if isinstance(x, dict):
                if x.get('k') == 'fn' and x.get('path') in b.fns and not x['path'].startswith('<'):
                    custom.add(x['path'])
                for v in x.values():
                    walk(v)
            elif isinstance(x, list):
                for v in x:
                    walk(v)
        walk(f.j['blocks'])
    if not custom:
        ctx.ok(rule, rule, 'no option has a hand-written value parser: every option accepts every value of its type', '', 'clap\'s inferred parsers only')
        return
    for name in sorted(custom):
        g = b.fns[name]
        ctx.touch(g)
        errs = [bi for bi, st, e in q.agg_sites(g, 'result::Result', 'Err')]
        tests = []
        for bi in errs:
            for c in g.conds(bi):
                if c['kind'] in ('Lt', 'Le', 'Gt', 'Ge', 'Is:contains', 'IsFinite', 'IsNan', 'IsInfinite'):
                    tests.append('%s(%s) edge %s' % (c['kind'], facts.show(c['a'])[:40], c.get('truth')))
        if tests:
            ctx.bad(rule, '%s:%s' % (rule, name), 'a value parser written for an option does not reject values of the option\'s type by their magnitude (no range is documented)', g.where(0),
                    'returns Err under: %s' % sorted(set(tests))[:4], breaks='documented option values (a clip threshold of 1 or above, a negative one) abort the program instead of taking effect')
        else:
            ctx.anchor_lost(rule, 'value parser %s: which values it rejects' % name)


def info_follows_strategies(ctx, m):
    """whatever way the better profile is selected: the evaluation that is printed is re-assigned wherever the strategies
    that are printed are.  S = the local the output's `as_named` reads, X = the local its `player_utility` / `regret`
    calls read; every re-definition of S (after the first) has a re-definition of X in the same block whose value is the
    evaluation of what S becomes (or both are components of one selected pair, which other clauses decide)."""
    rule = 'C16.clip'
    b = ctx.bin
    roots = {}
    for nm_ in ('as_named', 'player_utility'):
        cs = q.calls_named(m, nm_)
        rs = {m.root_place(t['args'][0]) for bi, t, e in cs if t['args'] and t['args'][0].get('o') in ('copy', 'move')}
        rs = {r_ for r_ in rs if r_ is not None and r_[0][0] == 'var' and not r_[1]}
        if len(rs) == 1:
            roots[nm_] = next(iter(rs))[0][1]
    if len(roots) != 2:
        return          # the output reads them through something else (a pair / record): decided by the other clauses
    S, X = roots['as_named'], roots['player_utility']
    sd = [d for d in m.defs.get(S, [])]
    xd = [d for d in m.defs.get(X, [])]
    if len(sd) < 2:
        return
    first = min(d[1] for d in sd)
    bad = []
    n = 0
    for d in sd:
        if d[1] == first:
            continue
        n += 1
        guards = lambda bi_: {(c['switch'], str(c.get('truth')), str(c.get('variants'))) for c in m.conds(bi_)}
        same_block = [x for x in xd if x[1] == d[1] or (x[1] != first and guards(x[1]) == guards(d[1]))]
        if not same_block:
            bad.append(m.where(d[1]))
    ctx.verdict(not bad, rule, rule + ':info-follows-strategies', 'wherever the strategies to be printed are replaced, the evaluation to be printed is replaced with them', m.where(sd[-1][1]),
                '`%s` is re-assigned at %d place(s); without a re-assignment of `%s` next to it: %s' % (m.local_name(S) or '_%d' % S, n, m.local_name(X) or '_%d' % X, bad or 'none'),
                breaks='the printed utilities / regrets belong to another profile than the printed strategies')


def run(ctx):
    b = ctx.bin
    if b is None:
        ctx.anchor_lost('C16.anchor', 'binary crate facts', hard=True)
        return
    m = ctx.fn('bin', 'main', 'C16.anchor')
    if m is not None:
        info_follows_strategies(ctx, m)
    option_value_parsers(ctx)
    # ---------------- (1) tables
    rule = 'C16.table-discount'
    # wherever the mapping lives (Discount::into_params, or inlined into main): every call of a RegretParams
    # preset that is selected by a Discount variant must be the like-named one
    n = 0
    PRESET_NAMES = {'vanilla', 'lcfr', 'cfr_plus', 'dcfr', 'dcfr_prune'}
    for f in b.non_test_fns():
        for bi, t, p in f.calls():
            if 'RegretParams' not in p or short(p) not in PRESET_NAMES:
                continue
            vs = [c for c in f.conds(bi) if c['kind'] == 'variant' and set(c['variants']) <= {snake_rev(x) for x in PRESET_NAMES}]
            if not vs:
                continue
            ctx.touch(f)
            if len(vs[-1]['variants']) != 1:
                ctx.bad(rule, '%s:%s' % (rule, short(p)), 'each preset is selected by exactly one Discount variant', f.where(bi), 'guards: %s' % [v['variants'] for v in vs])
                continue
            n += 1
            v = vs[-1]['variants'][0]
            ctx.verdict(snake(v) == short(p), rule, '%s:%s' % (rule, v), 'Discount::X selects RegretParams::x (same name)', f.where(bi), 'Discount::%s -> RegretParams::%s' % (v, short(p)),
                        breaks='-d selects another preset than it names')
    # ... and what the mapping returns is that preset, not a tuple rebuilt from some of its components
    ip = b.one('Discount::into_params')
    if ip is not None:
        ctx.touch(ip)
        vals_ = [strip_refs(v_) for _, _, v_ in (q.multi_def_values(ip, 0) or [(0, [], ip.local_expr(0))])]
        presets_ = [v_ for v_ in vals_ if v_[0] == 'call' and 'RegretParams' in v_[1] and short(v_[1]) in PRESET_NAMES]
        rebuilt_ = [v_ for v_ in vals_ if (v_[0] == 'call' and 'RegretParams' in v_[1] and short(v_[1]) == 'new') or (v_[0] == 'agg' and 'RegretParams' in v_[1])]
        if rebuilt_:
            ctx.bad(rule, rule + ':preset-unchanged', 'the parameters handed to the solver for -d X are RegretParams::x() as documented, all four components', ip.where(0),
                    'returns %s' % facts.show(rebuilt_[0])[:100], breaks='a documented preset is silently altered (e.g. vanilla\'s no-positive weight 0 replaced by inf)')
        elif presets_ and len(presets_) == len(vals_):
            ctx.ok(rule, rule + ':preset-unchanged', 'the parameters handed to the solver for -d X are RegretParams::x() as documented, all four components', ip.where(0), '%d preset calls returned as they are' % len(presets_))
    nvar = len(b.adts.get('Discount', []))
    if n < 5 or n % nvar:    # a multiple: the table also lives, inlined, in its caller
        ctx.anchor_lost(rule, 'Discount -> RegretParams preset arms', 'found %d arms for %d variants' % (n, nvar))
    if m is None:
        return
    rule = 'C16.table-method'
    n = 0
    for l, ds in m.defs.items():
        for bi, cs, v in q.multi_def_values(m, l):
            if v[0] == 'agg' and 'SolveMethod::' in v[1]:
                n += 1
                vs = [c for c in cs if c['kind'] == 'variant' and 'method' in facts.show(c['a'])]
                var = vs[-1]['variants'][0] if vs and len(vs[-1]['variants']) == 1 else '?'
                ctx.verdict(var == v[1].split('::')[-1], rule, '%s:%s' % (rule, var), 'Method::X selects SolveMethod::X', m.where(bi), 'Method::%s -> %s' % (var, v[1].split('::')[-1]), breaks='-m selects another algorithm than it names')
    if n < 3:
        ctx.anchor_lost(rule, 'main: Method -> SolveMethod arms', 'found %d of 3' % n)
    rule = 'C16.table-format'
    # decision table of the parser dispatch, extracted by path-sensitive abstract interpretation of main (helpers
    # inlined): independent of how the dispatch is written (nested matches, guards, a resolve step, == on the enum)
    class Dispatch(absint.Client):
        def place(self, f, pl, bi, it):
            if pl['ty'] == 'InputFormat':
                return ('sym', 'fmt', 'InputFormat')
            return None

        def call(self, f, bi, t, args, it):
            p = t['callee'].get('path') or ''
            sp = short(p)
            if sp in ('extension', 'and_then', 'to_str') and ('Path' in p or 'Option' in p or 'OsStr' in p):
                # `Path::new(input).extension()[.and_then(OsStr::to_str)]`: the optional extension of the input name
                e = f.call_expr(t, bi)
                if any(y[0] == 'call' and short(y[1]) == 'extension' for y in facts.walk(e)) and any(y[0] == 'field' and y[2] == 'input' for y in facts.walk(e)):
                    return ('sym', 'extopt', 'std::option::Option')
            if sp in ('ends_with', 'eq', 'ne'):
                e = f.call_expr(t, bi)
                consts = [x[1] for a in e[2] for x in facts.walk(a) if x[0] == 'const' and isinstance(x[1], str)]
                # string literals compared as `str` (not `&String`): the value sits in the type slot, `&str:"json"`
                consts += [x[2].split(':', 1)[1].strip('"') for a in e[2] for x in facts.walk(a)
                           if x[0] == 'const' and x[1] is None and isinstance(x[2], str) and x[2].startswith('&str:"')]
                on_input = any(x[0] == 'field' and x[2] == 'input' for a in e[2] for x in facts.walk(a))
                if sp == 'ends_with' and on_input and consts and consts[-1] in ('.json', '.efg'):
                    return ('b', 'ext' + consts[-1])
                if sp in ('eq', 'ne') and on_input and '-' in consts:
                    return ('b', 'stdin') if sp == 'eq' else ('not', ('b', 'stdin'))
                # the extension taken apart with std::path: `Path::new(input).extension() == Some("json")`
                via_ext = any(x[0] == 'call' and short(x[1]) == 'extension' for a in e[2] for x in facts.walk(a))
                if not via_ext:
                    # ... bound to a local first (`let extension = Path::new(input).extension().and_then(OsStr::to_str);`)
                    for a in e[2]:
                        for x in facts.walk(a):
                            if x[0] == 'var':
                                for _, _, v_ in q.multi_def_values(f, x[1]):
                                    if any(y[0] == 'call' and short(y[1]) == 'extension' for y in facts.walk(v_)) and \
                                            any(y[0] == 'field' and y[2] == 'input' for y in facts.walk(v_)):
                                        via_ext, on_input = True, True
                if sp in ('eq', 'ne') and on_input and via_ext and consts and consts[-1] in ('json', 'efg'):
                    v_ = ('b', 'ext.' + consts[-1])
                    return v_ if sp == 'eq' else ('not', v_)
            return None

        def enter(self, f, bi, st, tokens, it):
            # a name without an extension ends in neither ".json" nor ".efg"
            if tokens.get('extopt') == 'None' and ('ext.json' not in tokens or 'ext.efg' not in tokens):
                return dict(tokens, **{'ext.json': False, 'ext.efg': False})
            return None

        def sink(self, f, bi, t, it):
            if t['t'] == 'call':
                p = t['callee'].get('path') or ''
                if short(p) == 'from_reader' and p.split('::')[0] in ('json', 'gambit', 'auto'):
                    return p.split('::')[0]
                if short(p) == 'from_str' and p.split('::')[0] in ('json', 'gambit'):
                    return 'auto'       # content detection spliced into main (the auto module merged into another): it starts by trying a parser on the text
                if short(p) == 'solve' and 'Game' in p:
                    return 'no-parser'
            return None
        def stmt_sink(self, f, bi, st, it):
            # the body of a reader that sits behind a private trait (`impl Format for json::Json { fn read(..) }`),
            # resolved and spliced in by the normalisation: the module of the implementing type names the parser
            nm = st.get('spliced')
            if nm and nm.startswith('<') and ' as ' in nm:
                mod = nm[1:].split(' as ', 1)[0].lstrip('&').split('::')[0]
                if mod in ('json', 'gambit', 'auto'):
                    return mod
            return None
    it = absint.run(m, Dispatch())
    n = sum(1 for p_ in it.paths if p_.sink != 'no-parser')
    if it.overflow or n == 0:
        ctx.anchor_lost(rule, 'main: from_reader dispatch', 'paths explored: %d, overflow: %s' % (len(it.paths), it.overflow))
    else:
        keys = ['stdin', 'fmt', 'ext.json', 'ext.efg']
        tab = absint.table(it.paths, keys, {'stdin': [True, False], 'fmt': ['Json', 'Gambit', 'Auto'], 'ext.json': [True, False], 'ext.efg': [True, False]})
        for (stdin, fmt, ej, ee), (sinks, und) in sorted(tab.items(), key=str):
            if ej and ee:
                continue    # a name cannot end in both
            if stdin and (ej or ee):
                continue    # the name "-" ends in neither (the order in which the two are tested is free)
            want = {'Json': 'json', 'Gambit': 'gambit'}.get(fmt) or ('auto' if stdin else 'json' if ej else 'gambit' if ee else 'auto')
            ext = 'json' if ej else 'efg' if ee else 'other'
            key = '%s:%s:%s:%s' % (rule, 'stdin' if stdin else 'file', fmt, ext)
            text = 'InputFormat::X selects x::from_reader; under Auto ".json" selects json, ".efg" gambit, otherwise (and always on stdin) content detection; explicit formats ignore the extension'
            if sinks == {want}:
                ctx.verdict(True, rule, key, text, m.where(0), '%s -> %s::from_reader on every path' % ((stdin, fmt, ext), want))
            elif want in sinks and und:
                ctx.anchor_lost(rule, 'main: dispatch for %s' % ((stdin, fmt, ext),), 'reaches %s through an unmodelled test' % sorted(sinks))
            else:
                ctx.verdict(False, rule, key, text, m.where(0), '%s reaches %s, documented: %s' % ((stdin, fmt, ext), sorted(sinks), want),
                            breaks='--input-format / the extension selects another parser than documented')
    af = ctx.fn('bin', 'auto::from_reader', rule)
    if af is not None:
        cs = [(bi, p) for bi, t, p in af.calls() if short(p) == 'from_str' and p.split('::')[0] in ('json', 'gambit')]
        ok = len(cs) == 2 and cs[0][1].startswith('json::') and cs[1][1].startswith('gambit::') and \
            any(c['kind'] == 'variant' and c['variants'] == ['Err'] for c in af.conds(cs[1][0])) and not af.conds(cs[0][0])
        if not ok and len(cs) == 1 and cs[0][1].startswith('json::') and not af.conds(cs[0][0]):
            # `json::from_str(x).or_else(|_| gambit::from_str(x))`: the second attempt sits in the closure or_else runs on Err
            for bi, t, e in q.calls_named(af, 'or_else'):
                if len(e[2]) == 2 and q.find_sub(e[2][0], lambda s_: s_[0] == 'call' and s_[1].startswith('json::') and short(s_[1]) == 'from_str') is not None:
                    cf_, _ = q.closure_of(b, e[2][1])
                    if cf_ is not None and [p_.split('::')[0] for _, _, p_ in cf_.calls() if short(p_) == 'from_str'] == ['gambit']:
                        ok = True
                        cs = cs + [(bi, 'gambit::from_str (in the or_else closure)')]
        ctx.verdict(ok, rule, rule + ':auto-order', 'content detection tries JSON first and Gambit only on its Err edge', af.where(cs[0][0]) if cs else af.where(0), 'order: %s' % [p for _, p in cs])

    # ---------------- (2) wiring
    rule = 'C16.wiring'
    sc = [(bi, t, e) for bi, t, e in q.calls_named(m, 'solve') if 'Game' in e[1]]
    if not sc:
        ctx.anchor_lost(rule, 'main: Game::solve call')
    for bi, t, e in sc:
        args = e[2]
        def field_of_args(x):
            x = strip_refs(x)
            return x[2] if x[0] == 'field' and strip_refs(x[1])[0] in ('var', 'call') else None
        # method: local whose definitions are the SolveMethod aggregates
        meth_ok = args[1][0] == 'var' and all(v[0] == 'agg' and 'SolveMethod' in v[1] for _, _, v in q.multi_def_values(m, args[1][1]))
        ctx.verdict(meth_ok, rule, rule + ':method', 'solve() gets the SolveMethod derived from -m', m.where(bi), 'argument %s' % facts.show(args[1]))
        # max_iter: 0 -> u64::MAX else args.max_iters
        it_ok = False
        detail = facts.show(args[2])
        if args[2][0] == 'var':
            vals = q.multi_def_values(m, args[2][1])
            zero = [v for _, cs, v in vals if any(c['kind'] == 'Eq' and c['truth'] is True and is_const(c['b'], 0) and field_of_args(c['a']) == 'max_iters' for c in cs)]
            other = [v for _, cs, v in vals if any(c['kind'] == 'Eq' and c['truth'] is False and field_of_args(c['a']) == 'max_iters' for c in cs)]
            it_ok = len(vals) == 2 and bool(zero) and bool(other) and is_const(zero[0], 2 ** 64 - 1) and field_of_args(other[0]) == 'max_iters'
            detail = 'max_iters == 0 -> %s ; otherwise %s' % (facts.show(zero[0]) if zero else '?', facts.show(other[0]) if other else '?')
        def nz_of_max_iters(x):
            x = strip_refs(x)
            return q.is_call(x, 'new') and 'NonZero' in x[1] and len(x[2]) == 1 and field_of_args(x[2][0]) == 'max_iters'
        a2 = strip_refs(args[2])
        if not it_ok and q.is_call(a2, 'map_or') and len(a2[2]) == 3:
            # NonZeroU64::new(max_iters).map_or(u64::MAX, NonZeroU64::get): None exactly when max_iters == 0
            it_ok = nz_of_max_iters(a2[2][0]) and is_const(a2[2][1], 2 ** 64 - 1) and a2[2][2][0] == 'fn' and short(a2[2][2][1]) == 'get' and 'NonZero' in a2[2][2][1]
        if not it_ok and q.is_call(a2, 'unwrap_or') and len(a2[2]) == 2 and is_const(a2[2][1], 2 ** 64 - 1):
            inner = strip_refs(a2[2][0])
            it_ok = q.is_call(inner, 'map') and len(inner[2]) == 2 and nz_of_max_iters(inner[2][0]) and inner[2][1][0] == 'fn' and short(inner[2][1][1]) == 'get' and 'NonZero' in inner[2][1][1]
        if not it_ok and args[2][0] == 'var':
            vals = q.multi_def_values(m, args[2][1])
            none = [v for _, cs, v in vals if any(c['kind'] == 'variant' and c['variants'] == ['None'] and nz_of_max_iters(c['a']) for c in cs)]
            some = [v for _, cs, v in vals if any(c['kind'] == 'variant' and c['variants'] == ['Some'] and nz_of_max_iters(c['a']) for c in cs)]
            if len(vals) == 2 and len(none) == 1 and len(some) == 1:
                sv = strip_refs(some[0])
                pay = strip_refs(sv[2][0]) if q.is_call(sv, 'get') and 'NonZero' in sv[1] and sv[2] else None
                it_ok = is_const(none[0], 2 ** 64 - 1) and pay is not None and pay[0] == 'field' and strip_refs(pay[1])[0] == 'downcast' and strip_refs(pay[1])[2] == 'Some' and nz_of_max_iters(strip_refs(pay[1])[1])
                detail = 'NonZero::new(max_iters): None -> %s ; Some(n) -> %s' % (facts.show(none[0]), facts.show(some[0])[:60])
        ctx.verdict(it_ok, rule, rule + ':max-iters', 'the iteration budget is -t, with 0 meaning unlimited (u64::MAX)', m.where(bi), detail, breaks='-t 0 runs zero iterations, or the budget comes from another option')
        for i, fld, flag in ((3, 'max_regret', '-r'), (4, 'parallel', '-p')):
            ctx.verdict(field_of_args(args[i]) == fld, rule, '%s:%s' % (rule, fld), 'solve() argument %d is %s (args.%s)' % (i, flag, fld), m.where(bi), 'argument %s' % facts.show(args[i]), breaks='%s is wired to another parameter' % flag)
        par = strip_refs(args[5])
        inner = strip_refs(par[2][0]) if par[0] == 'agg' and par[1].endswith('Option::Some') and par[2] else None
        p_ok = inner is not None and q.is_call(inner, 'into_params') and field_of_args(inner[2][0]) == 'discount'
        if inner is not None and not p_ok and inner[0] == 'var':
            # the mapping inlined into main: every definition is a preset selected by a variant of args.discount
            vals = q.multi_def_values(m, inner[1])
            p_ok = bool(vals) and all(v[0] == 'call' and 'RegretParams' in v[1] and any(c['kind'] == 'variant' and field_of_args(c['a']) == 'discount' for c in cs) for _, cs, v in vals)
        ctx.verdict(p_ok, rule, rule + ':discount', 'solve() gets Some(args.discount.into_params())', m.where(bi), 'argument %s' % facts.show(par)[:60])
    tc = [(bi, t, e) for bi, t, e in q.calls_named(m, 'truncate') if 'Strategies' in e[1]]
    if not tc:
        ctx.anchor_lost(rule, 'main: Strategies::truncate call')
    for bi, t, e in tc:
        # the clip step is unconditional: only -c itself may decide whether it runs
        extra = []
        for c in m.conds(bi):
            if c['kind'] == 'variant':
                continue
            sides = [x for x in (c.get('a'), c.get('b')) if x is not None]
            fields = {y[2] for side in sides for y in facts.walk(side) if y[0] == 'field' and not y[2].isdigit()}
            calls_ = [y for side in sides for y in facts.walk(side) if y[0] == 'call']
            if fields <= {'clip_threshold'} and not calls_:
                continue
            extra.append('%s(%s, %s) edge %s' % (c['kind'], facts.show(c['a'])[:40], facts.show(c['b'])[:30] if c.get('b') is not None else '', c.get('truth')))
        ctx.verdict(not extra, rule, rule + ':clip-unconditional', 'with a clip threshold the pruned profile is always evaluated and compared: the clip step is guarded by nothing but -c itself', m.where(bi),
                    'guards on the truncate call: %s' % extra, breaks='the pruned profile is not printed although its regret is strictly lower (e.g. when -r was reached)')
        # the clone is evaluated *after* it has been truncated
        tl = m.root_place(t['args'][0]) if t['args'][0]['o'] in ('copy', 'move') else None
        if tl is not None and tl[0][0] == 'var':
            gi = [(bj, tj) for bj, tj, ej in q.calls_named(m, 'get_info') if tj['args'] and tj['args'][0]['o'] in ('copy', 'move') and (m.root_place(tj['args'][0]) or ((None, None),))[0] == tl[0]]
            if gi:
                early = [m.where(bj) for bj, tj in gi if not m.dominates(bi, bj)]
                ctx.verdict(not early, rule, rule + ':evaluated-after-truncation', 'the pruned profile is evaluated after truncate() has been applied to it', m.where(bi),
                            '%d evaluation(s) of the truncated clone; not dominated by the truncate call: %s' % (len(gi), early), breaks='the "pruned" regret is the unpruned one: the clipped profile is never (or always) printed')
        x = strip_refs(e[2][1])
        ctx.verdict(x[0] == 'field' and x[2] == 'clip_threshold', rule, rule + ':clip-threshold', 'truncate() gets -c (args.clip_threshold)', m.where(bi), 'argument %s' % facts.show(x))

    # ---------------- (3) clip
    rule = 'C16.clip'
    names = {m.local_name(l): l for l in m.names}
    sw = None
    for s in sorted(m.reach):
        t = m.blocks[s]['term']
        if t['t'] == 'switch':
            c = m.cond_of(s, frozenset(['else']))
            if c['kind'] in ('Lt', 'Le', 'Gt', 'Ge') and q.is_call(strip_refs(c['a']), 'regret') and q.is_call(strip_refs(c['b']), 'regret'):
                sw = (s, c)
    sel = None
    if sw is None:
        # selection by extremum over the pair: `[a, b].into_iter().map(evaluate).min_by(regret)` keeps the *first* of equal
        # minima, so the unpruned profile has to come first for ties to keep it
        trunc_ls = {tt[0][1] for tt in (m.root_place(t['args'][0]) for bi, t, e in q.calls_named(m, 'truncate') if t['args'][0]['o'] in ('copy', 'move')) if tt is not None and tt[0][0] == 'var'}
        for bi, t, e in [x for nm in ('min_by', 'min_by_key') for x in q.calls_named(m, nm)]:
            arr = q.find_sub(e[2][0], lambda x: x[0] == 'agg' and x[1] == 'array' and len(x[2]) == 2)
            if arr is None:
                continue
            def is_pruned(x):
                x0 = strip_refs(x)
                if x0[0] == 'var' and x0[1] in trunc_ls:
                    return True
                x1 = norm(x)
                return x1[0] == 'call' and any(x1[3] == q.def_site(m, l_) for l_ in trunc_ls)
            flags = [is_pruned(x) for x in arr[2]]
            if flags.count(True) == 1:
                sel = (bi, flags, short(e[1]))
    if sw is None and sel is not None:
        bi, flags, nm = sel
        ctx.verdict(flags == [False, True], rule, rule + ':strict-comparison', 'the pruned profile is taken exactly when its regret is strictly lower: a selection by %s keeps the first of equal minima, so the unpruned profile comes first' % nm,
                    m.where(bi), 'candidates in order: %s' % ['pruned' if f_ else 'original' for f_ in flags], breaks='the pruned profile is printed although it is not better (equal regrets)')
        ctx.anchor_lost(rule, 'main: pair replaced together / output uses the pair', 'selection by %s: the remaining clauses are not followed' % nm)
    elif sw is None:
        ctx.anchor_lost(rule, 'main: comparison of the two regrets')
    else:
        s, c = sw
        if c['kind'] in ('Gt', 'Ge'):
            # normalise `x > y` to `y < x`
            c = dict(c, kind={'Gt': 'Lt', 'Ge': 'Le'}[c['kind']], a=c['b'], b=c['a'])
        a, bb = strip_refs(c['a']), strip_refs(c['b'])
        la, lb = norm(a[2][0]), norm(bb[2][0])
        # which evaluation is which: follow the definitions
        def eval_of(x):
            # x is a local holding a StrategiesInfo: the strategies it evaluates
            if x[0] == 'call' and short(x[1]) == 'get_info':
                return norm(x[2][0])
            if x[0] == 'var':
                outs = set()
                for d in m.defs.get(x[1], []):
                    if d[0] == 'call' and short(d[3]['callee'].get('path') or '') == 'get_info':
                        outs.add(norm(m.call_expr(d[3], d[1])[2][0]))
                    elif d[0] == 'assign':
                        outs.add(('assign', norm(m.rvalue_expr(d[3], d[1]))))
                return outs
            return None
        pa, pb = eval_of(la), eval_of(lb)
        # the left side evaluates the truncated clone
        trunc_targets = {m.root_place(t['args'][0]) for bi, t, e in q.calls_named(m, 'truncate') if t['args'][0]['o'] in ('copy', 'move')}
        def same_obj(x, local):
            return x == ('var', local, m.local_name(local)) or (x[0] == 'call' and x[3] == q.def_site(m, local))
        left_is_pruned = pa is not None and not isinstance(pa, set) and any(tt is not None and same_obj(pa, tt[0][1]) for tt in trunc_targets)
        ctx.verdict(c['kind'] == 'Lt' and left_is_pruned, rule, rule + ':strict-comparison', 'the pruned profile is taken exactly when regret(evaluation of the truncated clone) < regret(evaluation of the original) (strict)',
                    m.where(s), '%s(regret(%s), regret(%s)); left evaluates the truncated clone: %s' % (c['kind'], facts.show(la), facts.show(lb), left_is_pruned),
                    breaks='the pruned profile is printed although it is not better (or vice versa)')
        # assignments on the true edge: strategies := pruned clone, info := its evaluation; none on the false edge
        assigned_true, assigned_false = {}, {}
        for bi, si, st in m.assigns():
            if st['pl']['p'] or not (m.local_name(st['pl']['l']) or (m.locals[st['pl']['l']]['ty'].startswith(('cfr::Strategies<', 'Strategies<')) and len(m.defs.get(st['pl']['l'], [])) > 1)):
                continue        # (a spliced helper's `mut` parameter has no name of its own)
            for cc in m.conds(bi):
                if cc['switch'] == s:
                    (assigned_true if cc['truth'] else assigned_false)[st['pl']['l']] = norm(m.rvalue_expr(st['rv'], bi))
        info_l = lb[1] if lb[0] == 'var' else None
        strat_l = None
        if isinstance(pb, set):
            for x in pb:
                if x[0] == 'var':
                    strat_l = x[1]
        good = info_l in assigned_true and strat_l in assigned_true and assigned_true.get(info_l) == la and pa is not None and not isinstance(pa, set) and assigned_true.get(strat_l) == pa
        if not good and len(assigned_true) == 1 and not assigned_false:
            # the pair kept in one record that is replaced as a whole: `profile = Profile { strategies: pruned, info: its evaluation }`
            (_, v_), = assigned_true.items()
            if v_[0] == 'agg' and v_[1] == 'tuple' and len(v_[2]) == 2 and pa is not None and not isinstance(pa, set):
                comps = [norm(x) for x in v_[2]]
                good = any(x == la for x in comps) and any(x == pa or facts.show(x) == facts.show(pa) for x in comps)
        # functional form: both edges build the pair `(profile, its evaluation)` — `if better { (pruned, pruned_info) } else { (original, info) }`
        tuple_form = False
        pairs = {True: [], False: []}
        for bi, si, st in m.assigns():
            rv = st['rv']
            if rv['r'] == 'agg' and rv['kind'].get('k') == 'tuple' and len(rv['ops']) == 2:
                for cc in m.conds(bi):
                    if cc['switch'] == s and cc.get('truth') in (True, False):
                        e_ = m.rvalue_expr(rv, bi)
                        pairs[cc['truth']].append((norm(e_[2][0]), norm(e_[2][1])))
        if len(pairs[True]) == 1 and len(pairs[False]) == 1 and not (good and not assigned_false):
            def obj_eq(x, y):
                # the profile expression y (from eval_of) and the tuple's first component x denote the same object
                return x == y or (y is not None and not isinstance(y, set) and (x == y or facts.show(x) == facts.show(y)))
            (t0, t1), (f0, f1) = pairs[True][0], pairs[False][0]
            tuple_form = True
            good = t1 == la and obj_eq(t0, pa) and f1 == lb and obj_eq(f0, eval_of(lb) if not isinstance(eval_of(lb), set) else None)
            assigned_false = {}
            # the output must read the two components of that pair
            pair_local = None
            for l_, ds_ in m.defs.items():
                if len(ds_) == 2 and all(d[0] == 'assign' and d[3]['r'] == 'agg' for d in ds_):
                    pair_local = l_
        if not good and not assigned_true and not assigned_false and not tuple_form:
            ctx.anchor_lost(rule, 'main: what replaces the profile and its evaluation when the pruned one is better', 'neither assignments nor a pair on the two edges of the comparison')
        else:
          ctx.verdict(bool(good) and not assigned_false, rule, rule + ':pair-replaced-together', 'on the true edge the strategies become the truncated clone and the info becomes *its* evaluation; on the false edge nothing changes',
                    m.where(s), 'true edge assigns %s; false edge assigns %s' % ({m.local_name(k): facts.show(v) for k, v in assigned_true.items()}, {m.local_name(k): facts.show(v) for k, v in assigned_false.items()}),
                    breaks='the printed utilities / regrets belong to another profile than the printed strategies')
        # the output uses exactly these two locals
        outs = list(q.struct_sites(m, 'Output'))
        for bi, st, fields in outs:
            if tuple_form and pair_local is not None:
                pv = ('var', pair_local, m.local_name(pair_local))
                uses_info = all(q.find_sub(e, lambda x: x[0] == 'field' and x[2] == '1' and norm(x[1]) == pv) is not None for k, e in fields.items() if not k.endswith('_strategy'))
                uses_strat = all(q.find_sub(e, lambda x: x[0] == 'field' and x[2] == '0' and norm(x[1]) == pv) is not None for k, e in fields.items() if k.endswith('_strategy'))
                ctx.verdict(uses_info and uses_strat, rule, rule + ':output-uses-the-pair', 'every numeric output field reads the selected info and every strategy field the selected strategies', m.where(bi), 'info: %s strategies: %s (pair form)' % (uses_info, uses_strat))
                continue
            uses_info = all(q.find_sub(e, lambda x: x == ('var', info_l, m.local_name(info_l))) is not None for k, e in fields.items() if not k.endswith('_strategy'))
            uses_strat = all(q.find_sub(e, lambda x: x == ('var', strat_l, m.local_name(strat_l))) is not None for k, e in fields.items() if k.endswith('_strategy'))
            if not (uses_info and uses_strat):
                # evidence of a mix-up: a field reads *another* evaluation / profile local; otherwise the values travel in a
                # way the rule does not follow (returned from a spliced helper as a pair)
                def other_(e_, want_l, tyname):
                    return [y for y in facts.walk(e_) if y[0] == 'var' and y[1] != want_l and m.local_name(y[1]) and tyname in m.locals[y[1]]['ty'] and 'Info' in tyname or
                            (y[0] == 'var' and y[1] != want_l and m.local_name(y[1]) and tyname == 'Strategies<' and m.locals[y[1]]['ty'].startswith(('cfr::Strategies<', 'Strategies<')))]
                mixed = any(other_(e, info_l, 'StrategiesInfo') for k, e in fields.items() if not k.endswith('_strategy')) or any(other_(e, strat_l, 'Strategies<') for k, e in fields.items() if k.endswith('_strategy'))
                if not mixed:
                    ctx.anchor_lost(rule, 'main: where the Output fields read the selected pair from', 'info: %s strategies: %s' % (uses_info, uses_strat))
                    continue
            ctx.verdict(uses_info and uses_strat, rule, rule + ':output-uses-the-pair', 'every numeric output field reads the selected info and every strategy field the selected strategies', m.where(bi), 'info: %s strategies: %s' % (uses_info, uses_strat))
    # ---------------- (4) same serialisation for both destinations
    rule = 'C16.same-serialisation'
    tw = [(bi, t, e) for bi, t, e in m_calls(m)]
    if len(tw) != 2:
        ctx.anchor_lost(rule, 'main: two to_writer calls', 'found %d' % len(tw))
    else:
        (b1, t1, e1), (b2, t2, e2) = tw
        same_val = norm(e1[2][1]) == norm(e2[2][1])
        same_fn = t1['callee'].get('def') == t2['callee'].get('def')
        dest = {True: None, False: None}
        for bi, t, e in tw:
            for c in m.conds(bi):
                if c['kind'] == 'Eq' and 'output' in facts.show(c['a']):
                    dest[c['truth']] = 'stdout' if q.find_sub(e[2][0], lambda x: q.is_call(x, 'stdout')) is not None else 'file' if q.find_sub(e[2][0], lambda x: q.is_call(x, 'create')) is not None else '?'
        ctx.verdict(same_val and same_fn and dest == {True: 'stdout', False: 'file'}, rule, rule, 'stdout (for "-") and the output file receive the same value through the same serde_json function', m.where(b1),
                    'same value: %s, same function: %s, destinations: %s' % (same_val, same_fn, dest), breaks='-o changes what is printed')


def m_calls(m):
    return [(bi, t, m.call_expr(t, bi)) for bi, t, p in m.calls() if short(p).startswith('to_writer') and 'serde_json' in p]
