"""C14 — strategy import validates, normalises, and both import paths agree."""
import divisions
import e2
import facts
import q
from facts import norm, short, strip_refs, is_const

EXPLANATION = """
E8 sibling cross-check of Game::strat_into_box (hash based) and Game::strat_into_box_slow (scan
based) on an abstract skeleton computed from the MIR of the current tree: every guard is abstracted to
a token — lookup in the table derived from parameter n (hit / miss), action lookup (hit / miss),
weight >= 0, weight finite, action != the single action, total == 0, all single-action infosets
seen — and for every error-producing site, for the dense write and for the Ok return the set of path
contexts (disjunctive, so `!(w >= 0 && finite)` is represented exactly) over these tokens is
computed. The two functions must have equal maps *outcome -> contexts* and equal dominance order
between checks (weight before action lookup in multi-action infosets, action before weight in
single-action ones, multi-action table before the single-action table). Absolute rules for each:
every dense write is on the (w >= 0, finite, infoset hit, action hit) path, at an index obtained from
that lookup, a plain store of the weight (last entry wins); unknown action -> InvalidAction, infoset
absent from both tables -> InvalidInfoset; the normalising division is on the total != 0 edge whose
other edge returns UninitializedInfoset; Ok is dominated by the all-seen test; from_named /
from_named_eq pass player p's tables with player p's input. split.rs hands the dense vector's chunks out front to back (both `next` implementations: item = first `len` elements of the rest, remainder kept). UninitializedInfoset is reachable only on the zero-total edge of an infoset or when a single-action infoset was not mentioned. Not decided: magnitude effects (two
huge finite weights whose sum overflows, DESIGN D15).
"""
ASSUMPTIONS = ['HashMap::get and iter().enumerate().find(|x| key == ..) both implement "lookup by key" over the same table']
NOT_DECIDED = ['overflow of the per-infoset total']

LOOKUPS = ('get', 'get_mut', 'find', 'position', 'binary_search', 'iter')
DIRECT_Q = {}      # function -> switches on branch(lookup) (an Option `?` on the lookup itself)


def lookup_ranks(f):
    """table lookups (Option of get / get_mut / find switched on directly), ranked by dominance:
    rank 0 is consulted first, rank 1 on its miss edge, …"""
    sw = []
    direct_q = DIRECT_Q.setdefault(f.name, set())
    direct_q.clear()
    for s in sorted(f.reach):
        t = f.blocks[s]['term']
        if t['t'] != 'switch':
            continue
        d = strip_refs(f.expr(t['d'], s))
        if d[0] == 'discr':
            x = strip_refs(d[1])
            if x[0] == 'call' and short(x[1]) in ('get', 'get_mut', 'find', 'position'):
                sw.append(s)
            elif x[0] == 'call' and short(x[1]) == 'branch' and x[2]:
                # the same lookup consumed by `.ok_or(Error)?`: Continue is the hit, Break the miss
                y = strip_refs(x[2][0])
                if y[0] == 'call' and short(y[1]) in ('ok_or', 'ok_or_else') and y[2] and strip_refs(y[2][0])[0] == 'call' and short(strip_refs(y[2][0])[1]) in ('get', 'get_mut', 'find', 'position'):
                    sw.append(s)
                elif y[0] == 'call' and short(y[1]) in ('get', 'get_mut', 'find', 'position'):
                    # `let hit = table.get(name)?;` inside a spliced Option-returning helper: Continue is the hit
                    sw.append(s)
                    direct_q.add(s)
    ranks = {}
    for s in sw:
        ranks[s] = sum(1 for o in sw if o != s and f.dominates(o, s))
    return ranks


def loop_depth(f, bi):
    return sum(1 for h, body in f.loops if bi in body)


def token(f):
    ranks = lookup_ranks(f)
    # the per-entry action lookup sits in the inner loop over (action, weight) pairs; the infoset lookups in
    # the outer loop over infosets — told apart by loop nesting, not by how the Option is consumed
    depth0 = min([loop_depth(f, s) for s in ranks] or [0])
    action_sw = {s for s in ranks if loop_depth(f, s) > depth0}
    ranks = {s: sum(1 for o in ranks if o != s and o not in action_sw and f.dominates(o, s)) for s in ranks if s not in action_sw}

    def want(c):
        a = c.get('a')
        if c['kind'] == 'variant':
            vs = c['variants']
            s = strip_refs(a)
            if vs in (['Some'], ['None']):
                if c['switch'] in action_sw:
                    return ('A:lookup', 'hit' if vs == ['Some'] else 'miss')
                if c['switch'] in ranks:
                    return ('L:table#%d' % ranks[c['switch']], vs[0])
                return None     # loop structure / other options
            if vs in (['Continue'], ['Break']) and (q.find_sub(a, lambda x: q.is_call(x, 'ok_or')) is not None or c['switch'] in DIRECT_Q.get(f.name, ())):
                if c['switch'] in ranks:
                    return ('L:table#%d' % ranks[c['switch']], 'Some' if vs == ['Continue'] else 'None')
                return ('A:lookup', 'hit' if vs == ['Continue'] else 'miss')
            return None
        if c['kind'] in ('Ge', 'Gt') and c.get('b') is not None and is_const(c['b'], 0):
            return ('W:%s0' % ('>=' if c['kind'] == 'Ge' else '>'), c['truth'])
        if c['kind'] in ('Lt', 'Le') and c.get('b') is not None and is_const(c['b'], 0):
            # `w < 0.0` is the complement of `w >= 0.0` on every finite value; a NaN weight fails the
            # accompanying is_finite test either way (the absolute rule requires both tokens)
            return ('W:%s0' % ('>=' if c['kind'] == 'Lt' else '>'), not c['truth'])
        if c['kind'] == 'IsFinite':
            return ('W:finite', c['truth'])
        if c['kind'] in ('IsNan', 'IsInfinite'):
            return None
        if c['kind'] in ('Ne', 'Eq') and c.get('b') is not None and not is_const(c['b'], 0):
            v = c['truth'] if c['kind'] == 'Ne' else (not c['truth'])
            return ('A:differs', v)
        if c['kind'] == 'Eq' and is_const(c['b'], 0):
            return ('T:zero', c['truth'])
        if c['kind'] == 'Ne' and is_const(c['b'], 0):
            return ('T:zero', not c['truth'])
        if c['kind'] in ('Is:all', 'Is:any') and a is not None:
            # ... of the single-action flags; an all / any over something sized by the multi-action table (a per-slot
            # "written" bitmap) is another test
            txt_ = facts.show(a)
            for x_ in list(facts.walk(a)):
                if x_[0] == 'var':
                    txt_ += ' ' + ' '.join(facts.show(v_) for _, _, v_ in q.multi_def_values(f, x_[1]))
            about_singles = q.find_sub(a, lambda x: x[0] == 'param' and x[1] == 3) is not None or 'single' in txt_
            about_multi = q.find_sub(a, lambda x: x[0] == 'param' and x[1] == 2) is not None or 'num_inds' in txt_ or 'num_actions' in txt_
            if about_multi and not about_singles:
                return ('X:all-slots', c['truth'] if c['kind'] == 'Is:all' else (not c['truth']))
        if c['kind'] == 'Is:all':
            return ('S:all-seen', c['truth'])
        if c['kind'] == 'Is:any':
            # any(|seen| !seen) is !all(|seen| seen)
            return ('S:all-seen', not c['truth'])
        if c['kind'] == 'bool' and q.find_sub(a, lambda x: q.is_call(x, 'all')) is not None:
            return ('S:all-seen', c['truth'])
        return None
    want.ranks = ranks
    want.action_sw = action_sw
    return want


VALUES = {'L': ('Some', 'None'), 'A:lookup': ('hit', 'miss')}


def semantics(cxs, toks):
    """the set of total assignments over `toks` consistent with some context (short-circuited
    checks are don't-cares), so that `!a || !b` evaluated in either order compares equal"""
    import itertools
    toks = sorted(toks)
    doms = []
    for t in toks:
        doms.append(VALUES['L'] if t.startswith('L:') else VALUES['A:lookup'] if t == 'A:lookup' else (True, False))
    out = set()
    for combo in itertools.product(*doms):
        asg = dict(zip(toks, combo))
        for c in cxs:
            if all(asg.get(k) == v for k, v in c):
                out.add(combo)
                break
    return out


def _consistent(f, bi, cxs, want):
    """drop the path contexts that contradict a guard dominating block bi (the path enumeration does not know that a
    `?` follows the variant its operand was built with; the exact edge guards do)"""
    fixed = {}
    for c in f.conds(bi):
        try:
            kv = want(c)
        except Exception:
            kv = None
        if kv:
            fixed[kv[0]] = kv[1]
    keep = [c for c in cxs if all(c.get(k, v) == v for k, v in fixed.items())]
    return keep or cxs


def outcomes(f):
    """outcome -> frozenset of contexts; plus order relation between tokens"""
    want = token(f)
    _ctx0 = f.contexts
    class _F:       # contexts filtered by the dominating guards
        pass
    def contexts_(bi, w):
        return _consistent(f, bi, _ctx0(bi, w), w)
    out = {}
    # error sites
    for bi, st, e in q.agg_sites(f, 'error::StratError'):
        var = e[1].split('::')[-1]
        cxs = contexts_(bi, want)
        # an error passed to ok_or materialises on the miss edge of the `?`
        ok_or_uses = [x for bj, kind, x in q.local_uses(f, st['pl']['l']) if kind == 'arg' and short(x['callee'].get('path') or '') == 'ok_or'] if not st['pl']['p'] else []
        used_in_ok_or = bool(ok_or_uses)
        if used_in_ok_or:
            # which lookup the ok_or belongs to: the switch on branch(ok_or(..)) is a table lookup or the action lookup
            miss = ('A:lookup', 'miss')
            for s_, r_ in want.ranks.items():
                d_ = strip_refs(f.expr(f.blocks[s_]['term']['d'], s_))
                if q.find_sub(d_, lambda y: y[0] == 'call' and short(y[1]) == 'ok_or' and any(y[3] == (f.name, bj) for bj, kind, x in q.local_uses(f, st['pl']['l']) if kind == 'arg')) is not None:
                    miss = ('L:table#%d' % r_, 'None')
            cxs = [dict(c, **{miss[0]: miss[1]}) for c in cxs]
        out.setdefault('Err:' + var, set()).update(frozenset(c.items()) for c in cxs)
    # dense writes: stores into an indexed f64 slice that is the returned box
    for bi, st, pl, rhs in q.stores(f):
        via_index_mut = False
        if st['pl']['p'] and st['pl']['ty'] == 'f64' and [p_['k'] for p_ in st['pl']['p']] == ['deref']:
            # `dense[i] = w` on a Vec<f64>: a store through the reference IndexMut::index_mut hands out
            ds_ = f.defs.get(st['pl']['l'], [])
            via_index_mut = len(ds_) == 1 and ds_[0][0] == 'call' and short(ds_[0][3]['callee'].get('path') or ds_[0][3]['callee'].get('def') or '') == 'index_mut'
        if st['pl']['p'] and (st['pl']['p'][-1]['k'] == 'index' or via_index_mut) and st['pl']['ty'] == 'f64':
            cxs = contexts_(bi, want)
            out.setdefault('write', set()).update(frozenset(c.items()) for c in cxs)
    # seen flags
    for bi, st, pl, rhs in q.stores(f):
        if st['pl']['ty'] == 'bool' and is_const(rhs, 1):
            cxs = contexts_(bi, want)
            out.setdefault('seen', set()).update(frozenset(c.items()) for c in cxs)
    # Ok
    for bi, st, e in q.agg_sites(f, 'result::Result', 'Ok'):
        # the function's own result (also when it is built in the return slot of a spliced driver and moved out)
        moved_out = False
        if st['pl']['l'] != 0 and not st['pl']['p'] and f.locals[st['pl']['l']]['ty'] == f.locals[0]['ty'] and 'Box<[f64]>' in f.locals[0]['ty']:
            us = q.local_uses(f, st['pl']['l'])
            moved_out = bool(us) and all(k_ in ('stmt', 'ref') and x_['pl']['l'] == 0 and not x_['pl']['p'] for _, k_, x_ in us)
        if st['pl']['l'] == 0 or moved_out:
            cxs = contexts_(bi, want)
            out.setdefault('Ok', set()).update(frozenset(c.items()) for c in cxs)
    # order relation
    toks = {}
    for s in sorted(f.reach):
        if f.blocks[s]['term']['t'] == 'switch':
            for labels in ({'else'}, {'0'}, {'1'}):
                try:
                    kv = want(f.cond_of(s, frozenset(labels)))
                except Exception:
                    kv = None
                if kv:
                    toks.setdefault(s, set()).add(kv[0])
    order = set()
    for s1, k1s in toks.items():
        for s2, k2s in toks.items():
            if s1 != s2 and f.dominates(s1, s2) and not any(s1 in body and s2 not in body for h, body in f.loops):
                # only within the same per-entry validation (same loops)
                for k1 in k1s:
                    for k2 in k2s:
                        if k1 != k2:
                            order.add((k1, k2))
    return out, order


def fmt(cxs):
    return sorted(sorted('%s=%s' % kv for kv in c) for c in cxs)


def run(ctx):
    lib = ctx.lib
    import splits
    splits.front_to_back(ctx, 'C14')
    divisions.run(ctx, 'C14')
    fa = ctx.fn('lib', 'Game::<I, A>::strat_into_box', 'C14.anchor')
    fb = ctx.fn('lib', 'Game::<I, A>::strat_into_box_slow', 'C14.anchor')
    if fa is None or fb is None:
        return
    oa, orda = outcomes(fa)
    ob, ordb = outcomes(fb)
    # ---------------- sibling agreement
    rule = 'C14.sibling-agreement'
    keys = sorted(set(oa) | set(ob))
    if len(keys) < 6:
        ctx.anchor_lost(rule, 'outcomes of the import functions', 'found %s' % keys)
    for k in keys:
        a, b = oa.get(k, set()), ob.get(k, set())
        toks = {kk for c in a | b for kk, _ in c}
        same = (a == b) or (len(toks) <= 10 and bool(a) == bool(b) and semantics(a, toks) == semantics(b, toks))
        if k == 'write' and bool(a) != bool(b):
            # one of the two has no indexed store of a weight at all (it reaches the slot some other way): nothing to compare
            ctx.anchor_lost(rule, 'the dense write of %s' % ('the scan-based import' if a else 'the hash-based import'), 'no indexed f64 store found')
            continue
        ctx.verdict(same, rule, '%s:%s' % (rule, k), 'the hash-based and the scan-based import reach outcome %s under exactly the same combinations of checks' % k, '',
                    'hash: %s | scan: %s' % (fmt(a), fmt(b)) if a != b else '%d context(s), identical: %s' % (len(a), fmt(a)),
                    breaks='from_named and from_named_eq disagree on some input')
    # order: relations among the validation tokens
    grp = lambda k: 'W' if k.startswith('W:') else k
    rel = lambda o: {(grp(x), grp(y)) for x, y in o if x[0] in 'WAL' and y[0] in 'WAL' and grp(x) != grp(y)}
    ra, rb = rel(orda), rel(ordb)
    ctx.verdict(ra == rb, rule, rule + ':check-order', 'the two imports perform their checks in the same dominance order (which error wins when several rules are violated)', '',
                'only in hash: %s | only in scan: %s' % (sorted(ra - rb), sorted(rb - ra)) if ra != rb else '%d ordered pairs, identical' % len(ra),
                breaks='an input violating two rules gets different error kinds from the two imports')
    # ---------------- absolute rules, per function
    for f, o, order, nm in ((fa, oa, orda, 'strat_into_box'), (fb, ob, ordb, 'strat_into_box_slow')):
        rule = 'C14.validated-write'
        w = o.get('write', set())
        need = {('W:>=0', True), ('W:finite', True), ('A:lookup', 'hit')}
        ok = bool(w) and all(need <= c and any(k == 'L:table#0' and v == 'Some' for k, v in c) for c in w)

        def replayed(bi_, rhs_):
            # the stored value is an item of a collection built by an earlier stage (not of the caller's input) and no test
            # of it lies on the way: the validated writes were recorded first and are replayed here
            v_ = norm(rhs_)
            nx_ = q.find_sub(v_, lambda x: q.is_call(x, 'next'))
            if nx_ is None:
                return False
            from_input = q.find_sub(nx_, lambda x: x[0] == 'param' and x[1] == 1) is not None
            tested_ = any(c['kind'] in ('IsFinite', 'Ge', 'Gt', 'Lt', 'Le') for c in f.conds(bi_))
            return not from_input and not tested_
        wsites = [(bi, rhs) for bi, st, pl, rhs in q.stores(f) if st['pl']['p'] and st['pl']['p'][-1]['k'] == 'index' and st['pl']['ty'] == 'f64']
        all_replayed = bool(wsites) and all(replayed(bi, rhs) for bi, rhs in wsites)
        if not w:
            ctx.anchor_lost(rule, '%s: the store of a weight into the dense vector' % nm, 'no indexed f64 store found (the slot is reached some other way)')
        elif all_replayed and not ok:
            ctx.anchor_lost(rule, '%s: where the stored weights were validated' % nm, 'the writes replay a list recorded by an earlier stage')
        else:
          ctx.verdict(ok, rule, '%s:%s' % (rule, nm), 'every write to the dense vector happens only for a weight that is >= 0 and finite, in an existing infoset, for a legal action', f.where(0), 'write contexts: %s' % fmt(w),
                    breaks='negative, NaN or infinite weights, or weights for unknown actions, enter the profile')
        # the stored value is the tested weight, stored plainly, at the looked-up index
        for bi, st, pl, rhs in q.stores(f):
            if st['pl']['p'] and st['pl']['p'][-1]['k'] == 'index' and st['pl']['ty'] == 'f64':
                val = norm(rhs)
                tested = [c for c in f.conds(bi) if c['kind'] == 'IsFinite' and c['truth'] is True]
                same = bool(tested) and tested[-1]['a'] == val
                idx = f.local_expr(st['pl']['p'][-1]['l'])
                from_lookup = q.find_sub(idx, lambda x: q.is_call(x, 'ok_or')) is not None or q.find_sub(idx, lambda x: x[0] == 'downcast' and x[2] in ('Some', 'Continue')) is not None
                if all_replayed and not same:
                    continue
                ctx.verdict(same and from_lookup, rule, '%s:%s:value-and-index' % (rule, nm), 'the value stored is the validated weight itself (plain store: a repeated entry overrides) at the index obtained from the lookup of that infoset and action', f.where(bi),
                            'stored value is the tested weight: %s; index from the lookup: %s' % (same, from_lookup), breaks='weights are accumulated instead of overridden, or land in another action\'s slot')
        rule = 'C14.error-kinds'
        ia = o.get('Err:InvalidAction', set())
        ok_a = any(('A:lookup', 'miss') in c for c in ia) and any(('A:differs', True) in c for c in ia)
        ctx.verdict(ok_a, rule, '%s:%s:invalid-action' % (rule, nm), 'an action that the (multi- or single-action) infoset does not have yields InvalidAction', f.where(0), fmt(ia))
        ii = o.get('Err:InvalidInfoset', set())
        ok_i = bool(ii) and all(sum(1 for k, v in c if k.startswith('L:table#') and v == 'None') == 2 for c in ii)
        ctx.verdict(ok_i, rule, '%s:%s:invalid-infoset' % (rule, nm), 'InvalidInfoset is returned exactly when the name is absent from both the multi-action and the single-action table', f.where(0), fmt(ii),
                    breaks='infosets of the other player / unknown infosets are accepted or misreported')
        ip = o.get('Err:InvalidProbability', set())
        ok_p = bool(ip) and all((('W:>=0', False) in c) or (('W:finite', False) in c) for c in ip) and any(('W:>=0', False) in c for c in ip) and any(('W:finite', False) in c for c in ip)
        ctx.verdict(ok_p, rule, '%s:%s:invalid-probability' % (rule, nm), 'InvalidProbability is returned exactly for a weight that is not >= 0 or not finite', f.where(0), fmt(ip))
        ui = o.get('Err:UninitializedInfoset', set())
        ok_u = any(('T:zero', True) in c for c in ui) and any(('S:all-seen', False) in c for c in ui)
        ctx.verdict(ok_u, rule, '%s:%s:uninitialized' % (rule, nm), 'UninitializedInfoset is returned for a zero infoset total and for an unseen single-action infoset', f.where(0), fmt(ui))
        # ... and for nothing else: an infoset that got *some* positive weight is accepted (unspecified actions are zero)
        other = [c for c in ui if ('T:zero', True) not in c and ('S:all-seen', False) not in c]
        if ui:
            ctx.verdict(not other, rule, '%s:%s:uninitialized-only-then' % (rule, nm), 'UninitializedInfoset is returned only on the zero-total edge of an infoset or when a single-action infoset was not mentioned (actions left out of a covered infoset are zero, not an error)',
                        f.where(0), 'other ways to that error: %s' % (fmt(other) if other else 'none'), breaks='a profile that leaves some action of an infoset unspecified (as every exported profile with an unplayed action does) is rejected')
        okc = o.get('Ok', set())
        ok_ok = bool(okc) and all(('S:all-seen', True) in c for c in okc)
        ctx.verdict(ok_ok, rule, '%s:%s:ok-needs-coverage' % (rule, nm), 'Ok is returned only after the all-single-action-infosets-seen test passed', f.where(0), fmt(okc), breaks='profiles that do not cover every infoset are accepted')
        # the zero-total edge returns, the other edge divides
        rule = 'C14.normalise'
        divs = list(e2.f64_divisions(f))
        good = bool(divs)
        for dv in divs:
            g = e2.nonzero_guard(f, dv['bi'], dv['den'])
            good &= g is not None
            den = strip_refs(dv['den'])
            good &= q.is_call(den, 'sum')
        ctx.verdict(good, rule, '%s:%s' % (rule, nm), 'each weight is divided by the (non-zero) sum of its infoset slice', f.where(line=divs[0]['line']) if divs else f.where(0), '%d division(s), guarded by the total != 0 edge and by a sum: %s' % (len(divs), good))
        # layout: partition by num_actions of infos (parameter 2)
        sb = q.calls_named(f, 'split_by_mut')
        lay = False
        for bi, t, e in sb:
            cf, _ = q.closure_of(lib, e[2][1])
            def from_infos(x_):
                if q.find_sub(x_, lambda x: x[0] == 'param' and x[1] == 2) is not None:
                    return True
                # the table kept in a context record built in this function (`DenseWeights { infos, .. }`)
                for y in facts.walk(x_):
                    if y[0] == 'field' and strip_refs(y[1])[0] == 'var':
                        v0 = q.record_field_init(f, strip_refs(y[1])[1], y[2])
                        if v0 is not None and q.find_sub(v0, lambda x: x[0] == 'param' and x[1] == 2) is not None:
                            return True
                return False
            lay = (q.maps_num_actions(lib, cf) or q.maps_num_actions(lib, q.find_sub(e[2][1], lambda x: x[0] == 'fn'))) and from_infos(e[2][1])
        recognisable = any(q.find_sub(e[2][1], lambda x: q.is_call(x, 'map')) is not None for bi, t, e in sb)
        if not lay and not recognisable:
            ctx.anchor_lost('C14.layout', '%s: the lengths the dense vector is split by' % nm, 'not a map over the infoset table')
        else:
          ctx.verdict(lay, 'C14.layout', 'C14.layout:%s:partition' % nm, 'the dense vector is partitioned by num_actions of the same infoset table the indices were allocated from', f.where(sb[0][0]) if sb else f.where(0), 'found: %s' % lay)
    # index allocation walks infos in order with a running counter
    rule = 'C14.layout'
    for f, nm in ((fa, 'strat_into_box'), (fb, 'strat_into_box_slow')):
        counters = []
        for l in sorted(f.mut_scalars | {l for l, ds in f.defs.items() if len(ds) > 1} | {l for l, ds in f.defs.items() if f.locals[l]['ty'] == 'usize' and f.local_name(l)}):
            if f.locals[l]['ty'] != 'usize':
                continue
            ds = f.defs.get(l, [])
            incs = []
            for d in ds:
                if d[0] == 'assign':
                    v = strip_refs(f.rvalue_expr(d[3], d[1]))
                    if v[0] == 'bin' and v[1] == 'Add' and norm(v[2]) == ('var', l, f.local_name(l)):
                        incs.append((d[1], v[3]))
            # increments written through a `&mut` to the counter (a closure capture inlined as a loop body)
            for bi, st, pl, rhs in q.stores(f):
                rp = f.root_place(st['pl'])
                tgt_ = strip_refs(pl)
                if (rp is not None and rp[0] == ('var', l) and not rp[1]) or (tgt_[0] == 'var' and tgt_[1] == l):
                    v = strip_refs(rhs)
                    if v[0] == 'field' and strip_refs(v[1])[0] == 'bin':
                        v = strip_refs(v[1])
                    if v[0] == 'bin' and v[1] in ('Add', 'AddWithOverflow'):
                        lhs_rp = None
                        x = strip_refs(v[2])
                        if norm(v[2]) == ('var', l, f.local_name(l)) or (x[0] == 'var' and x[1] == l):
                            incs.append((bi, v[3]))
            if incs and any(d[0] == 'assign' and is_const(f.rvalue_expr(d[3], d[1]), 0) for d in ds):
                counters.append((l, incs))
        ok = False
        detail = 'no running counter found'
        for l, incs in counters:
            for bi, step in incs:
                s = strip_refs(step)
                unit = is_const(s, 1) or q.is_num_actions(s)
                in_infos_loop = any(q.find_sub(c['a'], lambda x: x[0] == 'param' and x[1] == 2) is not None for c in f.conds(bi) if c['kind'] == 'variant' and c['variants'] == ['Some'])
                if unit and in_infos_loop:
                    ok = True
                    detail = 'counter `%s` starts at 0 and advances by %s inside the walk over the infoset table' % (f.local_name(l) or '_%d' % l, facts.show(s)[:30])
        if not ok:
            # the same walk written with a closure: infos.iter().map(|info| { let start = n; n += info.num_actions(); start })
            for cf in lib.closures_of(f):
                parent, agg = q.parent_agg(lib, cf)
                if agg is None or parent is not f:
                    continue
                for bi, st, pl, rhs in q.stores(cf):
                    tgt = strip_refs(pl)
                    r = strip_refs(rhs)
                    if tgt[0] != 'upvar' or not (r[0] == 'bin' and r[1] == 'Add' and strip_refs(r[2]) == tgt):
                        continue
                    step = strip_refs(r[3])
                    unit = is_const(step, 1) or q.is_num_actions(step)
                    cap = strip_refs(agg[2][tgt[1]]) if tgt[1] < len(agg[2]) else None
                    init0 = cap is not None and cap[0] == 'var' and any(d[0] == 'assign' and d[1] not in () and is_const(f.rvalue_expr(d[3], d[1]), 0) for d in f.defs.get(cap[1], []))
                    # the closure is mapped over an iteration of the infoset table (parameter 2)
                    over = False
                    for bj, t, p in f.calls():
                        if short(p) == 'map':
                            e = f.call_expr(t, bj)
                            c2, _ = q.closure_of(lib, e[2][1]) if len(e[2]) > 1 else (None, None)
                            if c2 is cf and q.find_sub(e[2][0], lambda x: x[0] == 'param' and x[1] == 2) is not None:
                                over = True
                    if unit and init0 and over:
                        ok = True
                        ctx.touch(cf)
                        detail = 'counter captured by the closure mapped over the infoset table starts at 0 and advances by %s' % facts.show(step)[:30]
        if not ok:
            # ... with the per-action step in a closure of that closure:
            # infos.iter().map(|info| info.actions.iter().map(|a| { let i = n; n += 1; (a, i) }).collect())
            for cf in lib.closures_of(f):
                pf, agg = q.parent_agg(lib, cf)
                if agg is None or pf is None or not pf.is_closure:
                    continue
                top, agg_p = q.parent_agg(lib, pf)
                if agg_p is None or top is not f:
                    continue
                for bi, st, pl, rhs in q.stores(cf):
                    tgt = strip_refs(pl)
                    r = strip_refs(rhs)
                    if r[0] == 'field' and strip_refs(r[1])[0] == 'bin':
                        r = strip_refs(r[1])
                    if tgt[0] != 'upvar' or not (r[0] == 'bin' and r[1] in ('Add', 'AddWithOverflow') and strip_refs(r[2]) == tgt) or not is_const(strip_refs(r[3]), 1):
                        continue
                    cap1 = strip_refs(agg[2][tgt[1]]) if tgt[1] < len(agg[2]) else None
                    cap0 = strip_refs(agg_p[2][cap1[1]]) if cap1 is not None and cap1[0] == 'upvar' and cap1[1] < len(agg_p[2]) else None
                    init0 = cap0 is not None and cap0[0] == 'var' and any(d[0] == 'assign' and is_const(f.rvalue_expr(d[3], d[1]), 0) for d in f.defs.get(cap0[1], []))
                    ip = q.item_param(pf)
                    inner = any(q.closure_of(lib, e[2][1])[0] is cf and q.find_sub(e[2][0], lambda x: x[0] == 'field' and x[2] == 'actions' and q.find_sub(x, lambda y: y[0] == 'param' and y[1] == ip) is not None) is not None
                                and not any(q.is_call(x, nm_) for x in facts.walk(e[2][0]) for nm_ in ('rev', 'filter', 'skip', 'take', 'step_by'))
                                for bj, t, e in q.calls_named(pf, 'map') if len(e[2]) > 1)
                    outer = any(q.closure_of(lib, e[2][1])[0] is pf and q.find_sub(e[2][0], lambda x: x[0] == 'param' and x[1] == 2) is not None
                                and not any(q.is_call(x, nm_) for x in facts.walk(e[2][0]) for nm_ in ('rev', 'filter', 'skip', 'take', 'step_by'))
                                for bj, t, e in q.calls_named(f, 'map') if len(e[2]) > 1)
                    if init0 and inner and outer:
                        ok = True
                        ctx.touch(cf)
                        ctx.touch(pf)
                        detail = 'counter captured by the per-action closure inside the closure mapped over the infoset table: starts at 0, advances by 1 per action, both in order'
        if not ok:
            # the same walk as `infos.iter().scan(0, |next, info| { let start = *next; *next += info.num_actions(); Some(start) })`
            for bj, t, e in q.calls_named(f, 'scan'):
                if len(e[2]) != 3 or not is_const(strip_refs(e[2][1]), 0) or q.find_sub(e[2][0], lambda x: x[0] == 'param' and x[1] == 2) is None:
                    continue
                cf, _ = q.closure_of(lib, e[2][2])
                if cf is None or not cf.is_closure:
                    continue
                for bi, st, pl, rhs in q.stores(cf):
                    tgt = strip_refs(pl)
                    r = strip_refs(rhs)
                    if r[0] == 'field' and strip_refs(r[1])[0] == 'bin':
                        r = strip_refs(r[1])
                    if tgt[0] == 'param' and tgt[1] == 2 and r[0] == 'bin' and r[1] in ('Add', 'AddWithOverflow') and strip_refs(r[2]) == tgt:
                        step = strip_refs(r[3])
                        if is_const(step, 1) or q.is_num_actions(step):
                            ok = True
                            ctx.touch(cf)
                            detail = 'scan state starts at 0 and advances by %s per infoset of the table' % facts.show(step)[:30]
        if not ok:
            # no counter at all: the dense vector is cut into per-infoset slices by split_by_mut over the table's
            # num_actions in order, and a weight is written at (position of the infoset, position of the action)
            for bj, t, e in q.calls_named(f, 'split_by_mut'):
                lens = strip_refs(e[2][1]) if len(e[2]) > 1 else None
                if lens is None or not q.is_call(lens, 'map') or len(lens[2]) < 2:
                    continue
                cf, _ = q.closure_of(lib, lens[2][1])
                src = strip_refs(lens[2][0])
                in_order = q.is_call(src, 'iter') and q.find_sub(src, lambda x: x[0] == 'param' and x[1] == 2) is not None and \
                    not any(q.is_call(x, nm_) for x in facts.walk(src) for nm_ in ('rev', 'filter', 'skip', 'take', 'step_by'))
                if cf is not None and in_order and q.is_num_actions(strip_refs(q.ret_expr(cf))):
                    collected = any(q.is_call(strip_refs(ce[2][0]), 'split_by_mut') and strip_refs(ce[2][0])[3] == e[3] for _, _, ce in q.calls_named(f, 'collect') if ce[2])
                    if collected:
                        ok = True
                        ctx.touch(cf)
                        detail = 'no counter: the dense vector is cut by split_by_mut over the table\'s num_actions in order and written per slice (the cut itself: chunks-front-to-back)'
        ctx.verdict(ok, rule, '%s:%s:running-counter' % (rule, nm), 'dense indices are allocated by one walk over the infoset table in order, with a counter that starts at 0 and advances by one per action (or num_actions per infoset)', f.where(0), detail,
                    breaks='import and export disagree on the layout of the dense vector')
    # ---------------- player wiring of the public entry points
    rule = 'C14.player-wiring'
    for suf, callee in (('Game::<I, A>::from_named', 'strat_into_box'), ('Game::<I, A>::from_named_eq', 'strat_into_box_slow')):
        f = ctx.fn('lib', suf, rule)
        if f is None:
            continue
        cs = q.calls_named(f, callee)
        if len(cs) != 2:
            # one call per player written as a loop / a mapped closure over the players: the call must not be skipped
            # for a player under any condition of its own (only the iteration protocol and the previous `?` may guard it)
            hosts = [(f, c_) for c_ in cs] + [(g_, c_) for g_ in lib.closures_of(f) for c_ in q.calls_named(g_, callee)]
            if len(hosts) == 1:
                g_, (bi_, t_, e_) = hosts[0]
                in_iter = g_.is_closure or g_.loop_of(bi_) is not None
                guards = [c for c in g_.conds(bi_) if c['kind'] != 'variant']
                if in_iter:
                    ctx.verdict(not guards, 'C14.ok-through-import', 'C14.ok-through-import:%s' % suf.split('::')[-1],
                                'every Ok(..) built by the entry point lies behind the validating import of both players\' input: the per-player import is not skipped under a condition', g_.where(bi_),
                                'one %s call per iteration over the players; conditions guarding it: %s' % (callee, ['%s(%s) edge %s' % (c['kind'], facts.show(c['a'])[:40], c.get('truth')) for c in guards]),
                                breaks='some inputs (e.g. for a player without multi-action infosets) are accepted without being validated')
            ctx.anchor_lost(rule, '%s: two calls of %s' % (suf, callee), 'found %d' % len(cs))
            continue
        for bi, t, e in cs:
            ts = [q.tags(a) for a in e[2]]
            pn = [(i_, strip_refs(a)[1].rsplit('::', 1)[-1]) for i_, a in enumerate(e[2]) if strip_refs(a)[0] == 'agg' and strip_refs(a)[1] in ('adt:PlayerNum::One', 'adt:PlayerNum::Two')]
            if len(pn) == 1:
                # the player is passed as a number and the import picks the tables itself: `densify(PlayerNum::p, strat_p)`
                g_ = lib.one(callee)
                ppar = pn[0][0] + 1
                picked = set()
                if g_ is not None:
                    for bj, tj, ej in q.calls_named(g_, 'ind'):
                        if len(ej[2]) == 2 and strip_refs(ej[2][0]) == ('param', ppar, g_.local_name(ppar)):
                            picked |= {nm_ for nm_ in ('player_infosets', 'single_infosets') if nm_ in facts.show(ej[2][1])}
                k_ = 0 if pn[0][1] == 'One' else 1
                st_tags = [x for i_, x in enumerate(ts) if i_ != pn[0][0] and x]
                if picked == {'player_infosets', 'single_infosets'} and len(st_tags) == 1 and len(st_tags[0]) == 1:
                    ctx.verdict(st_tags[0] == {k_}, rule, '%s:%s:player-%s' % (rule, suf.split('::')[-1], k_), 'player p\'s named input is densified against player p\'s multi-action and single-action tables', f.where(bi),
                                'input %s is imported as PlayerNum::%s; the import selects both tables by that number' % (sorted(st_tags[0]), pn[0][1]), breaks='a player\'s strategy is validated against the other player\'s infosets')
                else:
                    ctx.anchor_lost(rule, '%s: tables chosen for %s by player number' % (suf, callee), 'tables picked by ind(): %s; input tags %s' % (sorted(picked), [sorted(x) for x in ts]))
                continue
            one = len(ts) == 3 and all(len(x) == 1 for x in ts) and ts[0] == ts[1] == ts[2]
            names = 'player_infosets' in facts.show(e[2][1]) and 'single_infosets' in facts.show(e[2][2])
            k = next(iter(ts[0])) if one else '?'
            ctx.verdict(one and names, rule, '%s:%s:player-%s' % (rule, suf.split('::')[-1], k), 'player p\'s named input is densified against player p\'s multi-action and single-action tables', f.where(bi), 'positions %s' % [sorted(x) for x in ts],
                        breaks='a player\'s strategy is validated against the other player\'s infosets')
        # every successful return lies behind both validations (no early Ok in the entry point)
        oks = [(bi, st) for bi, st, e in q.agg_sites(f, 'result::Result', 'Ok') if 'Strategies' in f.locals[st['pl']['l']]['ty']]
        if not oks:
            ctx.anchor_lost('C14.ok-through-import', '%s: the Ok(..) result' % suf, 'no Ok aggregate found')
        else:
            bad = [bi for bi, st in oks if not all(f.dominates(cb, bi) for cb, _, _ in cs)]
            ctx.verdict(not bad, 'C14.ok-through-import', 'C14.ok-through-import:%s' % suf.split('::')[-1],
                        'every Ok(..) built by the entry point is dominated by the validating import of both players\' input', f.where(bad[0] if bad else oks[0][0]),
                        '%d Ok site(s), %d not behind both %s calls' % (len(oks), len(bad), callee),
                        breaks='some inputs (e.g. on a game without multi-action infosets) are accepted without being validated')
