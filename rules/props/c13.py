"""C13 — named view of a strategy is complete, consistent and round-trips."""
import e2
import e7
import facts
import q
from facts import norm, short, is_const, strip_refs

EXPLANATION = """
Static analysis (MIR of the current tree) of the named view: (1) E7 iterator-contract lint over
every `impl ExactSizeIterator` of library and binary — next() is analysed for how each field of self
is advanced (one element per yielded item, or several), and size_hint() must count exactly the
one-per-item sources with len(), or clone().filter(P).count() with the same predicate P that next()
uses in find(P); (2) completeness — NamedStrategyIter::next returns None only on the path where both
the multi-action table and the single-action table are exhausted, and yields the infoset's own name;
(3) exactly the positive actions — the action iterator skips with the strict predicate `prob > 0.0`
and single-action entries yield the constant 1.0; (4) as_named builds iterator k from the infoset
table, probabilities and single-action table of player k, at array position k; (5) layout agreement
of the export walk: the actions of infoset X are zipped with the first num_actions(X) probabilities
and both cursors advance to the remainders. The import side of the layout is decided under C14.
split.rs hands the dense vector's chunks out front to back (both `next` implementations: item = first `len` elements of the rest, remainder kept). Not decided: equality "up to rounding in the last place" of the round trip.
"""
ASSUMPTIONS = ['slice::split_first / split_at / Iterator::find / zip have their documented std semantics',
               'uniqueness of infoset keys across the two tables is C11.cross-table']
NOT_DECIDED = ['numeric equality of the round trip']

ESI_FLOOR = 6   # counted by hand: compact::IntoIter, compact::OptIntoIter, data::AtomicIter, json::OutcomeIter, NamedStrategyIter, NamedStrategyActionIter


def _tags_unused(e):
    """per-player array positions an expression is read from"""
    out = set()
    for s in facts.walk(e):
        if s[0] == 'cidx' and not s[3]:
            out.add(s[2])
        elif s[0] == 'index' and s[2][0] == 'const' and s[2][1] is not None:
            out.add(int(s[2][1]))
    return out


def run(ctx):
    lib = ctx.lib
    import splits
    splits.front_to_back(ctx, 'C13')
    # (1) E7
    rule = 'C13.exact-size'
    n_impl = 0
    for kind in ('lib', 'bin'):
        crate = ctx.crates.get(kind)
        if crate is None:
            continue
        import inline as _inl
        ref_adts = {k.split('::')[-1] for k in (_inl.known().get(kind + '_adts') or {})}
        for ty in e7.exact_size_impls(crate):
            res, info = e7.check_type(crate, ty)
            if res is None:
                continue
            n_impl += 1
            for f in info or ():
                ctx.touch(f)
            if ref_adts and str(ty).split('<')[0].split('::')[-1] not in ref_adts:
                # an iterator type the reference tree does not have (an adaptor extracted by a refactor): the named view
                # is not built from it directly; its contract is reported as evidence only
                bad_ = [inst for inst, ok, detail, line in (res or [])if not ok]
                ctx.sres(bool(res) and not bad_, rule, '%s:%s:new-type' % (rule, ty), 'size_hint() of a new ExactSizeIterator type matches what next() yields', '', 'not proved for: %s' % (bad_ or 'no source recognised' if not res else bad_))
                continue
            if not res:
                ctx.bad(rule, '%s:%s:no-source' % (rule, ty), 'size_hint is derived from the sources next() advances', '', 'no advanced source recognised in next() of %s' % ty)
            for inst, ok, detail, line in res:
                ctx.verdict(ok, rule, '%s:%s:%s' % (rule, ty, inst),
                            'size_hint() == number of items next() will still yield (ExactSizeIterator contract), per source and enum variant',
                            '%s:%s' % (info[0].file, line), detail,
                            breaks='len() / size_hint() disagree with the number of yielded items')
    if ctx.config == 'default' and n_impl < ESI_FLOOR:
        ctx.anchor_lost(rule, 'ExactSizeIterator impls', 'found %d, expected at least %d' % (n_impl, ESI_FLOOR))

    nx = ctx.fn('lib', "<NamedStrategyIter<'a, I, A> as std::iter::Iterator>::next", 'C13.completeness')
    if nx is not None:
        # (2) completeness
        rule = 'C13.completeness'
        nones = [(bi, st) for bi, st, e in q.agg_sites(nx, 'option::Option', 'None') if st['pl']['l'] == 0]
        if not nones:
            ctx.anchor_lost(rule, 'NamedStrategyIter::next: None result')
        for bi, st in nones:
            cs = nx.conds(bi)
            ex = set()
            for c in cs:
                if c['kind'] == 'variant' and c['variants'] == ['None']:
                    src = q.find_sub(c['a'], lambda s: s[0] == 'call' and short(s[1]) in e7.UNIT)
                    if src is not None:
                        p = e7.self_path(src[2][0])
                        if p:
                            ex.add(p)
            ctx.verdict({'info', 'singles'} <= ex, rule, rule + ':none-only-when-exhausted',
                        'None is returned only where both the multi-action infosets and the single-action infosets are exhausted',
                        nx.where(bi), 'None guarded by exhaustion of: %s' % sorted(ex), breaks='infosets missing from the named view')
        # yields the infoset's own name / action list / probability slice
        somes = [(bi, st, e) for bi, st, e in q.agg_sites(nx, 'option::Option', 'Some') if st['pl']['l'] == 0]
        for bi, st, e in somes:
            tup = strip_refs(e[2][0])
            if tup[0] != 'agg' or len(tup[2]) != 2:
                continue
            name, it = norm(tup[2][0]), tup[2][1]
            data = q.find_sub(it, lambda s: s[0] == 'agg' and s[1].endswith('ActionType::Data'))
            if data is not None:
                # (5) export layout
                rule5 = 'C13.layout-export'
                z = strip_refs(data[2][0])
                ok = False
                detail = 'no zip(actions, probs) found'
                if q.is_call(z, 'zip'):
                    acts, probs = norm(z[2][0]), norm(z[2][1])
                    x_name = name[1] if name[0] == 'field' and name[2] == 'infoset' else None
                    acts_of = q.find_sub(acts, lambda s: s[0] == 'field' and s[2] == 'actions')
                    sp = q.find_sub(probs, lambda s: q.is_call(s, 'split_at'))
                    first = q.find_sub(probs, lambda s: s[0] == 'field' and s[2] == '0' and q.is_call(strip_refs(s[1]), 'split_at'))
                    same_x = acts_of is not None and x_name is not None and norm(acts_of[1]) == x_name
                    n_of = sp is not None and q.is_call(norm(sp[2][1]), 'num_actions') and x_name is not None and norm(norm(sp[2][1])[2][0]) == x_name
                    from_self = sp is not None and e7.self_path(sp[2][0]) == 'probs'
                    ok = bool(same_x and n_of and from_self and first is not None)
                    detail = 'name, actions and num_actions from the same infoset: %s/%s; probabilities = split_at(self.probs, n).0: %s' % (same_x, n_of, bool(from_self and first is not None))
                ctx.verdict(ok, rule5, rule5 + ':zip', 'the actions of infoset X are paired with the first num_actions(X) remaining probabilities', nx.where(bi), detail,
                            breaks='probabilities attributed to the wrong action or infoset')
                # cursors advance to the remainders
                adv = {}
                for bj, st2, pl, rhs in q.stores(nx):
                    p = e7.self_path(pl)
                    if p in ('info', 'probs'):
                        r = norm(rhs)
                        adv[p] = r
                ok_i = 'info' in adv and adv['info'][0] == 'field' and adv['info'][2] == '1' and q.find_sub(adv['info'], lambda s: q.is_call(s, 'split_first')) is not None
                ok_p = 'probs' in adv and adv['probs'][0] == 'field' and adv['probs'][2] == '1' and q.find_sub(adv['probs'], lambda s: q.is_call(s, 'split_at')) is not None
                ctx.verdict(ok_i and ok_p, rule5, rule5 + ':cursors', 'self.info and self.probs advance to the remainders of split_first / split_at', nx.where(bi),
                            'info<-rest: %s, probs<-rest: %s' % (ok_i, ok_p), breaks='infosets or probabilities are repeated or skipped')
            single = q.find_sub(it, lambda s: s[0] == 'agg' and s[1].endswith('ActionType::Single'))
            if single is not None:
                src = q.find_sub(e, lambda s: s[0] == 'call' and short(s[1]) == 'next')
                ok = src is not None and e7.self_path(src[2][0]) == 'singles' and name[0] == 'field' and name[2] == '0' and \
                    q.find_sub(single, lambda s: s[0] == 'field' and s[2] == '1') is not None
                ctx.verdict(ok, 'C13.single-entry', 'C13.single-entry:pairing', 'a single-action entry yields the pair\'s infoset (.0) with the pair\'s action (.1)', nx.where(bi),
                            'name from .0 and action from .1 of the same singles item: %s' % ok)

    an = ctx.fn('lib', "<NamedStrategyActionIter<'a, A> as std::iter::Iterator>::next", 'C13.positive-actions')
    if an is not None:
        rule = 'C13.positive-actions'
        finds = q.calls_named(an, 'find')
        if not finds:
            ctx.anchor_lost(rule, 'NamedStrategyActionIter::next: find')
        for bi, t, e in finds:
            pred, cf, agg = q.closure_pred(lib, e[2][1])
            ctx.touch(cf)
            ok = pred is not None and pred[0] == 'Gt' and is_const(pred[2], 0) and strip_refs(pred[1])[0] in ('field', 'param') and \
                (strip_refs(pred[1])[2] == '1' if strip_refs(pred[1])[0] == 'field' else True)
            ctx.verdict(ok, rule, rule + ':strict-filter', 'actions are skipped exactly when not `prob > 0.0` (strict), on the probability component', an.where(bi),
                        'predicate = %s' % (pred and (pred[0], facts.show(pred[1]), facts.show(pred[2])),), breaks='zero-probability actions listed, or positive ones dropped')
        # an explicit `None` is returned only where the source itself ran out (the reference tree has no explicit None at
        # all: `find(..).map(..)` / `next().map(..)` carry the source's own None) — an early, data-dependent None (e.g.
        # "the mass yielded so far reached 1.0") drops positive actions whose predecessors rounded up
        rule_c = 'C13.action-view-complete'
        for bi, st, e in q.agg_sites(an, 'option::Option', 'None'):
            if st['pl']['l'] != 0:
                continue
            ex = False
            for c in an.conds(bi):
                if c['kind'] == 'variant' and c['variants'] == ['None'] and \
                        q.find_sub(c['a'], lambda s: s[0] == 'call' and short(s[1]) in (e7.UNIT | {'find', 'find_map', 'last', 'nth'})) is not None:
                    ex = True
            ctx.verdict(ex, rule_c, rule_c + ':none-only-when-exhausted', 'the action view returns None only where the infoset\'s actions are exhausted (the source iterator returned None)',
                        an.where(bi), 'None guarded by exhaustion of the source: %s' % ex, breaks='positive-probability actions missing from the named view (and size_hint()/len() overcount)')
        # the mapped value is (action, that probability)
        for bi, t, e in q.calls_named(an, 'map'):
            cf, agg = q.closure_of(lib, e[2][1])
            if cf is None:
                continue
            ctx.touch(cf)
            r = q.ret_expr(cf)
            src = strip_refs(e[2][0])
            if q.is_call(src, 'find'):
                ok = r[0] == 'agg' and r[1] == 'tuple' and norm(r[2][0])[0] == 'field' and norm(r[2][0])[2] == '0' and norm(r[2][1])[0] == 'field' and norm(r[2][1])[2] == '1'
                ctx.verdict(ok, rule, rule + ':yields-pair', 'a multi-action entry yields (action, its probability) unchanged', cf.where(0), 'returned %s' % facts.show(r)[:80])
            elif q.is_call(src, 'next'):
                ok = r[0] == 'agg' and r[1] == 'tuple' and is_const(r[2][1], 1.0)
                ctx.verdict(ok, 'C13.single-entry', 'C13.single-entry:probability-one', 'a single-action entry yields its only action with the constant probability 1.0', cf.where(0),
                            'returned %s' % facts.show(r)[:80], breaks='single-action infosets exported with a probability other than one')

    f = ctx.fn('lib', "Strategies::<'a, I, A>::as_named", 'C13.player-wiring')
    if f is not None:
        rule = 'C13.player-wiring'
        news = q.calls_named(f, 'new', 'NamedStrategyIter')
        if len(news) < 2:
            ctx.anchor_lost(rule, 'as_named: two NamedStrategyIter::new calls', 'found %d' % len(news))
        r0 = strip_refs(q.ret_expr(f))
        for bi, t, e in news:
            ts = [q.tags(a) for a in e[2]]
            fields = ['player_infosets' in facts.show(e[2][0]), 'probs' in facts.show(e[2][1]), 'single_infosets' in facts.show(e[2][2])] if len(e[2]) == 3 else [False]
            one = len(ts) == 3 and all(len(x) == 1 for x in ts) and ts[0] == ts[1] == ts[2]
            k = next(iter(ts[0])) if one else None
            pos = None
            if r0[0] == 'agg' and r0[1] == 'array':
                for i, el in enumerate(r0[2]):
                    if el[0] == 'call' and el[3] == e[3]:
                        pos = i
            ctx.verdict(bool(one and all(fields) and pos == k), rule, '%s:iterator-%s' % (rule, pos),
                        'named iterator k is built from player k\'s infoset table, probability vector and single-action table, and returned at position k', f.where(bi),
                        'tags=%s fields=%s position=%s' % ([sorted(x) for x in ts], fields, pos), breaks='a player\'s strategy is labelled with the other player\'s infosets')
