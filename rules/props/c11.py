"""C11 — game construction accepts exactly the documented class of games."""
import divisions
import e2
import facts
import q
from facts import norm, short, strip_refs, is_const

EXPLANATION = """
Game::init_recurse is one function (plus the per-child closure); "accepts" means reaching one of a
few acceptance effects. The contract of the statement is a table *effect -> checks that must
dominate it on the values involved*, decided on every path of the MIR of the current tree with exact
edge guards: a weight is pushed to the chance weight vector only under `w > 0.0` (strict) and
`w.is_finite()` on that same w; Node::Chance is built only in the arm that excludes 0 outcomes
(EmptyChance) and 1 outcome (collapse), and for an existing chance infoset only on the equal edge of
the comparison of the stored with the new normalised weights; weights are normalised by the sum of
the same vector; an existing multi-action infoset is accepted only on the equal edges of the
comparisons of the stored action list and the stored recall witness; a new multi-action infoset is
inserted only when its actions are pairwise distinct and its name is absent from that player's
single-action table; a single-action infoset is recorded only with the same action as before and a
name absent from the multi-action table, and recursion continues with the recall witness unchanged;
the witness handed to each child of a multi-action node depends on which child it is (the action),
and what is stored at creation is what is compared later; Node::Terminal is built only under
is_finite(payoff). Plus: every GameError variant has a producer, every per-player table access is
selected by the node's own player number, construction starts from an empty witness, compact::Builder::contains
is membership in its backing map (not membership plus a condition on the index found), and the Gambit reader
files every chance node under its own information-set number (and looks a decision node's name up by it).
Not decided: that these checks are *sufficient* for evaluation and solving to be well defined on
everything accepted (e.g. finite positive weights whose sum overflows), and "never panics".
"""
ASSUMPTIONS = ['HashMap / IndexMap entry APIs and slice equality have their documented semantics',
               'IntoGameNode implementations are deterministic (each node is converted once)']
NOT_DECIDED = ['sufficiency of the listed checks (overflow of weight sums, DESIGN D9)', 'absence of panics in general']


def is_len(x):
    x = strip_refs(x)
    return x[0] == 'len' or q.is_call(x, 'len') or (x[0] == 'cast' and is_len(x[1]))


def whole_value_cmp(c):
    """the comparison is on the values themselves, not on their lengths"""
    return c.get('b') is not None and not is_len(c['a']) and not is_len(c['b'])


def run(ctx):
    lib = ctx.lib
    divisions.run(ctx, 'C11')
    f = ctx.fn('lib', 'Game::<I, A>::init_recurse', 'C11.anchor')
    if f is None:
        return
    closures = lib.closures_of(f)
    for c in closures:
        ctx.touch(c)
    top = 'Game::init_recurse'

    # ---- R1 chance weights
    rule = 'C11.chance-weight'
    pushes = []
    for bi, t, e in q.calls_named(f, 'push'):
        a0 = t['args'][0]
        ty = a0['pl']['ty'] if a0['o'] in ('copy', 'move') else ''
        if 'Vec<f64>' in ty:
            pushes.append((bi, t, e))
    if not pushes:
        ctx.anchor_lost(rule, 'init_recurse: push onto the chance weight vector')
    weight_vec = None
    for bi, t, e in pushes:
        w = e[2][1]
        cs = f.conds(bi)
        fin = any(e2.cond_finite(c, w) for c in cs)
        # `w > 0.0` on its true edge; or, given `w.is_finite()`, the false edge of `w <= 0.0` (De Morgan form:
        # `!w.is_finite() || w <= 0.0` rejects) — a NaN cannot take that edge together with the finite test
        wn = norm(w)
        pos = any(e2.cond_positive(c, w) for c in cs) or \
            (fin and any(c['kind'] == 'Le' and c.get('truth') is False and c['a'] == wn and is_const(c['b'], 0) for c in cs))
        weight_vec = norm(e[2][0])
        ctx.verdict(pos and fin, rule, '%s:%s' % (rule, top), 'a weight is stored only under `w > 0.0` (strict) and `w.is_finite()` on that same value', f.where(bi),
                    'strictly positive: %s, finite: %s' % (pos, fin), breaks='zero, negative, NaN or infinite chance weights are accepted')
    # the rejecting edge produces NonPositiveChance
    errs = {}
    for g in [f] + closures:
        wrapped = {}
        # an error value built ahead of the test and handed to a checking helper (`ensure(cond, GameError::X)?`): the
        # place where it *becomes* the result — `Err(that value)` — is where it is produced
        for bi, st, e in q.agg_sites(g, 'result::Result', 'Err'):
            pay = strip_refs(e[2][0]) if e[2] else None
            if pay is not None and pay[0] == 'agg' and pay[1].startswith('adt:') and 'GameError::' in pay[1]:
                wrapped.setdefault(pay[1].split('::')[-1], []).append((g, bi))
        for bi, st, e in q.agg_sites(g, 'error::GameError'):
            v_ = e[1].split('::')[-1]
            uncond = not any(c['kind'] not in ('variant', 'value') for c in g.conds(bi))
            if v_ in wrapped and uncond and not any(b_ == bi for _, b_ in wrapped[v_]):
                continue        # only the construction of the argument; the wrapped sites below stand for it
            errs.setdefault(v_, []).append((g, bi))
        for v_, sites_ in wrapped.items():
            for s_ in sites_:
                if s_ not in errs.get(v_, []):
                    errs.setdefault(v_, []).append(s_)

    # ---- R2 chance node arm and existing infoset
    rule = 'C11.chance-node'
    ch = [(bi, st, e) for bi, st, e in q.agg_sites(f, 'Node', 'Chance')]
    if not ch:
        ctx.anchor_lost(rule, 'init_recurse: Node::Chance')
    for bi, st, e in ch:
        arm = None
        for c in f.conds(bi):
            if c['kind'] == 'value' and 'else' in c['values']:
                t = f.blocks[c['switch']]['term']
                listed = {v for v, _ in t['targets']}
                if {'0', '1'} <= listed and q.is_call(strip_refs(c['a']), 'len'):
                    arm = c
        if arm is None:
            # the same exclusion written as guard clauses: `if outcomes.is_empty() { return Err }`, `if len == 1 { return child }`
            lbs = q.len_lower_bound(f, bi)
            if any(v >= 2 for v in lbs.values()):
                arm = {'a': ('other', 'guard clauses: len >= 2')}
        ctx.verdict(arm is not None, rule, '%s:arm-split:%s' % (rule, top), 'a chance node is built only in the arm that excludes 0 outcomes (error) and 1 outcome (collapsed)', f.where(bi),
                    'guarded by match on %s excluding 0 and 1: %s' % (facts.show(arm['a'])[:40] if arm else '?', arm is not None), breaks='empty or degenerate chance nodes reach the solver')
    # existing chance infoset: index accepted only on the equal edge
    oks = [(bi, st, e) for bi, st, e in q.agg_sites(f, 'result::Result', 'Ok')]
    # `Ok(())` of a validation step (`check_a(..)?; check_b(..)?;` spliced in) that is followed by further steps is not an
    # acceptance: of the unit-valued sites only those not dominated-into by a later one count (guards a strict subset)
    def _sw(bi_):
        return {(c['switch'], str(c.get('truth')), str(c.get('variants'))) for c in f.conds(bi_)}
    unit_sites = [(bi, _sw(bi)) for bi, st, e in oks if not e[2] or strip_refs(e[2][0]) == ('agg', 'tuple', ()) or (strip_refs(e[2][0])[0] == 'const' and strip_refs(e[2][0])[2] == '()')]
    inter = {bi for bi, sw in unit_sites if any(sw < sw2 for bj, sw2 in unit_sites if bj != bi)}
    oks = [x for x in oks if x[0] not in inter]
    found = False
    for bi, st, e in oks:
        cs = f.conds(bi)
        if any(c['kind'] == 'variant' and c['variants'] == ['Occupied'] and 'chance_infosets' in facts.show(c['a']) for c in cs):
            found = True
            def mentions_weights(c):
                return weight_vec is not None and any(norm(x) == weight_vec for side in (c['a'], c['b']) for x in facts.walk(side))
            ne = [c for c in cs if c['kind'] in ('Ne', 'Eq') and c.get('b') is not None and ('probs' in facts.show(c['a']) + facts.show(c['b']) or mentions_weights(c))]
            if not ne:
                # an element-wise comparison `stored.iter().zip(new).all(..)` sees only the common prefix: it needs the
                # equal-length test next to it
                zips = [c for c in cs if c['kind'] == 'Is:all' and c.get('truth') is True and q.find_sub(c['a'], lambda s_: q.is_call(s_, 'zip')) is not None
                        and 'probs' in facts.show(c['a'])]
                if zips:
                    same_len = any(c['kind'] in ('Eq', 'Ne') and ((c['kind'] == 'Eq') == bool(c.get('truth'))) and c.get('b') is not None and is_len(c['a']) and is_len(c['b']) for c in cs)
                    ctx.verdict(same_len, rule, '%s:existing-same-weights:%s' % (rule, top), 'an existing chance infoset is reused only when the stored and the new weight vectors are equal as whole vectors (same length, same entries)', f.where(bi),
                                'element-wise comparison over zip(..); equal-length test on the path: %s' % same_len, breaks='nodes of one chance infoset with different numbers of outcomes are accepted (the surplus outcomes are silently ignored by evaluation)')
                    continue
                # no comparison that involves the weight vector is visible on this path (e.g. behind a helper of a reshaped type)
                ctx.anchor_lost(rule, 'init_recurse: comparison of stored and new chance weights on the occupied path')
                continue
            good = bool(ne) and whole_value_cmp(ne[-1]) and ((ne[-1]['kind'] == 'Ne' and ne[-1]['truth'] is False) or (ne[-1]['kind'] == 'Eq' and ne[-1]['truth'] is True))
            other = weight_vec is not None and ne and (weight_vec in [norm(x) for x in facts.walk(ne[-1]['a'])] + [norm(x) for x in facts.walk(ne[-1]['b'])] or
                                                        any(norm(x) == weight_vec for side in (ne[-1]['a'], ne[-1]['b']) for x in facts.walk(side)))
            ctx.verdict(good and bool(other), rule, '%s:existing-infoset-equal-probs:%s' % (rule, top), 'an existing chance infoset is reused only on the equal edge of (stored weights == this node\'s normalised weights)', f.where(bi),
                        'comparison %s on edge %s against the normalised vector: %s' % (ne[-1]['kind'] if ne else None, ne[-1]['truth'] if ne else None, bool(other)),
                        breaks='chance nodes with different distributions share an infoset (and a sampled outcome)')
    if not found:
        ctx.anchor_lost(rule, 'init_recurse: Ok(index) of an occupied chance entry')

    # ---- R3 normalisation by the own sum
    rule = 'C11.normalise-own-sum'
    divs = list(e2.f64_divisions(f))
    if not divs:
        ctx.anchor_lost(rule, 'init_recurse: normalising division')
    for dv in divs:
        den = strip_refs(dv['den'])
        same = q.is_call(den, 'sum') and weight_vec is not None and any(norm(x) == weight_vec for x in facts.walk(den)) and \
            any(norm(x) == weight_vec for x in facts.walk(dv['num']))
        ctx.verdict(same, rule, '%s:%s' % (rule, top), 'every weight is divided by the sum of the weights of its own node', f.where(line=dv['line']),
                    'numerator ranges over and divisor sums the vector the weights were pushed to: %s' % same, breaks='probabilities do not sum to one / rescaling invariance is lost')

    # ---- player arm
    def player_arm(bi):
        return any(c['kind'] == 'variant' and c['variants'] == ['Player'] for c in f.conds(bi))

    def is_len(x):
        x = strip_refs(x)
        return q.is_call(x, 'len') or x[0] == 'len'

    def multi_arm(bi, g=f):
        if not player_arm(bi):
            return False
        for c in g.conds(bi):
            if c['kind'] == 'value' and 'else' in c['values'] and is_len(c['a']):
                return True
        # the same exclusion of 0 and 1 actions written as guard clauses / comparisons
        return any(v >= 2 for v in q.len_lower_bound(g, bi).values())

    def single_arm(bi):
        if not player_arm(bi):
            return False
        for c in f.conds(bi):
            if c['kind'] == 'value' and c['values'] == ['1'] and is_len(c['a']):
                return True
            if c['kind'] == 'Eq' and c.get('truth') is True and is_len(c['a']) and c.get('b') is not None and is_const(c['b'], 1):
                return True
        # exactly one action left by guard clauses (`if v.is_empty() {..} else if v.len() > 1 {..}`)
        lo, hi = q.len_lower_bound(f, bi), q.len_upper_bound(f, bi)
        return any(lo.get(k_) == 1 and v_ == 1 for k_, v_ in hi.items())

    # the recall witness, identified by type rather than by name: the per-player array-of-Option parameter of
    # init_recurse and the Option-typed field of the infoset builder
    wit_param = next((l for l in range(1, f.argc + 1) if f.locals[l]['ty'].startswith('[std::option::Option<') and f.locals[l]['ty'].endswith('; 2]')), None)
    badt = lib.adts.get('PlayerInfosetBuilder') or []
    wit_field = next((n for n, ty in zip(badt[0].get('fields', []), badt[0].get('ftys', [])) if 'Option<' in ty), 'prev_infoset') if badt else 'prev_infoset'

    def mentions_witness(x):
        return q.find_sub(x, lambda s_: (s_[0] == 'field' and s_[2] == wit_field) or (wit_param is not None and s_[0] in ('param', 'var') and s_[1] == wit_param)) is not None

    # ---- R4 existing multi-action infoset
    rule = 'C11.existing-infoset'
    found = False
    for bi, st, e in oks:
        cs = f.conds(bi)
        if multi_arm(bi) and any(c['kind'] == 'variant' and c['variants'] == ['Occupied'] for c in cs):
            found = True
            cmp_ = [c for c in cs if c['kind'] in ('Ne', 'Eq')]
            acts = [c for c in cmp_ if 'actions' in facts.show(c['a']) + facts.show(c['b'])]
            prev = [c for c in cmp_ if mentions_witness(c['a']) or mentions_witness(c['b'])]
            eq = lambda c: whole_value_cmp(c) and ((c['kind'] == 'Ne' and c['truth'] is False) or (c['kind'] == 'Eq' and c['truth'] is True))
            ctx.verdict(bool(acts) and eq(acts[-1]), rule, '%s:same-actions:%s' % (rule, top), 'an existing infoset is reused only on the equal edge of (stored action list == this node\'s action list)', f.where(bi),
                        'action comparison: %s' % ((acts and (acts[-1]['kind'], acts[-1]['truth'])),), breaks='nodes of one infoset with different actions are accepted')
            witness_is_ind = bool(prev) and any(q.is_call(strip_refs(x), 'ind') for side in (prev[-1]['a'], prev[-1]['b']) for x in [side])
            ctx.verdict(bool(prev) and eq(prev[-1]) and witness_is_ind, rule, '%s:same-recall-witness:%s' % (rule, top),
                        'an existing infoset is reused only on the equal edge of (stored recall witness == this player\'s current witness)', f.where(bi),
                        'witness comparison: %s against ind(player, prev): %s' % ((prev and (prev[-1]['kind'], prev[-1]['truth'])), witness_is_ind), breaks='imperfect-recall trees are accepted')
    if not found:
        ctx.anchor_lost(rule, 'init_recurse: Ok(index) of an occupied player entry')

    # ---- R5 new multi-action infoset
    rule = 'C11.new-infoset'
    ins = [(bi, t, e) for bi, t, e in q.calls_named(f, 'insert') if multi_arm(bi) and any(c['kind'] == 'variant' and c['variants'] == ['Vacant'] for c in f.conds(bi))]
    if not ins:
        ctx.anchor_lost(rule, 'init_recurse: insert of a new multi-action infoset')
    for bi, t, e in ins:
        cs = f.conds(bi)
        uniq = [c for c in cs if c['kind'] == 'Eq' and c['truth'] is True and q.is_call(strip_refs(c['a']), 'len') and q.is_call(strip_refs(c['b']), 'len')]
        u_ok = False
        if uniq:
            a, b = strip_refs(uniq[-1]['a'])[2][0], strip_refs(uniq[-1]['b'])[2][0]
            # one side is a HashSet collected from the other side's elements
            for x, y in ((a, b), (b, a)):
                xs = strip_refs(x)
                if q.is_call(xs, 'collect') and any(norm(z) == norm(y) for z in facts.walk(xs)):
                    # ... a *set*: a Vec of the same elements has the same length whatever repeats (`dedup()` only drops
                    # adjacent repeats, so it needs a sort before it to count distinct elements)
                    cty = ''
                    if len(xs) > 3 and xs[3] and xs[3][0] == f.name:
                        tt_ = f.blocks[xs[3][1]]['term']
                        cty = str(tt_.get('dest', {}).get('ty', ''))
                    if 'HashSet' in cty or 'BTreeSet' in cty or 'IndexSet' in cty:
                        u_ok = True
                    elif 'Vec<' in cty:
                        sorts = [bj for bj, _, se in q.calls_named(f, 'sort') + q.calls_named(f, 'sort_unstable') + q.calls_named(f, 'sort_by') + q.calls_named(f, 'sort_unstable_by')]
                        dd = [bj for bj, _, de in q.calls_named(f, 'dedup')]
                        u_ok = bool(dd) and any(f.dominates(sb, db_) for sb in sorts for db_ in dd)
                    else:
                        u_ok = True
        ctx.verdict(u_ok, rule, '%s:distinct-actions:%s' % (rule, top), 'a new infoset is inserted only if the set of its actions has as many elements as the list', f.where(bi), 'uniqueness test dominates: %s' % u_ok,
                    breaks='duplicate actions are accepted')
        cross = [c for c in cs if c['kind'] in ('Is:contains_key', 'Is:contains') and c['truth'] is False and 'single_infosets' in facts.show(c['a'])]
        # the name looked up is this node's infoset name
        name_expr = None
        ent = q.find_sub(e[2][0], lambda s: q.is_call(s, 'entry'))
        if ent is not None:
            name_expr = norm(ent[2][1])
        same_name = bool(cross) and name_expr is not None and norm(cross[-1]['b']) == name_expr
        ctx.verdict(bool(cross) and same_name, rule, '%s:cross-table:%s' % (rule, top), 'a new multi-action infoset is inserted only if its name is absent from the same player\'s single-action table', f.where(bi),
                    'absent-from-single-table test on the same name dominates: %s' % (bool(cross) and same_name), breaks='one infoset name with one action here and several there: listed twice, cannot be re-imported')
        # stored witness == compared witness
        stored = q.ctor_field(lib, e, 'PlayerInfosetBuilder', wit_field, new_arg=1)
        stored = strip_refs(stored) if stored is not None else None
        ctx.verdict(stored is not None and q.is_call(stored, 'ind') and mentions_witness(stored), 'C11.recall-witness-stored', 'C11.recall-witness-stored:%s' % top,
                    'the witness stored with a new infoset is this player\'s current witness ind(player, prev_infosets) — the value later nodes are compared with', f.where(bi),
                    'stored: %s' % (facts.show(stored)[:70] if stored else '?'))

    # ---- R6 single-action infosets
    rule = 'C11.single-action'
    sins = [(bi, t, e) for bi, t, e in q.calls_named(f, 'insert') if single_arm(bi)]
    if not sins:
        ctx.anchor_lost(rule, 'init_recurse: insert of a single-action infoset')
    for bi, t, e in sins:
        cs = f.conds(bi)
        cross = [c for c in cs if c['kind'] in ('Is:contains_key', 'Is:contains') and c['truth'] is False and 'player_infosets' in facts.show(c['a'])]
        ent = q.find_sub(e[2][0], lambda s: q.is_call(s, 'entry'))
        # the name recorded: the key of the entry, or the key argument of a plain `map.insert(name, action)`
        key = ent[2][1] if ent is not None else (e[2][1] if len(e[2]) == 3 else None)
        same_name = bool(cross) and key is not None and norm(cross[-1]['b']) == norm(key)
        if cross:
            # ... of the *same player*: the table is picked by the node's player number, never by a fixed position
            fixed = sorted(q.tags(cross[-1]['a']))
            by_player = q.find_sub(cross[-1]['a'], lambda s_: s_[0] == 'call' and short(s_[1]) in ('ind', 'ind_mut')) is not None or \
                q.find_sub(cross[-1]['a'], lambda s_: s_[0] == 'index' and s_[2][0] != 'const') is not None
            if fixed or by_player:
                ctx.verdict(not fixed and by_player, rule, '%s:cross-table:own-player:%s' % (rule, top), 'the multi-action table consulted for a single-action node is the one of the node\'s own player', f.where(bi),
                            'table selected by the player number: %s; fixed positions: %s' % (by_player, fixed), breaks='an infoset of player two can be single-action here and multi-action there: no named strategy can be imported for such a game')
        ctx.verdict(bool(cross) and same_name, rule, '%s:cross-table:%s' % (rule, top), 'a single-action infoset is recorded only if its name is absent from the same player\'s multi-action table', f.where(bi),
                    'absent-from-multi-table test on the same name dominates: %s' % (bool(cross) and same_name), breaks='one infoset name with one action here and several there')
    # re-met single-action infoset: same action
    recs = [(bi, t, e) for bi, t, e in q.calls_named(f, 'init_recurse') if single_arm(bi)]
    if not recs:
        ctx.anchor_lost(rule, 'init_recurse: recursion below a single-action node')
    for bi, t, e in recs:
        # on the occupied path the stored action equals the node's action; cross-table test also dominates the recursion
        cs = f.conds(bi)
        cross = [c for c in cs if c['kind'] in ('Is:contains_key', 'Is:contains') and c['truth'] is False]
        w = strip_refs(e[2][4])
        unchanged = w == ('param', 5, f.local_name(5))
        ctx.verdict(unchanged, rule, '%s:witness-unchanged:%s' % (rule, top), 'below a single-action node the recall witness is passed on unchanged (such nodes are exempt)', f.where(bi), 'witness argument = %s' % facts.show(w),
                    breaks='single-action nodes start to count as decisions for recall')
        ctx.verdict(bool(cross), rule, '%s:cross-table-dominates-recursion:%s' % (rule, top), 'the cross-table test dominates the continuation', f.where(bi), 'found: %s' % bool(cross))
    occ_ne = False
    for g, sites in [(f, errs.get('ActionsNotEqual', []))]:
        for gg, bi in sites:
            cs = gg.conds(bi)
            # an entry already there (`Occupied` of the entry API, or `Some` of a get on the single-action table) whose
            # stored action differs from this node's
            present = any(c['kind'] == 'variant' and (c['variants'] == ['Occupied'] or (c['variants'] == ['Some'] and q.is_call(strip_refs(c['a']), 'get') and 'HashMap' in strip_refs(c['a'])[1])) for c in cs)
            differs = any(((c['kind'] == 'Ne' and c['truth'] is True) or (c['kind'] == 'Eq' and c['truth'] is False)) and not (strip_refs(c['a'])[0] == 'call' and short(strip_refs(c['a'])[1]) == 'len') for c in cs)
            if gg is f and single_arm(bi) and present and differs:
                occ_ne = True
    if not occ_ne and not sins and not recs:
        ctx.anchor_lost(rule, 'init_recurse: the single-action arm')
    else:
      ctx.verdict(occ_ne, rule, '%s:same-action:%s' % (rule, top), 'a re-met single-action infoset with a different action is rejected (ActionsNotEqual on the unequal edge)', '', 'found: %s' % occ_ne)

    # ---- R7 the witness handed to a child depends on which child it is
    rule = 'C11.recall-witness-action'
    sites = []
    for g in [f] + closures:
        for bi, t, e in q.calls_named(g, 'init_recurse'):
            in_multi = (g is not f) or multi_arm(bi)
            if g is f and not multi_arm(bi):
                continue
            sites.append((g, bi, t, e))
    if not sites:
        ctx.anchor_lost(rule, 'init_recurse: recursion below a multi-action node')
    for g, bi, t, e in sites:
        w = e[2][4]
        # per-child roots: closure parameters (>= 2) or the item of the innermost loop
        def per_child(x):
            if g.is_closure:
                return q.find_sub(x, lambda s: s[0] == 'param' and s[1] >= 2) is not None
            lp = g.loop_of(bi)
            if lp is None:
                return False
            return q.find_sub(x, lambda s: s[0] == 'downcast' and s[2] == 'Some' and q.is_call(s[1], 'next') and s[1][3][1] in lp[1]) is not None
        dep = per_child(w)
        how = 'argument mentions the child'
        if not dep:
            # a store to the witness place dominating the call, whose value depends on the child
            wroot = g.root_place(t['args'][4]) if t['args'][4]['o'] in ('copy', 'move') else None
            for bj, st, pl, rhs in q.stores(g):
                if not g.dominates(bj, bi):
                    continue
                import e9
                prov = e9.provenance(lib, g, pl)
                same_obj = wroot is not None and any(x == ('shared', g.key_name(wroot).split('.')[0]) or (x[0] == 'local' and wroot[0] == ('var', x[1])) for x in prov)
                if same_obj and per_child(rhs):
                    info_dep = q.find_sub(rhs, lambda s: s[0] in ('upvar', 'var', 'field')) is not None
                    dep = True
                    how = 'witness place assigned %s before the call' % facts.show(rhs)[:60]
        ctx.verdict(dep, rule, '%s:%s' % (rule, top), 'the recall witness passed to each child of a multi-action node depends on which action the child belongs to, not only on the infoset', g.where(bi),
                    how if dep else 'the same witness value is passed to every child: no later check can distinguish two actions of one infoset',
                    breaks='a player may forget their own action: such trees are accepted and evaluated incorrectly')

    # ---- R7b the witness written for a child names a decision: always Some((infoset, action))
    rule = 'C11.recall-witness-some'
    import e9 as _e9
    n_w = 0
    for g in [f] + closures:
        for bj, st, pl, rhs in q.stores(g):
            if not st['pl']['ty'].startswith('std::option::Option<(usize, usize)') and 'Option<' not in st['pl']['ty']:
                continue
            if ('shared', 'prev_infosets') not in _e9.provenance(lib, g, pl) and 'prev_infosets' not in facts.show(pl):
                continue
            n_w += 1
            r = strip_refs(rhs)

            def may_be_none(x, depth=0, g=g):
                # None / not known to be Some: True, definitely Some: False, unknown: None
                x = strip_refs(x)
                if x[0] == 'agg' and x[1].endswith('Option::Some'):
                    return False
                if x[0] == 'agg' and x[1].endswith('Option::None'):
                    return True
                if x[0] == 'call' and short(x[1]) in ('map', 'and_then', 'filter', 'then', 'then_some', 'or', 'xor', 'zip') and 'option' in x[1].lower() and x[2]:
                    inner = may_be_none(x[2][0], depth + 1, g)
                    return True if inner is True or short(x[1]) in ('and_then', 'filter') else inner
                if x[0] == 'var' and depth < 4:
                    vals = [may_be_none(v, depth + 1, g) for _, _, v in q.multi_def_values(g, x[1])]
                    if vals and any(v is True for v in vals):
                        return True
                    if vals and all(v is False for v in vals):
                        return False
                if x[0] in ('upvar',) and g.is_closure and depth < 4:
                    par_, agg_ = q.parent_agg(lib, g)
                    if par_ is not None and agg_ is not None:
                        return may_be_none(q.simplify(q.subst_upvars(lib, g, x)), depth + 1, par_)
                return None
            verdict_ = may_be_none(r)
            if verdict_ is None:
                ctx.anchor_lost(rule, 'init_recurse: value written to the recall witness', facts.show(r)[:60])
            else:
                ctx.verdict(verdict_ is False, rule, '%s:%s' % (rule, top), 'the recall witness handed to a child is always Some((infoset, action)) of a real decision: a collapsed single-action node must leave the entry untouched, never clear it',
                            g.where(bj), 'written value %s' % facts.show(r)[:70], breaks='a forced move between two infosets of a player erases what the player remembers: valid games are rejected (ImperfectRecall) or best responses are evaluated in the wrong order')
    if n_w == 0:
        ctx.anchor_lost(rule, 'init_recurse: store to the recall witness')

    # ---- R7c the finished infoset keeps the *infoset* half of that pair as its link to the previous infoset
    rule = 'C11.prev-infoset-link'
    pos_infoset = None
    for g in [f] + closures:
        for bj, st, pl, rhs in q.stores(g):
            r = strip_refs(rhs)
            if not (r[0] == 'agg' and r[1].endswith('Option::Some') and r[2]):
                continue
            tup = strip_refs(r[2][0])
            if not (tup[0] == 'agg' and tup[1] == 'tuple' and len(tup[2]) == 2) or 'prev_infosets' not in facts.show(pl):
                continue
            # the action half is the one that changes from child to child (the enumeration counter / a closure parameter)
            def per_child_(x, g=g, bj=bj):
                if g.is_closure and q.find_sub(x, lambda s_: s_[0] == 'param' and s_[1] >= 2) is not None:
                    return True
                lp = g.loop_of(bj)
                return lp is not None and q.find_sub(x, lambda s_: s_[0] == 'downcast' and s_[2] == 'Some' and q.is_call(s_[1], 'next') and s_[1][3][1] in lp[1]) is not None
            flags = [per_child_(x) for x in tup[2]]
            if flags.count(True) == 1:
                pos_infoset = flags.index(False)
    nf = lib.one('PlayerInfosetData::<I, A>::new')
    link = None
    if nf is not None:
        ctx.touch(nf)
        for bi, st, fields in q.struct_sites(nf, 'PlayerInfosetData'):
            v = fields.get('prev_infoset')
            if v is None:
                continue
            v = strip_refs(v)
            if q.is_call(v, 'map') and len(v[2]) == 2:
                cf, _ = q.closure_of(lib, v[2][1])
                if cf is not None:
                    ctx.touch(cf)
                    rr = strip_refs(q.ret_expr(cf))
                    if rr[0] == 'field' and str(rr[2]).isdigit() and strip_refs(rr[1])[0] == 'param':
                        link = (int(rr[2]), nf.where(bi))
    if pos_infoset is None or link is None:
        ctx.anchor_lost(rule, 'the (infoset, action) pair written in init_recurse / the half kept by PlayerInfosetData::new', 'pair position %s, kept half %s' % (pos_infoset, link and link[0]))
    else:
        ctx.verdict(link[0] == pos_infoset, rule, rule, 'the link to a player\'s previous infoset stored in the finished game is the infoset index of the recall witness (not the action index)', link[1],
                    'witness pair holds the infoset index at position %d; PlayerInfosetData::new keeps position %d' % (pos_infoset, link[0]),
                    breaks='best responses are resolved in the wrong order (or panic): wrong regrets on games where a player decides twice')

    # ---- R8 terminal payoff
    rule = 'C11.terminal-finite'
    terms = [(bi, st, e) for bi, st, e in q.agg_sites(f, 'Node', 'Terminal')]
    if not terms:
        ctx.anchor_lost(rule, 'init_recurse: Node::Terminal')
    for bi, st, e in terms:
        fin = any(e2.cond_finite(c, e[2][0]) for c in f.conds(bi))
        ctx.verdict(fin, rule, '%s:%s' % (rule, top), 'a terminal node is built only under `payoff.is_finite()` on that payoff', f.where(bi), 'finite test dominates: %s' % fin,
                    breaks='NaN or infinite payoffs are accepted; every utility and regret is then undefined')

    # ---- R9 every error has a producer, on a rejecting edge
    rule = 'C11.error-producers'
    variants = [v['name'] for v in lib.adts.get('error::GameError', [])]
    if not variants:
        ctx.anchor_lost(rule, 'enum GameError', hard=True)
    for v in variants:
        ctx.verdict(v in errs, rule, '%s:%s' % (rule, v), 'every documented GameError has a producer in game construction', '%s' % (errs[v][0][0].where(errs[v][0][1]) if v in errs else ''),
                    '%d producer site(s)' % len(errs.get(v, [])), breaks='a documented rule is never enforced')

    # ---- R10 tables selected by the node's own player number
    rule = 'C11.own-player-table'
    n = 0
    bad = []
    for g in [f] + closures:
        for bi, t, p in g.calls():
            if short(p) in ('ind', 'ind_mut') and 'PlayerNum' in p:
                n += 1
                e = g.call_expr(t, bi)
                who = strip_refs(e[2][0])
                ok = (who[0] == 'field' and who[2] == '0' and who[1][0] == 'downcast' and who[1][2] == 'Player') or who[0] == 'upvar'
                if not ok:
                    bad.append((g.where(bi), facts.show(who)))
    ctx.verdict(not bad and n >= 6, rule, '%s:%s' % (rule, top), 'every per-player table (and witness) access is selected by the player number of the node being converted', f.where(0), '%d accesses; others: %s' % (n, bad),
                breaks='validation of one player\'s node consults the other player\'s tables')

    # ---- from_root starts empty
    fr = ctx.fn('lib', 'Game::<I, A>::from_root', 'C11.from-root')
    if fr is not None:
        for bi, t, e in q.calls_named(fr, 'init_recurse'):
            w = strip_refs(e[2][4])
            ok = w[0] == 'repeat' and w[1][0] == 'agg' and w[1][1].endswith('Option::None')
            ctx.verdict(ok, 'C11.from-root', 'C11.from-root:empty-witness', 'construction starts with the empty recall witness [None; 2]', fr.where(bi), 'initial witness %s' % facts.show(w))

    # ---- the gambit reader hands every node over under its own information-set id
    rule = 'C11.reader-infoset-key'
    g = ctx.bin.one("<gambit::JoinedNode<'_> as cfr::IntoGameNode>::into_game_node") if ctx.bin is not None else None
    if g is None:
        if ctx.bin is not None:
            ctx.anchor_lost(rule, 'gambit into_game_node')
    else:
        ctx.touch(g)
        for variant, slot in (('Chance', 0), ('Player', 1)):
            sites = list(q.agg_sites(g, 'GameNode', variant))
            if not sites:
                ctx.anchor_lost(rule, 'gambit into_game_node: GameNode::%s' % variant)
            for bi, st, e in sites:
                key = e[2][slot]
                # accessor calls of the parsed node (gambit_parser::Chance / Player) that the key is computed from
                acc = [x for x in facts.walk(key) if x[0] == 'call' and 'gambit_parser::' + variant in x[1] and x[2]
                       and q.find_sub(x[2][0], lambda y: y[0] == 'downcast' and y[2] == variant) is not None]
                names = sorted({short(x[1]) for x in acc})
                if not acc:
                    ctx.anchor_lost(rule, 'gambit into_game_node: what the information set of a %s node is named after' % variant.lower(), 'key %s' % facts.show(key)[:80])
                    continue
                want = {'infoset'} if variant == 'Chance' else {'infoset', 'player_num'}
                ctx.verdict('infoset' in names and set(names) <= want, rule, '%s:%s' % (rule, variant.lower()),
                            'a %s node of a Gambit file is filed under its information-set number' % variant.lower() + (' (in its player\'s name table)' if variant == 'Player' else ''),
                            g.where(bi), 'key computed from the node\'s %s' % ', '.join(n_ + '()' for n_ in names),
                            breaks='nodes of different information sets are merged (valid files rejected with ProbabilitiesNotEqual / ActionsNotEqual) or nodes of one set are split')

    # ---- Builder::contains is membership
    rule = 'C11.builder-contains'
    bc = lib.one('compact::Builder::<K, V>::contains')
    if bc is None:
        if any(short(p) == 'contains' and 'compact::Builder' in p for g in [f] + closures for _, _, p in g.calls()):
            ctx.anchor_lost(rule, 'compact::Builder::contains')
    else:
        ctx.touch(bc)
        r = strip_refs(q.ret_expr(bc))
        on_map = lambda x: x[0] == 'call' and len(x[2]) == 2 and q.find_sub(x[2][0], lambda y: y[0] == 'field' and strip_refs(y[1])[0] == 'param') is not None \
            and q.find_sub(x[2][1], lambda y: y[0] == 'param' and y[1] == 2) is not None
        LOOKUPS = ('get', 'get_index_of', 'get_full', 'get_key_value')
        verdict = None
        if on_map(r) and short(r[1]) == 'contains_key':
            verdict = True
        elif q.is_call(r, 'is_some') and on_map(strip_refs(r[2][0])) and short(strip_refs(r[2][0])[1]) in LOOKUPS:
            verdict = True
        elif r[0] == 'call' and r[2] and on_map(strip_refs(r[2][0])) and short(strip_refs(r[2][0])[1]) in LOOKUPS and short(r[1]) in ('is_some_and', 'map_or', 'is_none_or', 'map_or_else', 'filter'):
            verdict = False      # presence *and* a condition on what was found
        if verdict is None:
            ctx.anchor_lost(rule, 'compact::Builder::contains: membership test of the backing map', 'returns %s' % facts.show(r)[:80])
        else:
            ctx.verdict(verdict, rule, rule, 'Builder::contains(key) is exactly "key has been entered": a single-action occurrence of an infoset that already has an entry is recognised whichever index that entry got',
                        bc.where(0), 'returns %s' % facts.show(r)[:90], breaks='an infoset registered with several actions is accepted again with one action (it ends up in both tables; no named strategy can be imported)')
