"""C19 — strategy distance is a well-defined, bounded, symmetric dissimilarity."""
import divisions
import e2
import facts
import q
from facts import norm, short, is_const

EXPLANATION = """
Static analysis of Strategies::distance and its per-player closure (MIR of the current tree).
Decided clauses: (1) both documented assertions dominate the whole computation — the same-game test
is an equality of the two profiles' game references and the exponent test is the strict `p > 0.0`
on the true edge (so 0, negative and NaN exponents panic), and the failing edges diverge in a panic;
(2) symmetry — every term accumulated into the distance is powf(abs(left - right), p): the difference
passes through f64::abs before the power; (3) division rule — the division by the number of infosets
is guarded against zero (a player may have no multi-action infoset: NaN otherwise). Not decided: the
numeric range [0,1] (a magnitude; known to be false today for disjoint pure strategies, DESIGN D13b).
"""
ASSUMPTIONS = ['Game equality is pointer identity (PartialEq for Game is ptr::eq — checked as rule C19.same-game-eq)']
NOT_DECIDED = ['range [0,1] of the result (magnitude)', 'zero iff equal as a number']


def run(ctx):
    lib = ctx.lib
    divisions.run(ctx, 'C19')
    f = ctx.fn('lib', "Strategies::<'a, I, A>::distance", 'C19.anchor')
    if f is None:
        return
    closures = lib.closures_of(f)
    for c in closures:
        ctx.touch(c)
    # (1) assertions dominate the computation: every block that is not on a panic path and does
    # work (creates the closure / collects) is guarded by both tests
    rule = 'C19.assertions-dominate'
    work_blocks = [bi for bi, t, p in f.calls() if short(p) in ('map', 'collect', 'zip', 'iter') and not t.get('exp')]
    if not work_blocks:
        ctx.anchor_lost(rule, 'distance: computation (map/collect)')
    p_param = None
    for l in range(1, f.argc + 1):
        if f.locals[l]['ty'] == 'f64':
            p_param = ('param', l, f.local_name(l))
    ok_p = ok_g = True
    for bi in work_blocks:
        cs = f.conds(bi)
        has_p = any(e2.cond_positive(c, p_param) for c in cs) if p_param else False
        def ptr_eq_games(c):
            # `ptr::eq(self.game, other.game)` spelled out (what Game's PartialEq does)
            a = facts.strip_refs(c['a']) if c.get('a') is not None else None
            if c['kind'] != 'bool' or c.get('truth') is not True or a is None or a[0] != 'call' or short(a[1]) != 'eq' or 'ptr' not in a[1] or len(a[2]) != 2:
                return False
            x, y = [norm(z) for z in a[2]]
            return all(z[0] == 'field' and z[2] == 'game' for z in (x, y)) and x != y
        has_g = any(ptr_eq_games(c) for c in cs) or any(c['kind'] == 'Eq' and c.get('truth') is True and
                    {facts.show(c['a']), facts.show(c['b'])} == {'self.game', 'other.game'} or
                    (c['kind'] == 'Eq' and c.get('truth') is True and all(x[0] == 'field' and x[2] == 'game' for x in (c['a'], c['b'])) and c['a'] != c['b'])
                    for c in cs)
        ok_p &= has_p
        ok_g &= has_g
    ctx.verdict(ok_p, rule, rule + ':exponent-strictly-positive',
                'the computation is dominated by the true edge of `p > 0.0` (strict; NaN and 0 are rejected)', f.where(work_blocks[0]) if work_blocks else '',
                'all %d computation blocks guarded: %s' % (len(work_blocks), ok_p), breaks='p <= 0 or NaN no longer panics as documented')
    ctx.verdict(ok_g, rule, rule + ':same-game',
                'the computation is dominated by the true edge of `self.game == other.game`', f.where(work_blocks[0]) if work_blocks else '',
                'all %d computation blocks guarded: %s' % (len(work_blocks), ok_g), breaks='profiles of different games are compared silently')
    # failing edges diverge (panic): the false successors never reach the return
    rets = [bi for bi in f.reach if f.blocks[bi]['term']['t'] == 'return']
    div_ok = True
    for bi in rets:
        cs = f.conds(bi)
        if p_param and not any(e2.cond_positive(c, p_param) for c in cs):
            div_ok = False
    ctx.verdict(div_ok, rule, rule + ':violations-diverge', 'no return is reachable unless both assertions held', f.where(rets[0]) if rets else '',
                'returns guarded: %s' % div_ok)
    # game equality is identity
    eqf = [g for n, g in lib.fns.items() if n.endswith('::eq') and g.j.get('impl_self', '').startswith('Game<')]
    if eqf:
        ctx.touch(eqf[0])
        is_ptr = any(short(p) == 'eq' and 'ptr::' in p for _, _, p in eqf[0].calls())
        ctx.verdict(is_ptr, 'C19.same-game-eq', 'C19.same-game-eq', 'two games are equal iff they are the same object (ptr::eq)', eqf[0].where(0), 'ptr::eq called: %s' % is_ptr)
    else:
        ctx.anchor_lost('C19.same-game-eq', 'PartialEq for Game')
    # (2) symmetry
    rule = 'C19.symmetric-term'
    found = 0
    for c in [f] + closures:
        for bi, t, e in q.calls_named(c, 'powf'):
            found += 1
            base = facts.strip_refs(e[2][0])
            if base[0] == 'field' and base[2] == '0' and facts.strip_refs(base[1])[0] == 'downcast' and q.is_call(facts.strip_refs(facts.strip_refs(base[1])[1]), 'next'):
                # the item of an intermediate iterator `..map(|(l, r)| (l - r).abs())`: the term is that closure's value
                it = facts.strip_refs(facts.strip_refs(facts.strip_refs(base[1])[1])[2][0])
                while it[0] == 'call' and short(it[1]) in ('into_iter', 'by_ref') and it[2]:
                    it = facts.strip_refs(it[2][0])
                if q.is_call(it, 'map') and len(it[2]) == 2:
                    mcf, _ = q.closure_of(lib, it[2][1])
                    if mcf is not None:
                        ctx.touch(mcf)
                        base = facts.strip_refs(q.ret_expr(mcf))
            ab = base if q.is_call(base, 'abs') else None
            inner = facts.strip_refs(ab[2][0]) if ab else None
            is_diff = inner is not None and ((inner[0] == 'bin' and inner[1] == 'Sub') or q.is_call(inner, 'sub', 'ops::'))
            expo = norm(q.resolve_captures(lib, c, e[2][1]))
            if expo[0] == 'field' and expo[1][0] == 'agg' and expo[1][1].startswith('adt:'):
                # the exponent stored in a private accumulator struct: the value it was constructed with
                adt = lib.adts.get(expo[1][1][4:].rsplit('::', 1)[0])
                if adt and expo[2] in adt[0].get('fields', []) and adt[0]['fields'].index(expo[2]) < len(expo[1][2]):
                    expo = norm(expo[1][2][adt[0]['fields'].index(expo[2])])
            if expo[0] == 'field' and expo[1][0] == 'var':
                # ... or in a record that is updated in place (`acc.total += ..`): the field's initial value, if never rewritten
                v0 = q.record_field_init(c, expo[1][1], expo[2])
                if v0 is not None:
                    expo = norm(q.resolve_captures(lib, c, v0))
            expo_ok = expo[0] == 'upvar' or (p_param is not None and expo == p_param)
            ctx.verdict(bool(ab) and is_diff and expo_ok, rule, '%s:%s' % (rule, q.top(c.name)),
                        'each accumulated term is powf(abs(left - right), p): the difference goes through abs before the power', c.where(bi),
                        'base=%s exponent=%s' % (facts.show(base)[:80] if not ab else 'abs(' + ('sub' if is_diff else '?') + ')', facts.show(expo)),
                        breaks='distance(a,b) != distance(b,a), or NaN from a negative base')
    if not found:
        ctx.anchor_lost(rule, 'distance: powf term')

    # (3) each player's sum is averaged over that player's own infosets
    rule = 'C19.per-player-count'

    def ptags(e):
        out = set(q.tags(e))
        for x in facts.walk(e):
            if x[0] == 'call' and short(x[1]) in ('ind', 'ind_mut') and x[2]:
                a0 = facts.strip_refs(x[2][0])
                if a0[0] == 'agg' and 'PlayerNum::' in a0[1]:
                    out.add(0 if a0[1].endswith('One') else 1)
        return out
    for c in [f] + closures:
        for dv in e2.f64_divisions(c):
            num = q.resolve_captures(lib, c, dv['num'])
            den = q.resolve_captures(lib, c, dv['den'])
            tn, td = ptags(num), ptags(den)
            if len(tn) == 1 and len(td) == 1:
                ctx.verdict(tn == td, rule, '%s:%s' % (rule, sorted(tn)[0]), 'player k\'s summed differences are divided by the number of infosets of player k', c.where(line=dv['line']),
                            'numerator from player position %s, divisor from player position %s' % (sorted(tn), sorted(td)), breaks='a player\'s distance is scaled by the other player\'s infoset count (0 when that player has none)')
