"""C17 — CLI rejects malformed or unsupported inputs instead of solving them."""
import os
import re

import e1
import facts
import q
from facts import norm, short, strip_refs, is_const

EXPLANATION = """
Decided on the MIR and instance graph of the binary: (1) error discipline — every call in the binary
whose result type is Result is consumed by `?` (branch), expect, unwrap, or an `if let Ok .. else`
chain (a switch on its discriminant); none is dropped, defaulted (unwrap_or*, ok()) or ignored;
(2) no result on failure — the only output writes (io::stdout / File::create / to_writer) are in
main, dominated by the unwrap of Game::solve, and no reader function can reach io::stdout;
(3) guards — in gambit::from_str the two-player test dominates get_global_info and game construction;
every terminal's pair sum passes is_finite before it is used; the constant-sum test dominates the
construction of GlobalInfo; (4) diagnostics <-> README — every `cfr#anchor` used in a panic / expect
message is a heading of the README's Errors section; (S-rule) every such heading except Solve Error
is used by some diagnostic; (5) belief contradiction — a HashSet that is consulted to reject a clash
(contains -> panic) must not be filled elsewhere by an insert whose "already present" result is
ignored. Not decided: what serde / gambit-parser reject, the 0.1 % tolerance as a number, the exit
status of a panicking process (Rust runtime).
"""
ASSUMPTIONS = ['a panic terminates the process with a non-zero status and prints its message (Rust runtime)',
               'serde_json / gambit-parser return Err on malformed text']
NOT_DECIDED = ['which byte strings the third-party parsers reject', 'exit status of a panicking process']

CONSUMERS_OK = {'unwrap', 'expect', 'branch', 'from_residual', 'unwrap_err', 'expect_err'}
CONSUMERS_BAD = {'ok', 'unwrap_or', 'unwrap_or_default', 'unwrap_or_else', 'is_ok', 'is_err', 'map_or', 'map_or_else', 'or', 'or_else', 'unwrap_unchecked', 'err', 'iter', 'into_iter'}


def slug(h):
    return re.sub(r'[^a-z0-9\- ]', '', h.strip().lower()).replace(' ', '-')


def readme_error_headings(repo):
    p = os.path.join(repo, 'README.md')
    if not os.path.exists(p):
        return None
    lines = open(p).read().splitlines()
    out, inside = [], False
    for i, l in enumerate(lines):
        if i + 1 < len(lines) and re.match(r'^-{3,}\s*$', lines[i + 1]) and l.strip():
            inside = l.strip().lower() == 'errors'
            continue
        if re.match(r'^##?\s+\S', l) and not l.startswith('###'):
            inside = l.lstrip('# ').strip().lower() == 'errors'
            continue
        if inside and l.startswith('### '):
            out.append(l[4:].strip())
    return out


def run(ctx):
    b = ctx.bin
    if b is None:
        ctx.anchor_lost('C17.anchor', 'binary crate facts', hard=True)
        return
    # ---------------- (1) error discipline
    rule = 'C17.error-discipline'
    n = 0
    for f in b.non_test_fns():
        if f.name.startswith(('<Args as', '<Method as', '<InputFormat as', '<Discount as', '<Output as', '<Strategy as serde', '_::', '<json::', '<Outcome as')) or '::_::' in f.name or 'Deserialize' in f.name or 'serde::' in f.name:
            continue   # derive-generated code (clap / serde)
        for bi, t, p in f.calls():
            if t.get('exp') or t['dest']['p']:
                continue
            dty = f.locals[t['dest']['l']]['ty']
            if not dty.startswith(('std::result::Result<', 'Result<')):
                continue
            if short(p) in ('branch', 'from_residual', 'map_err', 'map', 'and_then'):
                continue
            n += 1
            ctx.touch(f)
            uses = q.local_uses(f, t['dest']['l'])
            verdicts = []

            def cname(y_):
                # what a consuming call is called — `unwrap_or_else(|e| panic!(..))` is an `expect` with a computed message
                s_ = short(y_['callee'].get('path') or y_['callee'].get('def') or '')
                if s_ == 'unwrap_or_else' and len(y_['args']) == 2:
                    cf_, _ = q.closure_of(b, f.call_expr(y_, 0)[2][1])
                    if cf_ is not None and not any(cf_.blocks[k_]['term']['t'] == 'return' for k_ in cf_.reach):
                        return 'expect'
                return s_

            def retry(y_):
                # `r.or_else(|_| other_attempt())`: the error is replaced by the outcome of another fallible attempt (the
                # auto-detection chain), not by a default — judged by what consumes the combined result
                if short(y_['callee'].get('path') or y_['callee'].get('def') or '') != 'or_else' or len(y_['args']) < 2:
                    return False
                e_ = f.call_expr(y_, 0)
                cf_, _ = q.closure_of(b, e_[2][1])
                if cf_ is None:
                    return False
                r_ = strip_refs(q.ret_expr(cf_))
                # only the documented chain: the other attempt is another *parser* on the same text
                return r_[0] == 'call' and short(r_[1]) == 'from_str' and r_[1].split('::')[0] in ('json', 'gambit')

            def through(tt, as_option, depth=0):
                # a combinator that keeps the failure (`map`, `map_err`: still a Result; `ok()`: a None that must then
                # be matched / unwrapped, never defaulted): judge the consumers of its result instead
                out_ = []
                if tt['dest']['p'] or depth > 3:
                    return ['ok' if as_option else 'map']
                if tt['dest']['l'] == 0:
                    out_.append('returned')
                for bk, k2, y in q.local_uses(f, tt['dest']['l']):
                    if k2 == 'discr':
                        out_.append('match')
                    elif k2 == 'arg':
                        s2 = cname(y)
                        if (s2 in ('map', 'map_err', 'and_then') or retry(y)) and not as_option:
                            out_ += through(y, False, depth + 1)
                        elif s2 == 'ok' and not as_option:
                            out_ += through(y, True, depth + 1)
                        elif as_option and s2 not in ('expect', 'unwrap', 'ok_or', 'ok_or_else', 'branch'):
                            out_.append('ok')       # the error was turned into a None that is then defaulted / ignored
                        else:
                            out_.append(s2)
                    elif k2 in ('stmt', 'ref') and y['pl']['l'] == 0:
                        out_.append('returned')
                return out_ or ['ok' if as_option else 'map']
            for bj, kind, x in uses:
                if kind == 'arg' and (short(x['callee'].get('path') or x['callee'].get('def') or '') in ('map', 'map_err', 'ok', 'and_then') or retry(x)):
                    verdicts += through(x, short(x['callee'].get('path') or x['callee'].get('def') or '') == 'ok')
                elif kind == 'arg':
                    verdicts.append(cname(x))
                elif kind == 'discr':
                    verdicts.append('match')
                elif kind in ('stmt', 'ref'):
                    # moved / borrowed into another local: follow one step
                    dst = x['pl']['l']
                    for bk, k2, y in q.local_uses(f, dst):
                        if k2 == 'arg':
                            verdicts.append(short(y['callee'].get('path') or y['callee'].get('def') or ''))
                        elif k2 == 'discr':
                            verdicts.append('match')
                        elif dst == 0:
                            verdicts.append('returned')
                    if dst == 0:
                        verdicts.append('returned')
            if t['dest']['l'] == 0:
                verdicts.append('returned')
            bad = [v for v in verdicts if v in CONSUMERS_BAD]
            good = [v for v in verdicts if v in CONSUMERS_OK or v in ('match', 'returned')]
            ok = bool(good) and not bad
            ctx.verdict(ok, rule, '%s:%s:%s' % (rule, q.top(f.name), short(p)),
                        'a Result in the binary is consumed by `?`, expect, unwrap or an `if let Ok .. else` chain — never dropped, defaulted or converted with ok()', f.where(bi),
                        'result of %s consumed by %s' % (short(p), sorted(set(verdicts)) or 'nothing (dropped)'), breaks='a parse / validation / solve error is swallowed and a result is still printed')
    if n < 8:
        ctx.anchor_lost(rule, 'Result-returning calls in the binary', 'found %d, expected at least 8' % n)
    # the if-let chain in auto::from_reader ends in a diverging arm
    af = ctx.fn('bin', 'auto::from_reader', rule)
    if af is not None:
        panics = [bi for bi, t, p in af.calls() if short(p) in ('panic_fmt', 'panic', 'begin_panic') and t['to'] < 0]
        ok = False
        for bi in panics:
            errs = [c for c in af.conds(bi) if c['kind'] == 'variant' and c['variants'] == ['Err']]
            if len(errs) >= 2:
                ok = True
            elif len(errs) == 1:
                # one Err test of the combined outcome `json(..).or_else(|_| gambit(..))`
                oe = q.find_sub(errs[0]['a'], lambda s_: q.is_call(s_, 'or_else') and len(s_[2]) == 2)
                if oe is not None and q.find_sub(oe[2][0], lambda s_: s_[0] == 'call' and short(s_[1]) == 'from_str') is not None:
                    cf_, _ = q.closure_of(b, oe[2][1])
                    if cf_ is not None and any(short(p_) == 'from_str' for _, _, p_ in cf_.calls()):
                        ok = True
        if not ok:
            # the chain written with combinators: `json.ok().or_else(|| gambit.ok()).expect(..)` diverges inside expect when
            # both attempts came back Err
            for bi, t, e in q.calls_named(af, 'expect') + q.calls_named(af, 'unwrap'):
                if 'Option' not in e[1] or not e[2]:
                    continue
                v0 = strip_refs(e[2][0])
                srcs = set()
                todo_ = [v0]
                seen_ = 0
                while todo_ and seen_ < 40:
                    x_ = todo_.pop()
                    seen_ += 1
                    for y_ in facts.walk(x_):
                        if y_[0] == 'call' and short(y_[1]) == 'from_str':
                            srcs.add(y_[1].split('::')[0])
                        if y_[0] == 'var':
                            todo_.extend(strip_refs(v_) for _, _, v_ in q.multi_def_values(af, y_[1]) if strip_refs(v_) != y_)
                if srcs >= {'json', 'gambit'}:
                    ok = True
        if not ok:
            # `json(..).or_else(|_| gambit(..)).unwrap_or_else(|_| panic!(..))` / `.expect(..)`: the combined Result is
            # unwrapped by something that diverges on Err
            for bi, t, e in q.calls_named(af, 'unwrap_or_else') + q.calls_named(af, 'expect') + q.calls_named(af, 'unwrap'):
                if 'Result' not in e[1] or not e[2]:
                    continue
                if short(e[1]) == 'unwrap_or_else':
                    cf_, _ = q.closure_of(b, e[2][1]) if len(e[2]) > 1 else (None, None)
                    if cf_ is None or any(cf_.blocks[k_]['term']['t'] == 'return' for k_ in cf_.reach):
                        continue
                oe = q.find_sub(e[2][0], lambda s_: q.is_call(s_, 'or_else') and len(s_[2]) == 2)
                if oe is None:
                    continue
                first = {y_[1].split('::')[0] for y_ in facts.walk(oe[2][0]) if y_[0] == 'call' and short(y_[1]) == 'from_str'}
                cf2, _ = q.closure_of(b, oe[2][1])
                second = {p_.split('::')[0] for _, _, p_ in cf2.calls() if short(p_) == 'from_str'} if cf2 is not None else set()
                if first and second and (first | second) >= {'json', 'gambit'}:
                    ok = True
        ctx.verdict(ok, rule, rule + ':auto-chain-diverges', 'the auto-detection chain panics when every parser returned Err', af.where(panics[0]) if panics else af.where(0), 'panic guarded by Err of both attempts: %s' % ok,
                    breaks='unparseable input falls through to some game')

    # ---------------- (2) no result on failure
    rule = 'C17.no-output-on-failure'
    m = ctx.fn('bin', 'main', rule)
    OUT = ('stdout', 'create', 'to_writer', 'to_writer_pretty', '_print', 'print', 'write_all', 'to_string')
    if m is not None:
        solve_unwrap = None
        for bi, t, e in q.calls_named(m, 'unwrap') + q.calls_named(m, 'expect'):
            if q.find_sub(e[2][0], lambda s: q.is_call(s, 'solve') and 'Game' in s[1]) is not None:
                solve_unwrap = bi
        if solve_unwrap is None:
            ctx.anchor_lost(rule, 'main: unwrap of Game::solve')
        else:
            outs = [(bi, short(p)) for bi, t, p in m.calls() if (short(p) in ('stdout', 'create') and ('io::' in p or 'File' in p)) or (short(p).startswith('to_writer') and 'serde_json' in p)]
            bad = [(m.where(bi), s) for bi, s in outs if not m.dominates(solve_unwrap, bi)]
            ctx.verdict(bool(outs) and not bad, rule, rule + ':main-writes-after-solve', 'every output write in main is dominated by the successful unwrap of Game::solve (hence of parsing and construction)', m.where(solve_unwrap),
                        '%d output call(s); not dominated: %s' % (len(outs), bad), breaks='a result object is printed although solving failed')
            # the game value the solve uses is the reader result on every path
            ctx.stats['call_sites'] += len(outs)
    for suf in ('json::from_reader', 'gambit::from_reader', 'auto::from_reader', 'json::from_str', 'gambit::from_str'):
        r, par = e1.reach(b, suf)
        if r is None:
            # a private function of the binary (renamed / merged into another module): the whole-binary rule below
            # (who may write at all) still decides the clause
            ctx.anchor_lost(rule, 'instance-graph root ' + suf)
            continue
        h = e1.hits(b, par, lambda n_: e1.node_path(n_) in ('std::io::stdout', 'std::io::_print', 'std::fs::File::create') or e1.node_path(n_).startswith('serde_json::to_writer'))
        ctx.verdict(not h, rule, '%s:reader-cannot-print:%s' % (rule, suf), 'no reader function can reach io::stdout / File::create / to_writer', '', '%d instances reached, %d output functions' % (len(par), len(h)))
        ctx.stats['paths'] += len(par)
    # who calls stdout in the whole binary
    callers = sorted({q.top(f.name) for f in b.non_test_fns() for bi, t, p in f.calls() if p in ('std::io::stdout', 'std::fs::File::create') or (short(p).startswith('to_writer') and 'serde_json' in p)})
    # ... or from an output helper that main (and nobody else) calls after the solve has succeeded
    def late_helper(w, depth=0):
        if w == 'main':
            return True
        sites_ = [(g_, bi_) for g_ in b.non_test_fns() for bi_, t_, p_ in g_.calls() if p_ == w or (t_['callee'].get('path') or '') == w]
        if not sites_:
            # every call of it has been spliced into its callers by the normalisation: judged there
            return w in (b.inline_stats.get('sites_fns') or {x.split('<- ', 1)[1] for x in b.inline_stats.get('sites', []) if '<- ' in x})
        if depth > 3:
            return False
        for g_, bi_ in sites_:
            top_ = q.top(g_.name)
            if top_ == 'main':
                mm = b.one('main')
                su = None
                for bj, tj, ej in q.calls_named(mm, 'unwrap') + q.calls_named(mm, 'expect'):
                    if q.find_sub(ej[2][0], lambda s_: q.is_call(s_, 'solve') and 'Game' in s_[1]) is not None:
                        su = bj
                if g_ is not mm or su is None or not mm.dominates(su, bi_):
                    return False
            elif not late_helper(top_, depth + 1):
                return False
        return True
    ctx.verdict(bool(callers) and all(late_helper(w) for w in callers), rule, rule + ':only-main-writes', 'output functions are called from main only (or from a helper main calls after the solve succeeded)', '', 'callers: %s' % callers)

    # ---------------- (3a) the constant-sum scan accumulates the outcome of every kind of node
    rule = 'C17.constant-sum-scan'
    gg = ctx.fn('bin', 'gambit::get_global_info', rule)
    if gg is not None:
        arms = {}
        for bi, st, pl, rhs in q.stores(gg):
            rr = strip_refs(rhs)
            if rr[0] == 'bin' and rr[1] == 'Add' and norm(rr[2]) == norm(pl) and q.find_sub(rr[3], lambda x: q.is_call(x, 'get') and 'HashMap' in x[1]) is not None \
                    and q.find_sub(rr[3], lambda x: q.is_call(x, 'outcome')) is not None:
                vs = [c['variants'][0] for c in gg.conds(bi) if c['kind'] == 'variant' and len(c['variants']) == 1 and c['variants'][0] in ('Terminal', 'Chance', 'Player')]
                arms.setdefault(vs[-1] if vs else 'every node', []).append(bi)
        if not arms:
            ctx.anchor_lost(rule, 'get_global_info: accumulation of outcome payoffs along a path')
        else:
            covered = set(arms)
            ok_ = 'every node' in covered or covered == {'Terminal', 'Chance', 'Player'}
            ctx.verdict(ok_, rule, rule + ':every-node-kind', 'along every path the payoffs of the outcome attached to a terminal, a chance node and a player node are all added before the sums are compared', gg.where(sorted(arms.values())[0][0]),
                        'outcome payoffs accumulated at: %s' % sorted(covered), breaks='a file whose only non-constant-sum payoffs sit on a chance (or player) node is accepted and solved as if it were constant sum')
        # the outcome table is complete when it is consulted: a lookup does not share a loop with an insert into the same
        # table, unless the very key looked up has been inserted on every path of the same iteration
        tabs = [l for l in gg.names if re.search(r'HashMap<.*\[f64; 2\]', gg.locals[l]['ty'])] if hasattr(gg, 'names') else []
        for tl in tabs:
            me = ('var', tl, gg.local_name(tl))
            def on_tab(e_, tl=tl, me=me):
                if not e_[2]:
                    return False
                x_ = strip_refs(e_[2][0])
                return x_ == me or (x_[0] == 'call' and len(x_) > 3 and x_[3] == q.def_site(gg, tl))
            ins = [(bi, e_) for bi, t_, e_ in q.calls_named(gg, 'insert') if 'HashMap' in e_[1] and on_tab(e_)]
            gets = [(bi, e_) for bi, t_, e_ in q.calls_named(gg, 'get') if 'HashMap' in e_[1] and on_tab(e_)]
            if not ins or not gets:
                continue
            early = []
            for gb, ge in gets:
                for h_, body in gg.loops:
                    if gb not in body:
                        continue
                    shared = [(ib, ie) for ib, ie in ins if ib in body]
                    if not shared:
                        continue
                    key = facts.show(norm(strip_refs(ge[2][1])))
                    if not any(gg.dominates(ib, gb) and ib != gb and facts.show(norm(strip_refs(ie[2][1]))) == key and (gg.loop_of(ib) or (None,))[0] == (gg.loop_of(gb) or (None,))[0] for ib, ie in shared):
                        early.append(gg.where(gb))
                    break
            ctx.verdict(not early, rule, rule + ':table-complete-before-lookup', 'outcome payoffs are looked up by outcome number only once every node has been scanned (or right after inserting that very outcome)', gg.where(gets[0][0]),
                        '%d lookup(s), %d insert(s); lookups inside the filling loop without a dominating insert of the same key: %s' % (len(gets), len(ins), early),
                        breaks='a node that refers by number to an outcome defined at a node scanned later contributes nothing to the constant-sum test: non-constant-sum files are accepted')
        # the running sum handed to the children (and compared at the leaves) is the *updated* one
        acc_locals = set()
        for bi, st, pl, rhs in q.stores(gg):
            rr = strip_refs(rhs)
            if rr[0] == 'bin' and rr[1] == 'Add' and norm(rr[2]) == norm(pl):
                for x in facts.walk(pl):
                    if q.is_call(x, 'iter_mut') and x[2]:
                        for y in facts.walk(x[2][0]):
                            if y[0] == 'var' and gg.locals[y[1]]['ty'] == '[f64; 2]':
                                acc_locals.add(y[1])
        changed_ = True
        while changed_ and acc_locals:
            changed_ = False
            for l_, ds_ in gg.defs.items():
                if l_ in acc_locals or gg.locals[l_]['ty'] != '[f64; 2]':
                    continue
                for d_ in ds_:
                    if d_[0] == 'assign' and d_[3]['r'] == 'use' and d_[3]['a'].get('o') in ('copy', 'move') and not d_[3]['a']['pl']['p'] and d_[3]['a']['pl']['l'] in acc_locals:
                        acc_locals.add(l_)
                        changed_ = True
        # the pair sums whose extremes make the constant (and the offset main.rs prints with) are *path* sums: Gambit adds
        # the outcome of every node on the way to a leaf. An extreme folded over the outcome table's own entries (one pair
        # per outcome number) is another quantity whenever an interior node carries an outcome.
        per_outcome, per_path = [], 0
        for bi, t, e in q.calls_named(gg, 'min') + q.calls_named(gg, 'max'):
            if 'f64' not in e[1] or len(e[2]) != 2:
                continue
            for a_ in e[2]:
                a_ = norm(strip_refs(a_))
                if q.find_sub(a_, lambda x: x[0] == 'bin' and x[1] in ('Add', 'Sub')) is None:
                    continue    # a running extreme itself, or a single component (the scale of the tolerance)
                if any(y[0] == 'var' and y[1] in acc_locals for y in facts.walk(a_)):
                    per_path += 1
                elif q.find_sub(a_, lambda x: x[0] == 'call' and 'HashMap' in x[1] and short(x[1]) in ('values', 'iter', 'into_values', 'values_mut', 'into_iter', 'get')) is not None:
                    per_outcome.append((gg.where(bi), facts.show(a_)[:70]))
        if acc_locals and (per_path or per_outcome):
            ctx.verdict(not per_outcome, rule, rule + ':extremes-over-path-sums', 'the extremes of the pair sums (the constant, and the offset added to player two\'s utility) are taken over sums accumulated along a path, never over the entries of the outcome table',
                        gg.where(0), '%d update(s) from the per-path accumulator; from the outcome table itself: %s' % (per_path, per_outcome),
                        breaks='with an outcome on an interior node that spells no payoffs the offset is the per-outcome constant, not the cumulative one: the two printed utilities no longer add up to the file\'s constant (or a valid file is rejected as not constant sum)')
        stale = []
        n_q = 0
        for bi, t, e in q.calls_named(gg, 'extend'):
            mp = q.find_sub(e[2][1], lambda x: q.is_call(x, 'map')) if len(e[2]) > 1 else None
            cf, agg = q.closure_of(b, mp[2][1]) if mp is not None and len(mp[2]) > 1 else (None, None)
            if cf is None or not cf.is_closure or agg is None:
                continue
            rr = strip_refs(q.ret_expr(cf))
            if not (rr[0] == 'agg' and rr[1] == 'tuple' and len(rr[2]) == 2):
                continue
            comp = strip_refs(rr[2][1])
            if comp[0] != 'upvar' or '[f64; 2]' not in cf.upvar_tys.get(comp[1], '') or comp[1] >= len(agg[2]):
                continue
            n_q += 1
            cap = strip_refs(agg[2][comp[1]])
            if cap[0] == 'var' and cap[1] in acc_locals:
                # queued from the accumulator: then only after this node's own outcome has been added to it — every
                # accumulating store of the same node-kind arm comes before the queueing
                arm = [c['variants'][0] for c in gg.conds(bi) if c['kind'] == 'variant' and len(c['variants']) == 1 and c['variants'][0] in ('Terminal', 'Chance', 'Player')]
                late = []
                for bj, st_, pl_, rhs_ in q.stores(gg):
                    rr_ = strip_refs(rhs_)
                    if not (rr_[0] == 'bin' and rr_[1] == 'Add' and norm(rr_[2]) == norm(pl_)):
                        continue
                    if not any(y[0] == 'var' and y[1] in acc_locals for y in facts.walk(pl_)):
                        continue
                    arm_j = [c['variants'][0] for c in gg.conds(bj) if c['kind'] == 'variant' and len(c['variants']) == 1 and c['variants'][0] in ('Terminal', 'Chance', 'Player')]
                    if arm and arm_j and arm[-1] == arm_j[-1] and gg.dominates(bi, bj) and bi != bj:
                        late.append(gg.where(bj))
                if late:
                    stale.append((gg.where(bi), 'children queued before the node\'s own outcome is added (%s)' % late[0]))
                continue
            if q.find_sub(cap, lambda x: q.is_call(x, 'pop')) is not None or (cap[0] in ('field', 'downcast') and acc_locals):
                stale.append((gg.where(bi), facts.show(cap)[:50]))
        if acc_locals and n_q:
            ctx.verdict(not stale, rule, rule + ':children-get-updated-sum', 'the per-path sum queued for a node\'s children is the one to which that node\'s outcome has been added', gg.where(0),
                        '%d queueing site(s); queued straight from the popped item (before the update): %s' % (n_q, stale), breaks='payoffs attached to a decision (or chance) node are left out of the constant-sum check below it')
    # ---------------- (3) guards in the gambit reader
    rule = 'C17.gambit-guards'
    fs = ctx.fn('bin', 'gambit::from_str', rule)
    if fs is not None:
        for callee in ('get_global_info', 'from_root'):
            cs = q.calls_named(fs, callee)
            if not cs:
                ctx.anchor_lost(rule, 'gambit::from_str: ' + callee)
                continue
            bi = cs[0][0]
            two = any(((c['kind'] == 'Ne' and c['truth'] is False) or (c['kind'] == 'Eq' and c['truth'] is True)) and is_const(c['b'], 2) and 'player_names' in facts.show(c['a']) for c in fs.conds(bi)) or \
                any(c['kind'] == 'value' and c.get('values') == ['2'] and 'player_names' in facts.show(c['a']) for c in fs.conds(bi))     # `match names.len() { 2 => .. }`
            # `?` on the parse, or the same thing spelled as a match (Ok edge of the try_from result)
            parsed = any(c['kind'] == 'variant' and (c['variants'] == ['Continue'] or (c['variants'] == ['Ok'] and q.find_sub(c['a'], lambda s_: q.is_call(s_, 'try_from')) is not None)) for c in fs.conds(bi))
            ctx.verdict(two and parsed, rule, '%s:two-players-before:%s' % (rule, callee), 'the parse succeeded and the player count is exactly two before %s runs' % callee, fs.where(bi),
                        'parse ok: %s, `player_names().len() == 2` edge: %s' % (parsed, two), breaks='three-player files are converted (player numbers index two-element tables)')
    gi = ctx.fn('bin', 'gambit::get_global_info', rule)
    if gi is not None:
        gsites = list(q.struct_sites(gi, 'GlobalInfo'))
        if not gsites:
            ctx.anchor_lost(rule, 'get_global_info: GlobalInfo { .. }')
        for bi, st, fields in gsites:
            # constant-sum test: a comparison involving one_max/one_min and max/min ranges whose failing edge panics
            cs = gi.conds(bi)
            cmpc = [c for c in cs if c['kind'] in ('Gt', 'Lt', 'Ge', 'Le') and c.get('truth') is False and 'Mul' in facts.show(c['a']) + facts.show(c['b'])]
            ctx.verdict(bool(cmpc), rule, rule + ':constant-sum-before-info', 'GlobalInfo is built only on the passing edge of the constant-sum range test', gi.where(bi),
                        'dominating range test: %s' % ((cmpc and (cmpc[-1]['kind'], cmpc[-1]['truth'], facts.show(cmpc[-1]['a'])[:50])),), breaks='non-constant-sum games are solved as if zero-sum')
        # each range in that test is (running max of X) - (running min of the *same* X)
        def running(l):
            vals = [strip_refs(v) for _, _, v in q.multi_def_values(gi, l)]
            me = ('var', l, gi.local_name(l))
            upd = [v for v in vals if v[0] == 'call' and short(v[1]) in ('max', 'min') and 'f64' in v[1] and len(v[2]) == 2 and any(strip_refs(a) == me for a in v[2])]
            if len(upd) != 1:
                calls = [v for v in vals if v[0] == 'call' and short(v[1]) in ('max', 'min') and 'f64' in v[1] and len(v[2]) == 2]
                if not upd and len(calls) == 1 and len(vals) == 2 and any(strip_refs(a)[0] == 'var' and len(gi.defs.get(strip_refs(a)[1], [])) > 1 for a in calls[0][2]):
                    # updated from *another* running extreme instead of its own previous value
                    return ('not-own:' + short(calls[0][1]), facts.show(calls[0]))
                return None
            other = [a for a in upd[0][2] if strip_refs(a) != me]
            return (short(upd[0][1]), facts.show(norm(other[0]))) if other else None
        for bi, st, fields in gsites[:1]:
            cmpc = [c for c in gi.conds(bi) if c['kind'] in ('Gt', 'Lt', 'Ge', 'Le') and c.get('truth') is False and 'Mul' in facts.show(c['a']) + facts.show(c['b'])]
            if not cmpc:
                continue
            subs = [x for side in (cmpc[-1]['a'], cmpc[-1]['b']) for x in facts.walk(side) if x[0] == 'bin' and x[1] == 'Sub' and strip_refs(x[2])[0] == 'var' and strip_refs(x[3])[0] == 'var']
            pairs = [(running(strip_refs(x[2])[1]), running(strip_refs(x[3])[1])) for x in subs]
            if len(subs) == 2 and all(a is not None and b is not None for a, b in pairs):
                good = all(a[0] == 'max' and b[0] == 'min' and a[1] == b[1] for a, b in pairs) and pairs[0][0][1] != pairs[1][0][1]
                ctx.verdict(good, rule, rule + ':constant-sum-ranges', 'the constant-sum test compares (max - min) of the pair sums with (max - min) of player one\'s payoffs: each range takes both ends from the same quantity', gi.where(bi),
                            'ranges: %s' % [('%s(%s) - %s(%s)' % (a[0], a[1][:20], b[0], b[1][:20])) for a, b in pairs], breaks='files that are far from constant sum are accepted when the payoffs are offset')
            else:
                ctx.anchor_lost(rule, 'get_global_info: the two ranges of the constant-sum test', 'found %d differences of running extremes' % len(subs))
        # finite test on every terminal sum: min/max updates dominated by is_finite true edge
        n_upd = 0
        okf = True
        for bi, t, e in q.calls_named(gi, 'min') + q.calls_named(gi, 'max'):
            if 'f64' not in e[1]:
                continue
            n_upd += 1
            fin = any(c['kind'] == 'IsFinite' and ((c['truth'] is True)) for c in gi.conds(bi)) or any(c['kind'] == 'IsFinite' for c in gi.conds(bi))
            # accepted: `if !sum.is_finite() { panic }` -> update on the finite edge
            cs_ = gi.conds(bi)
            fin_edge = any(c['kind'] == 'IsFinite' and c['truth'] is True for c in cs_) or \
                (any(c['kind'] == 'IsInfinite' and c['truth'] is False for c in cs_) and any(c['kind'] == 'IsNan' and c['truth'] is False for c in cs_))
            okf &= fin_edge
        ctx.verdict(okf and n_upd >= 4, rule, rule + ':finite-payoffs', 'every terminal\'s payoff sum passes is_finite before it enters the range computation', gi.where(0), '%d range updates, all on the finite edge: %s' % (n_upd, okf),
                    breaks='non-finite payoffs reach the solver')

    import props.c15 as c15
    c15.payoff_source(ctx, 'C17')
    # ---------------- (3b) trailing input: a JSON document must be the whole input
    rule = 'C17.json-whole-input'
    for f in b.non_test_fns():
        des = [(bi, t) for bi, t, p in f.calls() if short(p) == 'deserialize' and any('serde_json' in str(a.get('pl', {}).get('ty', '')) and 'Deserializer' in str(a.get('pl', {}).get('ty', '')) for a in t['args'])]
        if not des:
            continue
        ctx.touch(f)
        ends = [bi for bi, t, p in f.calls() if short(p) == 'end' and 'serde_json' in p and 'Deserializer' in p]
        ok = bool(ends) and all(any(f.dominates(d, e) for e in ends) for d, _ in des)
        ctx.verdict(ok, rule, '%s:%s' % (rule, q.top(f.name)), 'a hand-rolled serde_json::Deserializer must be followed by end(): trailing bytes after the first JSON value are an error (serde_json::from_str / from_reader do this themselves)',
                    f.where(des[0][0]), 'deserialize() through a raw Deserializer, end() called afterwards: %s' % ok, breaks='malformed input (a valid game followed by garbage) is solved instead of rejected')
    # the stream form: `Deserializer::from_reader(r).into_iter::<T>().next()` hands back the first value and never looks at
    # the rest of the input (there is no end() to call on a StreamDeserializer); only a second `next()` that must be
    # `None` could reject trailing bytes — that shape is not decided, a single pull is a prefix parse
    for f in b.non_test_fns():
        streams = [(bi, t) for bi, t, p in f.calls() if not t.get('exp') and 'serde_json' in (p or '') and (short(p) == 'into_iter' and 'Deserializer' in p or 'StreamDeserializer' in p and short(p) == 'next')]
        if not streams:
            continue
        ctx.touch(f)
        pulls = [bi for bi, t, p in f.calls() if 'StreamDeserializer' in (p or '') and short(p) in ('next', 'count', 'last', 'nth', 'collect', 'try_for_each', 'for_each', 'fold', 'all', 'any')]
        in_loop = any(bi in body for bi in pulls for _h, body in f.loops)
        key = '%s:stream:%s' % (rule, q.top(f.name))
        if len(pulls) > 1 or in_loop:
            ctx.anchor_lost(rule, 'single pull from a serde_json stream deserializer in %s' % q.top(f.name), '(pulled more than once: whether a second value / trailing bytes are rejected is not decided)')
            continue
        ctx.verdict(False, rule, key, 'a JSON game definition must be the whole input: serde_json::from_reader / from_str reject bytes after the first value, the first item of a stream deserializer does not',
                    f.where(streams[0][0]), 'the definition is the first item of Deserializer::into_iter(); nothing reads (or rejects) what follows it',
                    breaks='malformed input (a valid game followed by garbage, or two concatenated definitions) is solved with exit status 0 instead of a json-error')
    # ---------------- (4) diagnostics <-> README
    rule = 'C17.readme-anchors'
    heads = readme_error_headings(ctx.repo)
    if heads is None or not heads:
        ctx.anchor_lost(rule, 'README.md Errors section', hard=True)
    else:
        slugs = {slug(h): h for h in heads}
        used = {}
        for f in b.non_test_fns():
            for bi, line, text in q.string_consts(f):
                for mm in re.finditer(r'erikbrinkman/cfr#([a-z0-9\-]+)', text):
                    used.setdefault(mm.group(1), []).append(f.where(line=line))
        if len(used) < 5:
            ctx.anchor_lost(rule, 'diagnostic anchors in the binary', 'found %d, expected at least 5' % len(used))
        for a, sites in sorted(used.items()):
            # anchors in clap help text (json-format) refer to other sections
            if a in ('json-format', 'gambit-format', 'binary', 'library'):
                continue
            ctx.verdict(a in slugs, rule, '%s:%s' % (rule, a), 'a diagnostic points at a heading of the README\'s Errors section (the documented error category)', sites[0], 'anchor #%s %s' % (a, 'is heading "%s"' % slugs[a] if a in slugs else 'is not a heading of the Errors section'),
                        breaks='the diagnostic names no documented error category')
        for s_, h in sorted(slugs.items()):
            if s_ == 'solve-error':
                continue
            ctx.sres(s_ in used, rule + '.coverage', '%s.coverage:%s' % (rule, s_), 'every documented error category (except Solve Error, which input cannot cause) is used by some diagnostic', '', 'heading "%s" used: %s' % (h, s_ in used))

    # ---------------- (5) belief contradiction
    rule = 'C17.belief-insert-unchecked'
    n_sets = 0
    for f in b.non_test_fns():
        consulted = {}
        for bi, t, p in f.calls():
            if short(p) == 'contains' and 'HashSet' in p and t['args'][0]['o'] in ('copy', 'move'):
                root = f.root_place(t['args'][0])
                # the result decides a branch one side of which panics
                res = t['dest']['l']
                for bj, kind, x in q.local_uses(f, res):
                    if kind == 'switch':
                        tt = f.blocks[bj]['term']
                        succs = [s for _, s in tt['targets']] + [tt['otherwise']]
                        def panics(s, depth=0):
                            blk = f.blocks[s]['term']
                            if blk['t'] == 'call' and blk['to'] < 0:
                                return True
                            if depth < 4 and len(f.succ[s]) == 1:
                                return panics(f.succ[s][0], depth + 1)
                            return False
                        if any(panics(s) for s in succs) and root is not None:
                            consulted[root] = bi
        for root, cb in consulted.items():
            n_sets += 1
            ctx.touch(f)
            for bi, t, p in f.calls():
                if short(p) == 'insert' and 'HashSet' in p and t['args'][0]['o'] in ('copy', 'move') and f.root_place(t['args'][0]) == root:
                    res = t['dest']['l']
                    used = [u for u in q.local_uses(f, res)]
                    ctx.verdict(bool(used), rule, '%s:%s:%s' % (rule, q.top(f.name), f.key_name(root)),
                                'a set that is consulted to reject a clash is never filled by an insert whose "already present" result is ignored', f.where(bi),
                                'insert result %s' % ('is tested' if used else 'is ignored although the same set is consulted with contains() -> panic at line %s' % f.line_of(cb)),
                                breaks='two different infosets with the same name are silently merged and another game is solved')
    if n_sets < 1:
        ctx.anchor_lost(rule, 'a HashSet consulted with contains -> panic')
    # the set of names seen is per player: it is created inside the loop over the players, so a name may be used once by
    # *each* player (renaming both players' infosets to the same labels keeps a valid file valid)
    rule = 'C17.names-per-player'
    ggi = b.one('gambit::get_global_info')
    if ggi is not None:
        for l_ in ggi.names:
            if 'HashSet<' not in ggi.locals[l_]['ty'] or not ggi.locals[l_]['ty'].startswith('std::collections::HashSet<'):
                continue
            me_ = ('var', l_, ggi.local_name(l_))
            site_ = q.def_site(ggi, l_)
            ins_ = [bi for bi, t, e in q.calls_named(ggi, 'insert') if 'HashSet' in e[1] and e[2] and (strip_refs(e[2][0]) == me_ or (strip_refs(e[2][0])[0] == 'call' and strip_refs(e[2][0])[3] == site_))]
            tested = [bi for bi in ins_ if any(k_ == 'switch' or k_ == 'stmt' for _, k_, _x in q.local_uses(ggi, ggi.blocks[bi]['term']['dest']['l']))]
            if not tested or site_ is None:
                continue
            # only the set whose insert result rejects a duplicate *name* (its element type is a string)
            if 'str' not in ggi.locals[l_]['ty'] and 'String' not in ggi.locals[l_]['ty']:
                continue
            dblk = site_[1]
            in_loop = any(dblk in body and all(bi in body for bi in tested) for h_, body in ggi.loops)
            ctx.verdict(in_loop, rule, '%s:%s' % (rule, ggi.local_name(l_)), 'the set that rejects a repeated infoset name starts empty for each player', ggi.where(dblk),
                        'set created inside the loop over the players: %s' % in_loop, breaks='a file in which both players use the same infoset label is rejected although each player\'s names are unique')
