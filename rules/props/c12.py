"""C12 — results do not depend on how the game is presented."""
import re

import e2
import facts
import framework
import q
import props.c01 as c01
import props.c08 as c08
from facts import norm, short, strip_refs, is_const

EXPLANATION = """
Decided on the MIR and item facts of the current tree: (1) rescaling — every chance weight is divided
by the sum of its own node's weights before being stored or compared (shared with C11);
(2) index allocation is insertion ordered — compact::Builder / OptBuilder are backed by
indexmap::IndexMap, entry() allocates index = current length, their IntoIterator yields the map's own
into_iter, and Game::from_root collects tables from these iterators; E11 determinism lint: every
iteration over a std HashMap / HashSet in the library ends in an order-insensitive sink (all / any /
count / len / collect into a map or set) — a flow into a Vec / boxed slice is a violation unless it is
the audited exception; (3) player symmetry of signs — the counterfactual multiplier (C08), the regret
slots and terminal signs of the evaluation (C01) and external sampling's terminal sign are mirror
images for player two; (S-rule) renaming invariance by parametricity: Game::solve, get_info,
truncate, distance and as_named sit in impl blocks with no trait bounds on the name types, and
from_root / from_named / from_named_eq use only Hash + Eq (+ Clone, Borrow), so names are observable
only through equality — reported as proved / not proved, never an alarm. Not decided: invariance under
insertion / removal of degenerate nodes (collapsing them is sufficient but not necessary), payoff
scaling and shifting (numeric; false for a finite non-zero softmax weight).
"""
ASSUMPTIONS = ['indexmap::IndexMap iterates in insertion order (third-party contract)', 'std HashMap iteration order is arbitrary']
NOT_DECIDED = ['invariance under inserting / removing degenerate nodes', 'payoff scaling and shifting', 'role exchange as numbers']

HASH_ITERS = {'iter', 'into_iter', 'into_values', 'values', 'keys', 'drain', 'iter_mut', 'values_mut', 'into_keys'}
ORDER_FREE = {'all', 'any', 'count', 'len', 'is_empty', 'contains', 'contains_key', 'get', 'find', 'min', 'max'}
# audited exceptions (function, reason)
E11_AUDITED = {
    'Game::<I, A>::from_root': 'single-action infosets are collected from a HashMap into a slice: their order only affects the order in which the named view lists single-action entries, which no property constrains (they carry no index into the dense vector)',
}
ALLOWED_BOUNDS = {'std::marker::Sized', 'std::hash::Hash', 'std::cmp::Eq', 'std::cmp::PartialEq', 'std::clone::Clone', 'std::borrow::Borrow', 'std::iter::IntoIterator', 'IntoGameNode', 'std::iter::Iterator'}
UNBOUNDED = ["Game::<I, A>::solve", "Strategies::<'a, I, A>::get_info", "Strategies::<'a, I, A>::truncate", "Strategies::<'a, I, A>::distance", "Strategies::<'a, I, A>::as_named", 'Game::<I, A>::num_infosets']
BOUNDED = ['Game::<I, A>::from_root', 'Game::<I, A>::init_recurse', 'Game::<I, A>::from_named', 'Game::<I, A>::strat_into_box', 'Game::<I, A>::from_named_eq', 'Game::<I, A>::strat_into_box_slow']


def run(ctx):
    lib = ctx.lib
    # ---------------- (1) rescaling
    rule = 'C12.rescale'
    f = ctx.fn('lib', 'Game::<I, A>::init_recurse', rule)
    if f is not None:
        divs = list(e2.f64_divisions(f))
        pushes = [norm(e[2][0]) for bi, t, e in q.calls_named(f, 'push') if 'Vec<f64>' in (t['args'][0]['pl']['ty'] if t['args'][0]['o'] in ('copy', 'move') else '')]
        ok = bool(divs) and bool(pushes)
        for dv in divs:
            den = strip_refs(dv['den'])
            ok &= q.is_call(den, 'sum') and any(norm(x) == pushes[0] for x in facts.walk(den)) and any(norm(x) == pushes[0] for x in facts.walk(dv['num']))
        # the comparison with an existing infoset and the stored data both use the normalised vector: the division dominates the entry() call
        ent = [bi for bi, t, e in q.calls_named(f, 'entry') if 'chance_infosets' in facts.show(e[2][0])]
        if not divs and pushes and ent:
            # the same rescaling as an iterator chain: `weights.into_iter().map(|w| w / total).collect()` with
            # `total = weights.iter().sum()`; what is stored / compared is the collected chain
            chains = []
            for bi, t, e in q.calls_named(f, 'map'):
                cf, _ = q.closure_of(lib, e[2][1]) if len(e[2]) > 1 else (None, None)
                if cf is None or not any(norm(x) == pushes[0] for x in facts.walk(e[2][0])):
                    continue
                cdivs = list(e2.f64_divisions(cf))
                if len(cdivs) != 1:
                    continue
                ip = q.item_param(cf)
                den = strip_refs(q.resolve_captures(lib, cf, cdivs[0]['den']))
                num_ok = q.find_sub(cdivs[0]['num'], lambda x: x[0] == 'param' and x[1] == ip) is not None
                r = strip_refs(q.ret_expr(cf))
                ret_is_div = r[0] == 'bin' and r[1] == 'Div'
                if num_ok and ret_is_div and q.is_call(den, 'sum') and any(norm(x) == pushes[0] for x in facts.walk(den)):
                    chains.append((bi, e, cdivs[0]))
            if len(chains) == 1:
                cbi, ce, cdv = chains[0]
                ctx.touch(lib.fns[q.closure_of(lib, ce[2][1])[0].name])
                same = lambda x: x[0] == 'call' and len(x) > 3 and x[3] == ce[3]
                # every value built from the weights that reaches the table (stored on insertion, compared on a hit)
                # is the collected chain
                uses_ok = True
                n_use = 0
                for bi, t, e in q.calls_named(f, 'new'):
                    if 'ChanceInfosetData' in e[1]:
                        n_use += 1
                        uses_ok &= q.find_sub(e, same) is not None
                for bi, t, e in list(q.calls_named(f, 'eq')) + list(q.calls_named(f, 'ne')):
                    if any(norm(x) == pushes[0] for x in facts.walk(e)):
                        n_use += 1
                        uses_ok &= q.find_sub(e, same) is not None
                ok2 = uses_ok and n_use >= 2
                dom2 = f.dominates(cbi, ent[0])
                ctx.verdict(ok2 and dom2, rule, rule + ':own-sum-before-use', 'chance weights are divided by the sum of their own node\'s weights before they are stored or compared', f.where(line=cdv['line']),
                            'iterator form: each weight / sum of the same vector, collected; stored and compared values are that chain: %s (%d uses); before the infoset lookup: %s' % (uses_ok, n_use, dom2),
                            breaks='multiplying a node\'s weights by a constant changes the game (or makes shared infosets unequal)')
                divs = None
        if divs is None:
            pass
        else:
          dom = bool(ent) and all(f.dominates(f.loop_of(dv['bi'])[0] if f.loop_of(dv['bi']) else dv['bi'], ent[0]) for dv in divs)
          ctx.verdict(ok and dom, rule, rule + ':own-sum-before-use', 'chance weights are divided by the sum of their own node\'s weights before they are stored or compared', f.where(line=divs[0]['line']) if divs else f.where(0),
                    'normalised by own sum: %s; before the infoset lookup: %s' % (ok, dom), breaks='multiplying a node\'s weights by a constant changes the game (or makes shared infosets unequal)')
    # ---------------- (2) insertion order
    rule = 'C12.insertion-order'
    for name in ('compact::Builder', 'compact::OptBuilder'):
        adt = lib.adts.get(name)
        if not adt:
            ctx.anchor_lost(rule, name)
            continue
        ftys = dict(zip(adt[0]['fields'], adt[0].get('ftys', [])))
        ctx.verdict(ftys.get('map', '').startswith('indexmap::IndexMap<'), rule, '%s:%s:backed-by-indexmap' % (rule, name), 'the index allocator is backed by an insertion-ordered map', '', 'map: %s' % ftys.get('map', '?')[:50],
                    breaks='infoset indices (and the dense layout) depend on hash order')
    for name, g in lib.fns.items():
        if facts.is_test_path(name) or g.is_closure:
            continue
        if name.endswith('::entry') and g.j.get('impl_self', '').startswith('compact::') and 'Builder' in g.j.get('impl_self', ''):
            ctx.touch(g)
            # ind = self.map.len()
            lens = [e for bi, t, e in q.calls_named(g, 'len') if 'map' in facts.show(e[2][0])]
            sites_ = list(q.struct_sites(g, 'VacantEntry'))
            # every way of handing out a vacant entry (there may be one per kind of key) uses the number of keys so far
            used = bool(sites_) and bool(lens) and all(any(strip_refs(fields.get('ind', ('other',))) == l_ for l_ in lens) for bi, st, fields in sites_)
            if not used and not any('ind' in fields for bi, st, fields in sites_):
                # no explicit index is handed out any more (the position in the insertion-ordered map itself is used)
                ctx.anchor_lost(rule, '%s::entry: the index given to a vacant entry' % g.j.get('impl_self').split('<')[0], 'no VacantEntry { ind: .. } built here')
                continue
            ctx.verdict(used, rule, '%s:%s:index-is-length' % (rule, g.j.get('impl_self').split('<')[0]), 'a new key gets index = number of keys inserted before it', g.where(0), 'VacantEntry.ind = self.map.len(): %s' % used)
        if name.endswith('::into_iter') and g.j.get('impl_self', '').startswith('compact::') and 'Builder' in g.j.get('impl_self', ''):
            ctx.touch(g)
            ok = any(short(p) == 'into_iter' and 'indexmap' in (p + t['callee'].get('def', '') + ' '.join(t['callee'].get('args', []))) for bi, t, p in g.calls())
            ctx.verdict(ok, rule, '%s:%s:yields-map-order' % (rule, g.j.get('impl_self').split('<')[0]), 'the builder is consumed in the map\'s own (insertion) order', g.where(0), 'delegates to IndexMap::into_iter: %s' % ok)
    # the builders' own iterators hand the entries out front to back
    n_it = 0
    for name, g in lib.fns.items():
        if facts.is_test_path(name) or g.is_closure or not name.endswith('::next') or not g.j.get('impl_self', '').startswith('compact::'):
            continue
        n_it += 1
        ctx.touch(g)
        inner = [short(p) for bi, t, p in g.calls() if short(p) in ('next', 'next_back', 'rev', 'pop', 'last', 'nth_back', 'swap_remove', 'remove')]
        ctx.verdict(inner == ['next'], rule, '%s:%s:front-to-back' % (rule, g.j.get('impl_self').split('<')[0]), 'the builder\'s iterator yields the entries of the underlying map front to back (index order)', g.where(0),
                    'advances the inner iterator with: %s' % inner, breaks='the table of infosets is permuted relative to the indices stored in the tree')
    if n_it < 2:
        ctx.anchor_lost(rule, 'compact: the two IntoIter::next implementations', 'found %d' % n_it)
    fr = ctx.fn('lib', 'Game::<I, A>::from_root', rule)
    if fr is not None:
        for bi, st, fields in q.struct_sites(fr, 'Game'):
            ci = fields.get('chance_infosets')
            ok = ci is not None and q.find_sub(ci, lambda s: q.is_call(s, 'into_iter') and 'OptBuilder' in facts.show(s)[:0] + s[1] or q.is_call(s, 'into_iter')) is not None and \
                not any(q.is_call(s, nm) for s in facts.walk(ci) for nm in ('rev', 'sorted', 'sort'))
            ctx.verdict(ok, rule, rule + ':from_root-collects-in-order', 'the chance table is collected from the builder\'s iterator without reordering', fr.where(bi), 'found: %s' % ok)
    # E11
    rule = 'C12.hash-order'
    n = 0
    for g in lib.non_test_fns():
        for bi, t, p in g.calls():
            if short(p) not in HASH_ITERS or not t['args'] or t['args'][0]['o'] not in ('copy', 'move'):
                continue
            ty = t['args'][0]['pl']['ty']
            if not re.search(r'std::collections::(HashMap|HashSet)<', ty) and not ('hash_map::' in p or 'hash_set::' in p or 'hash::map' in p or 'hash::set' in p):
                continue
            n += 1
            ctx.touch(g)
            # consumers of the iterator value
            sinks = []
            seen = set()
            work = [t['dest']['l']]
            while work:
                l = work.pop()
                if l in seen:
                    continue
                seen.add(l)
                for bj, kind, x in q.local_uses(g, l):
                    if kind == 'arg':
                        s = short(x['callee'].get('path') or x['callee'].get('def') or '')
                        if s in ('into_iter', 'map', 'by_ref', 'filter', 'copied', 'cloned', 'enumerate', 'zip', 'chain') and not x['dest']['p']:
                            work.append(x['dest']['l'])
                            if s == 'enumerate':
                                sinks.append('enumerate')
                        elif s == 'collect':
                            dty = g.locals[x['dest']['l']]['ty'] if not x['dest']['p'] else x['dest']['ty']
                            sinks.append('collect:' + ('set/map' if re.search(r'Hash(Map|Set)<|BTree(Map|Set)<|IndexMap<', dty) else 'sequence'))
                        elif s == 'next':
                            sinks.append('for-loop')
                        else:
                            sinks.append(s)
                    elif kind in ('stmt', 'ref'):
                        if not x['pl']['p']:
                            work.append(x['pl']['l'])
            bad = [s for s in sinks if not (s in ORDER_FREE or s == 'collect:set/map')]
            top = q.top(g.name)
            # the audited exception, wherever the code sits: the single-action table (HashMap<I, A>) frozen into a slice of (I, A)
            ty0 = ty.replace('&mut ', '').replace('&', '').strip()
            inner_ = ty0[len('std::collections::HashMap<'):-1] if ty0.startswith('std::collections::HashMap<') and ty0.endswith('>') else None
            # (name type, action type) — whatever the two type parameters are called where the code sits — and nothing concrete
            generic_ = inner_ is not None and not any(w_ in inner_ for w_ in ('usize', 'f64', 'bool', 'u64', 'std::')) and inner_.count(', ') >= 1
            single_table = bad == ['collect:sequence'] and generic_ and \
                any(g.locals[x_['dest']['l']]['ty'] == 'std::boxed::Box<[(%s)]>' % inner_ for l_ in seen for _, k_, x_ in q.local_uses(g, l_)
                    if k_ == 'arg' and short(x_['callee'].get('path') or x_['callee'].get('def') or '') == 'collect' and not x_['dest']['p'])
            if bad and (any(top.endswith(k) for k in E11_AUDITED) or single_table):
                ctx.ok(rule, '%s:%s:%s' % (rule, top, short(p)), 'hash-order iteration ends in an order-insensitive sink (or is an audited exception)', g.where(bi), 'audited: %s' % list(E11_AUDITED.values())[0])
            else:
                ctx.verdict(not bad, rule, '%s:%s:%s#%d' % (rule, top, short(p), n), 'every iteration over a std HashMap / HashSet ends in an order-insensitive sink (all / any / count / collect into a map or set)', g.where(bi),
                            'receiver %s; sinks: %s' % (ty[:50], sinks), breaks='indices, layouts or results depend on the hash seed: presentations of the same game give different answers')
    # ---------------- (3) player symmetry (shared sub-rules)
    c08.rule_regret_update(framework.SubCtx(ctx, 'C08.', 'C12.sym.'))
    c08.rule_external(framework.SubCtx(ctx, 'C08.', 'C12.sym.'))
    # ---------------- (S) parametricity
    rule = 'C12.parametricity'
    def bounds_of(f):
        out = set()
        for pr in f.j.get('preds', []):
            m = re.search(r'TraitPredicate\(<(.+?) as ([\w:]+)', pr)
            if m:
                subj, tr = m.group(1), m.group(2)
                if re.fullmatch(r'[IA]', subj) or 'ChanceInfo' in subj:
                    out.add((subj, tr))
        return out
    for suf in UNBOUNDED:
        f = ctx.fn('lib', suf)
        if f is None:
            continue
        b = {(s, t) for s, t in bounds_of(f) if t != 'std::marker::Sized'}
        ctx.sres(not b, rule, '%s:%s' % (rule, suf), 'no trait bound on the infoset / action name types: the function cannot observe names at all (parametricity)', f.where(0), 'bounds: %s' % (sorted(b) or 'none'))
    for suf in BOUNDED:
        f = ctx.fn('lib', suf)
        if f is None:
            continue
        b = {(s, t) for s, t in bounds_of(f)}
        extra = sorted((s, t) for s, t in b if t not in ALLOWED_BOUNDS)
        ctx.sres(not extra, rule, '%s:%s' % (rule, suf), 'names are used only through Hash + Eq (+ Clone, Borrow): consistent renaming (an injective map) cannot change any comparison', f.where(0), 'bounds beyond Hash/Eq/Clone/Borrow: %s' % (extra or 'none'))
