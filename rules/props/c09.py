"""C09 — early termination stops exactly at the first iteration below the threshold."""
import facts
import loops
import q
from facts import norm, short, strip_refs, is_const

EXPLANATION = """
A relational (two-run) property decided from the shape of the four solver loops (MIR of the current
tree; solve_generic_single, the scope closures of solve_generic_multi and solve_external_multi,
solve_external_single), each checked against the same obligations and thereby cross-checked as
siblings: O1 the loop iterates RangeInclusive::<u64>::new(1, budget) and the induction variable is
never written in the body; O2 besides exhaustion exactly one edge leaves the loop, on the true edge
of the strict comparison `f64::max(a, b) < threshold`; O3 a and b are the two per-player bound slots
and the update of each lies inside the body and dominates the test (fresh bounds, both players);
O4 the threshold flows into that comparison and nowhere else (in the loop function and along the
parameter chain from Game::solve); O5 the break edge and the exhaustion edge join without any
intervening effect; O6 each per-player bound is a sum of 2*max(.,0)/it terms (>= 0 or NaN), so a zero,
negative or NaN threshold can never satisfy `<` (the form rule is shared with C02). Given O1-O6 a run
with (r, N) executes bodies 1..t* and leaves through the same code as a run with (0, t*).
"""
ASSUMPTIONS = ['the loop body is a deterministic function of (solver state, iteration index) — for the sampled methods under fixed sampling decisions, as the property states',
               'RangeInclusive<u64> yields 1, 2, …, N in order (std)']
NOT_DECIDED = ['that the body is deterministic (C06 / C07 decide the schedule clauses)']


def slot_of(e):
    """identify a per-player bound slot: ('arr', var, index) for regs[k]; ('var', id) for reg_one / *reg_one"""
    e = strip_refs(e)
    if e[0] == 'cidx':
        b = norm(e[1])
        return ('arr', b, e[2])
    if e[0] == 'index' and e[2][0] == 'const':
        return ('arr', norm(e[1]), int(e[2][1]))
    if e[0] in ('var', 'upvar'):
        return ('cell', e)
    if e[0] == 'field' and strip_refs(e[1])[0] in ('var', 'upvar') and str(e[2]).isdigit():
        return ('arr', norm(e[1]), int(e[2]))        # a pair given field names (`Regrets { one, two }`, read by position)
    return None


def _mentions(e, thr):
    """does expression e read thr?  Captures inside a closure aggregate count only at the statement that
    builds the closure (top level), not wherever that closure value is mentioned again (e.g. as an argument
    of the call whose result a later statement uses)"""
    def go(x, top):
        if x == thr:
            return True
        if x[0] == 'agg' and x[1].startswith('closure:') and not top:
            return False
        k = x[0]
        if k in ('field', 'deref', 'downcast', 'ref', 'cast', 'discr', 'len', 'cidx', 'subslice', 'repeat'):
            return go(x[1], False)
        if k == 'un':
            return go(x[2], False)
        if k == 'index':
            return go(x[1], False) or go(x[2], False)
        if k == 'bin':
            return go(x[2], False) or go(x[3], False)
        if k in ('call', 'agg'):
            return any(go(a, False) for a in x[2])
        return False
    return go(e, True)


def threshold_uses(f, thr):
    """all places where the threshold value is read in f: list of (block, description)"""
    uses = []
    for bi in sorted(f.reach):
        for st in f.blocks[bi]['stmts']:
            if st['s'] != 'assign':
                continue
            rv = st['rv']
            # only look at non-copy computations and stores to named places
            e = f.rvalue_expr(rv, bi)
            if rv['r'] in ('use', 'ref', 'cast') and not st['pl']['p'] and not f.local_name(st['pl']['l']):
                continue   # pure temporaries: their use sites are inspected instead
            if _mentions(e, thr):
                uses.append((bi, 'assign', e))
        t = f.blocks[bi]['term']
        if t['t'] == 'call':
            for i, a in enumerate(t['args']):
                e = f.operand_expr(a, bi)
                if _mentions(e, thr):
                    uses.append((bi, 'arg%d' % i, f.call_expr(t, bi)))
        elif t['t'] == 'switch':
            e = f.expr(t['d'], bi)
            if _mentions(e, thr):
                uses.append((bi, 'switch', e))
    return uses


def run(ctx):
    lib = ctx.lib
    ls = loops.find(lib)
    if len(ls) < loops.FLOOR:
        ctx.anchor_lost('C09.loops', 'solver loops', 'found %d of %d' % (len(ls), loops.FLOOR))
    for L in ls:
        f = L.fn
        ctx.touch(f)
        name = q.top(f.name)
        # ---------------- O1
        rule = 'C09.O1-range'
        rng = L.range
        ok_start = rng is not None and is_const(rng[2][0], 1)
        budget = strip_refs(rng[2][1]) if rng is not None else None
        ok_budget = budget is not None and budget[0] in ('param', 'upvar')
        it_ok = L.it is not None and L.it[0] not in f.mut_scalars and len(f.defs.get(L.it[0], [])) == 1
        ctx.verdict(bool(ok_start and ok_budget and it_ok), rule, '%s:%s' % (rule, name),
                    'the loop iterates RangeInclusive::<u64>::new(1, budget) with budget a parameter, and the body never writes the induction variable',
                    f.where(L.next_block), 'range=%s, induction variable immutable=%s' % (facts.show(rng) if rng else 'not a 1..=N range', it_ok),
                    breaks='the budget is exceeded or undershot by one, or iteration indices shift (t* differs)')
        # ---------------- O2
        rule = 'C09.O2-single-strict-exit'
        exh = [(a, b) for a, b in L.exits if any(c['switch'] == a and c['kind'] == 'variant' and c['variants'] == ['None'] for c in f.conds(b))]
        others = [x for x in L.exits if x not in exh]
        test = None
        detail = 'exits=%s' % (L.exits,)
        ok2 = len(exh) == 1 and len(others) == 1
        if ok2:
            a, b = others[0]
            c = [c for c in f.conds(b) if c['switch'] == a]
            c = c[0] if c else None
            # `max < thr` and `thr > max` are the same strict comparison (true edge; NaN-safe in both forms)
            if c is not None and c['kind'] == 'Gt' and c.get('truth') is True:
                c = dict(c, kind='Lt', a=c['b'], b=c['a'])
            if c is None or c['kind'] != 'Lt' or c.get('truth') is not True:
                ok2 = False
                detail = 'the conditional exit is %s on edge %s' % (c and c['kind'], c and c.get('truth'))
            else:
                mx = strip_refs(c['a'])
                thr = strip_refs(c['b'])
                is_max = mx[0] == 'call' and short(mx[1]) == 'max' and 'f64' in mx[1] and len(mx[2]) == 2
                thr_top = thr
                if thr[0] not in ('param', 'upvar') and f.is_closure:
                    # the threshold reached through a capture of a capture (a predicate closure that captured it,
                    # itself captured by the closure holding the loop): express it in the enclosing function's terms
                    thr_top = strip_refs(q.simplify(q.resolve_captures(lib, f, thr)))
                ok2 = is_max and (thr[0] in ('param', 'upvar') or thr_top[0] == 'param')
                detail = 'leaves on the true edge of Lt(%s, %s)' % (facts.show(mx)[:60], facts.show(thr))
                if ok2:
                    test = (a, c, mx, thr)
        ctx.verdict(ok2, rule, '%s:%s' % (rule, name),
                    'besides exhaustion exactly one edge leaves the loop: the true edge of the strict `f64::max(a, b) < threshold`',
                    f.where(others[0][0]) if others else f.where(L.header), detail,
                    breaks='a run stops at a bound equal to the threshold, on one player\'s bound only, or through a second exit')
        if test is None:
            continue
        tb, cond, mx, thr = test
        # ---------------- O3
        rule = 'C09.O3-fresh-bounds'
        slots = [slot_of(a) for a in mx[2]]
        # a compared value may also be this iteration's bound itself: the result of a call made inside the
        # body that dominates the test (`let reg_one: f64 = infos.iter_mut().map(advance).sum();`)
        direct = []
        for a in mx[2]:
            x = strip_refs(a)
            direct.append(x[0] == 'call' and x[3][0] == f.name and x[3][1] in L.body and f.dominates(x[3][1], tb) and x[3][1] != tb)
        if all(direct) and strip_refs(mx[2][0])[3] != strip_refs(mx[2][1])[3]:
            ctx.ok(rule, '%s:%s' % (rule, name), 'the two compared values are the two per-player bounds of this iteration, each computed inside the body on every path before the test',
                   f.where(tb), 'both operands are results of calls made in the body that dominate the test: %s' % [facts.show(strip_refs(a))[:40] for a in mx[2]])
            slots = None
        distinct = slots is not None and None not in slots and slots[0] != slots[1]
        if distinct and slots[0][0] == 'arr':
            distinct = slots[0][1] == slots[1][1] and {slots[0][2], slots[1][2]} == {0, 1}
        fresh = []
        # where each compared value is *read* from its slot (a by-value copy such as `let [a, b] = regs;`
        # freezes the value at that statement — the update must come before the copy, not just before the test)
        mterm = f.blocks[mx[3][1]]['term'] if mx[3][0] == f.name else None
        reads = []
        for k in range(2):
            pos = (tb, 10 ** 6)
            op = mterm['args'][k] if mterm is not None and len(mterm.get('args', [])) == 2 else None
            hops = 0
            while op is not None and op.get('o') in ('copy', 'move') and not op['pl']['p'] and hops < 8:
                ds = f.defs.get(op['pl']['l'], [])
                if len(ds) != 1 or ds[0][0] != 'assign':
                    break
                kind, dbi, dsi, rv = ds[0]
                if rv['r'] == 'use' and rv['a'].get('o') in ('copy', 'move'):
                    if rv['a']['pl']['p'] and f.locals[op['pl']['l']]['ty'] == 'f64':
                        pos = (dbi, dsi)       # the f64 is copied out of its slot here
                        break
                    op = rv['a']
                    hops += 1
                else:
                    break
            reads.append(pos)

        def before(k, bi, si):
            rb, ri = reads[k]
            return f.dominates(bi, rb) and (bi != rb or si < ri)
        for k, sl in enumerate(slots or []):
            if sl is None:
                fresh.append(False)
                continue
            base = sl[1]
            upd = False
            # direct assignment or call result stored to the slot, or a store through an iter_mut over the array
            for bi, st, pl, rhs in q.stores(f):
                if bi in L.body and q.find_sub(norm(pl), lambda s: s == base or norm(s) == base) is not None:
                    inner = f.loop_of(bi)
                    anchor = inner[0] if inner and inner[0] != L.header else bi
                    si_ = f.blocks[bi]['stmts'].index(st) if st in f.blocks[bi]['stmts'] else 0
                    if (f.dominates(anchor, tb) and anchor != tb or (anchor == tb and bi == tb)) and before(k, anchor if anchor != bi else bi, si_ if anchor == bi else 10 ** 6 - 1):
                        upd = True
            for bi, si, st in f.assigns():
                if bi in L.body and not st['pl']['p'] and ('var', st['pl']['l'], f.local_name(st['pl']['l'])) == base and f.dominates(bi, tb) and before(k, bi, si):
                    upd = True
            for bi, t, p in f.calls():
                if bi in L.body and not t['dest']['p'] and ('var', t['dest']['l'], f.local_name(t['dest']['l'])) == base and f.dominates(bi, tb) and bi != tb and before(k, bi, 10 ** 6 - 1):
                    upd = True
            fresh.append(upd)
        if slots is not None:
          ctx.verdict(bool(distinct and all(fresh)), rule, '%s:%s' % (rule, name),
                    'the two compared values are the two per-player bound slots, each updated inside the body on every path before the test',
                    f.where(tb), 'slots=%s updated-before-test=%s' % ([facts.show(strip_refs(a)) for a in mx[2]], fresh),
                    breaks='the test sees last iteration\'s bound or only one player\'s bound')
        # ---------------- O4
        rule = 'C09.O4-threshold-non-interference'
        thr_use = thr
        if thr[0] not in ('param', 'upvar'):
            # reached through a captured predicate closure: that capture is what the function reads
            base = [x for x in facts.walk(thr) if x[0] in ('upvar', 'param')]
            thr_use = base[0] if base else thr
        uses = threshold_uses(f, thr_use)
        # building a predicate closure that captures the threshold is not a use when every call of that closure was
        # inlined (the closure function is gone): its body — the exit test — is judged where it runs
        uses = [(bi, k, e) for bi, k, e in uses if not (k == 'assign' and strip_refs(e)[0] == 'agg' and strip_refs(e)[1].startswith('closure:') and strip_refs(e)[1][len('closure:'):] not in lib.fns)]
        def is_the_test(e):
            # the exit comparison itself, wherever it is evaluated (e.g. in a block of an inlined predicate helper)
            cm = facts.cmp_of(strip_refs(e))
            if cm is None:
                return False
            ca, cb_ = norm(cond['a']), norm(cond['b'])
            return (cm[0] == 'Lt' and norm(cm[1]) == ca and norm(cm[2]) == cb_) or (cm[0] == 'Gt' and norm(cm[1]) == cb_ and norm(cm[2]) == ca)
        bad = [(bi, k, facts.show(e)[:80]) for bi, k, e in uses if not (k in ('switch', 'assign') and (bi == tb or is_the_test(e)))]
        ctx.verdict(not bad and (bool(uses) or thr_use is not thr), rule, '%s:%s' % (rule, name),
                    'the threshold is read by the exit comparison and by nothing else in the loop function', f.where(tb),
                    '%d use(s); other uses: %s' % (len(uses), bad), breaks='the threshold changes what an iteration computes, so (r, N) and (0, t*) runs differ')
        # ---------------- O5
        rule = 'C09.O5-common-exit'
        j = loops.trivially_joins(f, exh[0][1], others[0][1])
        ctx.verdict(j is not None, rule, '%s:%s' % (rule, name), 'the break edge and the exhaustion edge join without any statement in between',
                    f.where(others[0][1]), 'join block: %s' % ('bb%d' % j if j is not None else 'none within 6 trivial blocks'),
                    breaks='an early stop returns something a run to exhaustion does not (or vice versa)')
    # ---------------- O2 for solver loops rewritten as `while` / `loop`
    rule = 'C09.O2-while-exit'
    for f, h, body, exits in loops.find_while(lib):
        ctx.touch(f)
        thrs = [('param', l, f.local_name(l)) for l in range(1, f.argc + 1) if f.locals[l]['ty'] == 'f64']
        thrs += [('upvar', i, n) for i, n in f.upvar_names.items() if f.upvar_tys.get(i, '') in ('f64', '&f64')]

        def mentions_thr(x):
            return x is not None and any(y in thrs or (y[0] == 'upvar' and ('upvar', y[1], f.upvar_names.get(y[1], '')) in thrs) for y in facts.walk(x))
        for a, b in exits:
            t = f.blocks[a]['term']
            if t['t'] != 'switch':
                continue
            labels = [v for v, tb in t['targets'] if tb == b] + (['else'] if t['otherwise'] == b else [])
            c = f.cond_of(a, frozenset(labels))
            if c['kind'] == 'bool' and strip_refs(c['a'])[0] == 'var':
                # the loop condition was computed into a bool (e.g. by an inlined `keep_solving(..)` helper):
                # look at the comparison that defines it on the threshold-dependent path
                for bj, cs_, v in q.multi_def_values(f, strip_refs(c['a'])[1]):
                    cm = facts.cmp_of(strip_refs(v))
                    if cm is not None and any(mentions_thr(x) for x in (cm[1], cm[2]) if x is not None):
                        c = dict(c, kind=cm[0], a=cm[1], b=cm[2])
            sides = [c.get('a'), c.get('b')]
            if not any(mentions_thr(x) for x in sides):
                continue        # budget / iterator exit
            safe = False
            if c['kind'] == 'Lt' and c.get('truth') is True and strip_refs(c['b']) in thrs:
                safe = True     # bound < threshold, strict, true edge: NaN / 0 / negative never leave
            if c['kind'] == 'Gt' and c.get('truth') is True and strip_refs(c['a']) in thrs:
                safe = True
            if c['kind'] == 'Is:all' and c.get('truth') is True:
                pred, cf, agg = q.closure_pred(lib, c['b']) if c.get('b') is not None else (None, None, None)
                safe = pred is not None and pred[0] == 'Lt'
            ctx.verdict(safe, rule, '%s:%s' % (rule, q.top(f.name)),
                        'the only threshold-dependent way out of the iteration loop is the true edge of the strict `bound < threshold` (a NaN, zero or negative threshold must never end the run: `!(bound >= threshold)` is not the same test)',
                        f.where(a), 'leaves on %s(%s, %s) edge %s' % (c['kind'], facts.show(c['a'])[:50], facts.show(c['b'])[:40] if c.get('b') is not None else '', c.get('truth')),
                        breaks='a NaN threshold stops the run before the first iteration (or a bound equal to the threshold stops it)')
    # ---------------- O4 along the parameter chain: Game::solve -> solve_* -> solve_generic_* -> closure
    rule = 'C09.O4-threshold-chain'
    chain_fns = ['vanilla::solve_full_single', 'vanilla::solve_full_multi', 'vanilla::solve_sampled_single', 'vanilla::solve_sampled_multi',
                 'vanilla::solve_generic_multi', 'external::solve_external_multi', 'Game::<I, A>::solve']
    for suf in chain_fns:
        f = ctx.fn('lib', suf, rule)
        if f is None:
            continue
        thr = None
        for l in range(1, f.argc + 1):
            if f.locals[l]['ty'] == 'f64':
                thr = ('param', l, f.local_name(l))
        if thr is None:
            ctx.anchor_lost(rule, suf + ': f64 threshold parameter')
            continue
        thr_use = thr
        if thr[0] not in ('param', 'upvar'):
            # reached through a captured predicate closure: that capture is what the function reads
            base = [x for x in facts.walk(thr) if x[0] in ('upvar', 'param')]
            thr_use = base[0] if base else thr
        uses = threshold_uses(f, thr_use)
        # building a predicate closure that captures the threshold is not a use when every call of that closure was
        # inlined (the closure function is gone): its body — the exit test — is judged where it runs
        uses = [(bi, k, e) for bi, k, e in uses if not (k == 'assign' and strip_refs(e)[0] == 'agg' and strip_refs(e)[1].startswith('closure:') and strip_refs(e)[1][len('closure:'):] not in lib.fns)]
        bad = []
        for bi, k, e in uses:
            if k.startswith('arg') and e[0] == 'call' and (short(e[1]).startswith('solve_') or short(e[1]) == 'scope'):
                # passed on unchanged?
                a = strip_refs(e[2][int(k[3:])])
                if a == thr or short(e[1]) == 'scope':
                    continue
            if k == 'assign' and e[0] == 'agg' and e[1].startswith('closure:'):
                continue
            # packed, unchanged, into a tuple / parameter record that travels to the next solver level
            if k == 'assign' and e[0] == 'agg' and e[1] == 'tuple' and any(strip_refs(x) == thr for x in e[2]):
                continue
            if k.startswith('arg') and e[0] == 'call' and (short(e[1]).startswith('solve_') or short(e[1]) in ('new', 'run')):
                a = strip_refs(e[2][int(k[3:])])
                if a[0] == 'agg' and a[1] == 'tuple' and any(strip_refs(x) == thr for x in a[2]):
                    continue
            bad.append((bi, k, facts.show(e)[:80]))
        ctx.verdict(not bad and bool(uses), rule, '%s:%s' % (rule, suf), 'the threshold parameter is only passed on unchanged to the next solver level (or captured by the scope closure)',
                    f.where(uses[0][0]) if uses else '', '%d use(s); other uses: %s' % (len(uses), bad))
    # ---------------- O6 (shared with C02)
    import props.c02 as c02
    c02.bound_form(ctx, 'C09.O6-bound-nonnegative')
