"""C15 — CLI output is faithful to the game in the input file."""
import divisions
import e2
import e4
import facts
import q
from facts import norm, short, strip_refs, is_const

EXPLANATION = """
Decided on the MIR of the binary (main.rs, gambit.rs, json.rs) with E4 signed-monomial forms, E10
player tags and E2 guards: (1) offset coefficient — in gambit.rs every terminal payoff is
cumulative + own - offset (coefficients +1, +1, -1), so both printed utilities must contain the
offset returned by the reader with the opposite coefficient (+1), and that returned value is the
same GlobalInfo.sum; the JSON reader returns the constant 0; (2) interior payoffs — the cumulative
payoff handed to every child is parent cumulative + this node's outcome payoff, the node payoff is 0
for outcome 0 and otherwise the looked-up outcome, the stored outcome value is player one's (element
0 of the pair); player numbers 1/2 map to One/Two and player_num-1 indexes the name tables;
(3) ordering — the action / outcome vector placed into GameNode::Player / ::Chance is the one that
sort_unstable_by was applied to, on every path, and the action comparator compares names; JSON uses
ordered maps; (4) wiring — every player_one_* / player_two_* output field gets PlayerNum::One / ::Two
(position 0 / 1) values, regret is info.regret(); (5) zero-probability actions are filtered with the
strict `> 0.0`; the printed info is the evaluation of the printed strategies (shared with C16).
Not decided: numerical equality with an independent evaluation (rests on C01), gambit-parser and
serde_json themselves.
"""
ASSUMPTIONS = ['gambit-parser and serde_json parse their formats correctly', 'utility evaluation itself is C01']
NOT_DECIDED = ['numeric equality of printed values with an independent evaluation']


def payoff_source(ctx, pid):
    """Gambit outcomes may be defined at one node and referenced by number elsewhere, so a node's payoff is
    the outcome *table* entry of its outcome id — never the node's own (optional) payoff list.  Structural
    form: every call of the parser's `outcome_payoffs()` feeds an insertion into the outcome table; the two
    consumers (game construction and the constant-sum scan) can then only read the table."""
    rule = '%s.payoff-source' % pid
    b = ctx.bin
    n = 0
    bad = []
    inserts = []
    fns = [f for f in b.non_test_fns() if f.name.startswith(('gambit::', '<gambit::'))]
    for f in fns:
        for bi, t, e in q.calls_named(f, 'insert'):
            if 'HashMap' in e[1]:
                inserts.append((f, e))
    for f in fns:
        for bi, t, p in f.calls():
            if short(p) != 'outcome_payoffs' or 'gambit_parser' not in (t['callee'].get('krate') or p):
                continue
            n += 1
            ctx.touch(f)
            site = (f.name, bi)
            def mentions(e, depth=0, seen=None):
                # the call's value directly, or through a local that several match arms assign (`let (id, pays) = match node {..}`)
                seen = seen if seen is not None else set()
                for x in facts.walk(e):
                    if x[0] == 'call' and x[3] == site:
                        return True
                    if x[0] == 'var' and depth < 4 and x[1] not in seen:
                        seen.add(x[1])
                        if any(mentions(v, depth + 1, seen) for _, _, v in q.multi_def_values(f, x[1])):
                            return True
                return False
            feeds = any(g is f and mentions(e) for g, e in inserts)
            if not feeds:
                bad.append(f.where(bi))
    if n == 0:
        ctx.anchor_lost(rule, 'gambit reader: outcome_payoffs() calls building the outcome table')
        return
    ctx.verdict(not bad, rule, rule + ':table-only', 'a node\'s own payoff list (`outcome_payoffs()`) is only used to fill the outcome table; payoffs are consumed through the table keyed by the outcome id',
                bad[0] if bad else '', '%d outcome_payoffs() call(s); not feeding a table insertion: %s' % (n, bad),
                breaks='an outcome defined at one node and referenced by number at another is dropped from the game or from the constant-sum check')


def run(ctx):
    b = ctx.bin
    if b is None:
        ctx.anchor_lost('C15.anchor', 'binary crate facts', hard=True)
        return
    divisions.run(ctx, 'C15')

    def field_by_type(adt_name, pred, default):
        adt = b.adts.get(adt_name) or next((v for k, v in b.adts.items() if k.endswith('::' + adt_name)), None)
        if adt:
            for n_, ty in zip(adt[0].get('fields', []), adt[0].get('ftys', [])):
                if pred(ty):
                    return n_
        return default
    # fields identified by type, not by name (robust to renaming a private struct's fields)
    F_SUM = field_by_type('GlobalInfo', lambda ty: ty == 'f64', 'sum')
    F_OUT = field_by_type('GlobalInfo', lambda ty: 'HashMap<u64, f64' in ty, 'outcomes')
    F_CUM = field_by_type('JoinedNode', lambda ty: ty == 'f64', 'cum_payoff')
    # ---------------- (1) offset coefficient
    rule = 'C15.offset-coefficient'
    g = ctx.fn('bin', "<gambit::JoinedNode<'_> as cfr::IntoGameNode>::into_game_node", rule)
    term_coeff = None
    if g is not None:
        terms = [(bi, st, e) for bi, st, e in q.agg_sites(g, 'GameNode', 'Terminal')]
        if not terms:
            ctx.anchor_lost(rule, 'gambit into_game_node: GameNode::Terminal')
        for bi, st, e in terms:
            p = e4.try_poly(e[2][0])
            is_sum = lambda a: a[0] == 'val' and a[1][0] == 'field' and a[1][2] == F_SUM
            is_cum = lambda a: a[0] == 'val' and a[1][0] == 'field' and a[1][2] == F_CUM
            if p is None:
                ctx.bad(rule, rule + ':terminal-form', 'terminal payoff = cumulative + own - offset', g.where(bi), 'form not recognised')
                continue
            cs, _ = e4.coeff(p, is_sum)
            cc, _ = e4.coeff(p, is_cum)
            others = {m: c for m, c in p.items() if not any(is_sum(a) or is_cum(a) for a in m)}
            own_ok = len(others) == 1 and list(others.values()) == [1.0] and all(len(m) == 1 for m in others)
            term_coeff = cs
            ctx.verdict(cc == 1.0 and cs in (1.0, -1.0) and own_ok, rule, rule + ':terminal-form',
                        'a Gambit terminal payoff is (+1)*cumulative + (+1)*own outcome + k*offset with k = -1 or +1 and nothing else', g.where(bi), 'form: %s' % e4.show_poly(p),
                        breaks='interior payoffs or the terminal\'s own payoff are dropped or double counted')
    m = ctx.fn('bin', 'main', rule)
    out_fields = None
    if m is not None:
        outs = list(q.struct_sites(m, 'Output'))
        if not outs:
            ctx.anchor_lost(rule, 'main: Output { .. }')
        for bi, st, fields in outs:
            out_fields = (bi, fields)
            # the offset: component .1 of the reader result
            def is_off(a):
                return a[0] == 'val' and a[1][0] == 'field' and a[1][2] == '1' and a[1][1][0] == 'var'
            for fld, who in (('player_one_utility', 'One'), ('player_two_utility', 'Two')):
                p = e4.try_poly(fields.get(fld, ('other', 'missing')))
                if p is None:
                    ctx.bad(rule, '%s:%s' % (rule, fld), 'printed utility = game utility + offset', m.where(bi), 'form not recognised')
                    continue
                k, elsewhere = e4.coeff(p, is_off)
                util = e4.monomials_with(p, lambda a: a[0] == 'val' and q.is_call(a[1], 'player_utility'))
                util_ok = len(util) == 1 and list(util.values()) == [1.0]
                want = -term_coeff if term_coeff is not None else 1.0
                ctx.verdict(k == want and not elsewhere and util_ok and len(p) == 2, rule, '%s:%s' % (rule, fld),
                            'each printed utility is (+1)*player_utility + c*offset where c undoes the shift applied to the terminal payoffs (c = %+g)' % want, m.where(bi),
                            'form: %s' % e4.show_poly(p), breaks='for constant-sum Gambit files the two printed utilities do not add up to the constant')
    # the offset returned by the gambit reader is GlobalInfo.sum; json returns 0
    fs = ctx.fn('bin', 'gambit::from_str', rule)
    if fs is not None:
        oks = [(bi, st, e) for bi, st, e in q.agg_sites(fs, 'result::Result', 'Ok')]
        good = False
        for bi, st, e in oks:
            t = strip_refs(e[2][0])
            if t[0] == 'agg' and t[1] == 'tuple' and len(t[2]) == 2:
                o = norm(t[2][1])
                good = o[0] == 'field' and o[2] == F_SUM and q.find_sub(o, lambda s: q.is_call(s, 'get_global_info')) is not None
        ctx.verdict(good, rule, rule + ':reader-returns-sum', 'the offset the Gambit reader returns is the `sum` of the GlobalInfo the payoffs were shifted by', fs.where(0), 'found: %s' % good)
    js = ctx.fn('bin', 'json::from_state', rule)
    if js is not None:
        r = strip_refs(q.ret_expr(js))
        good = r[0] == 'agg' and r[1] == 'tuple' and len(r[2]) == 2 and is_const(r[2][1], 0)
        if not good:
            # the pair wrapped in Ok(..) of a fallible conversion: every (game, offset) pair built here has offset 0.0
            pairs = [strip_refs(e_[2][0]) for _, _, e_ in q.agg_sites(js, 'result::Result', 'Ok') if e_[2]]
            pairs = [t_ for t_ in pairs if t_[0] == 'agg' and t_[1] == 'tuple' and len(t_[2]) == 2]
            if pairs:
                good = all(is_const(t_[2][1], 0) for t_ in pairs)
                r = pairs[0]
        ctx.verdict(good, rule, rule + ':json-offset-zero', 'the JSON reader returns the offset 0.0 (zero-sum by construction)', js.where(0), 'returned: %s' % facts.show(r)[-30:])

    # ---------------- (2) interior payoffs
    rule = 'C15.interior-payoffs'
    if g is not None:
        n = 0
        for c in b.closures_of(g):
            for bi, st, fields in q.struct_sites(c, 'JoinedNode'):
                n += 1
                ctx.touch(c)
                # in terms of into_game_node itself (captures resolved through every closure level)
                ce = q.resolve_captures(b, c, fields.get(F_CUM, ('other', 'x')))
                p = e4.try_poly(ce)
                caps = []
                ok = p is not None and len(p) == 2 and set(p.values()) == {1.0} and all(len(m_) == 1 and m_[0][0] == 'val' for m_ in p)
                if ok:
                    for m_ in p:
                        caps.append(facts.show(norm(m_[0][1])))
                is_parent_cum = lambda x: x.endswith('.' + F_CUM) and x.split('.')[0] in ('self', g.local_name(1) or 'self')
                good_caps = len(caps) == 2 and sum(1 for x in caps if is_parent_cum(x)) == 1
                ctx.verdict(ok and good_caps, rule, '%s:child-cumulative:%s' % (rule, 'chance' if 'closure#0' in c.name or n == 1 else 'player'),
                            'the cumulative payoff handed to a child is (+1)*parent cumulative + (+1)*this node\'s outcome payoff', c.where(bi), 'form: %s over captures %s' % (e4.show_poly(p), caps),
                            breaks='payoffs attached to interior nodes are lost or counted twice')
        if n < 2:
            ctx.anchor_lost(rule, 'child JoinedNode constructions', 'found %d of 2' % n)
        # node payoff: 0.0 for outcome 0, else outcomes[outcome]
        for l, ds in g.defs.items():
            if g.local_name(l) == 'node_payoff' or (len(ds) == 2 and any(d[0] == 'assign' and is_const(g.rvalue_expr(d[3], d[1]), 0) for d in ds)):
                vals = q.multi_def_values(g, l)
                if len(vals) != 2:
                    continue
                zero = [(bi, cs) for bi, cs, v in vals if is_const(v, 0)]
                look = [(bi, cs, v) for bi, cs, v in vals if not is_const(v, 0)]
                if not zero or not look:
                    continue
                z_ok = any(c['kind'] == 'Eq' and c['truth'] is True and q.is_call(strip_refs(c['a']), 'outcome') and is_const(c['b'], 0) for c in zero[0][1]) or \
                    any(c['kind'] == 'value' and c.get('values') == ['0'] and q.is_call(strip_refs(c['a']), 'outcome') for c in zero[0][1])
                lk = look[0][2]
                l_ok = q.find_sub(lk, lambda s: q.is_call(s, 'get') and q.find_sub(s[2][0], lambda y: y[0] == 'field' and y[2] == F_OUT) is not None) is not None and q.find_sub(lk, lambda s: q.is_call(s, 'outcome')) is not None
                kind = 'chance' if any(c['kind'] == 'variant' and c['variants'] == ['Chance'] for c in zero[0][1]) else 'player'
                ctx.verdict(z_ok and l_ok, rule, '%s:node-payoff:%s' % (rule, kind), 'an interior node contributes 0 when it has no outcome (0) and the looked-up payoff of its own outcome otherwise', g.where(zero[0][0]),
                            'zero on `outcome == 0`: %s; lookup of own outcome otherwise: %s' % (z_ok, l_ok))
    gi = ctx.fn('bin', 'gambit::get_global_info', rule)
    if gi is not None:
        good = False
        wrong = False
        for c in b.closures_of(gi):
            r = strip_refs(q.ret_expr(c))
            if r[0] == 'agg' and r[1] == 'tuple' and len(r[2]) == 2:
                v = strip_refs(r[2][1])
                first = (v[0] == 'cidx' and v[2] == 0 and not v[3]) or (v[0] == 'field' and v[2] == '0')     # element 0 of the pair / first field of a two-field record
                other = (v[0] == 'cidx' and v[2] != 0) or (v[0] == 'field' and str(v[2]).isdigit() and v[2] != '0')
                if first and strip_refs(r[2][0])[0] == 'field':
                    good = True
                    ctx.touch(c)
                elif other:
                    wrong = True
        if not good and not wrong:
            ctx.anchor_lost(rule, 'get_global_info: the per-outcome payoff kept for the game', 'no map closure returning (id, component of the pair)')
        else:
          ctx.verdict(good, rule, rule + ':player-one-payoff', 'the payoff kept per outcome is player one\'s (element 0 of the pair)', gi.where(0), 'found map closure returning (id, pair[0]): %s' % good,
                    breaks='the game is solved with player two\'s payoffs')
    # an infoset is printed under the name the file gives it on *any* of its nodes (Gambit lets the label be written on
    # one node of an infoset and omitted on the others): the first-wins entry of the name table is filled only on the edge
    # where this node's infoset_name() is Some — an entry created from a node that omits the label
    # (`entry(infoset).or_insert_with(|| node.infoset_name().map(..))`) shuts out the label a later node spells
    rule = 'C15.infoset-name'
    if gi is not None:
        n_sites = 0
        for bi, t, p in gi.calls():
            if short(p) not in ('or_insert_with', 'or_insert', 'insert', 'or_insert_with_key') or 'HashSet' in p:
                continue
            e = gi.call_expr(t, bi)
            keyed = any(q.find_sub(a, lambda s: q.is_call(s, 'infoset')) is not None for a in e[2][:2])
            if not keyed:
                continue
            guarded = any(c['kind'] == 'variant' and c['variants'] == ['Some'] and q.find_sub(c['a'], lambda s: q.is_call(s, 'infoset_name')) is not None for c in gi.conds(bi))
            val_names = False
            for a in e[2][1:]:
                cf, _agg = q.closure_of(b, a)
                if cf is not None:
                    ctx.touch(cf)
                    val_names |= q.find_sub(q.ret_expr(cf), lambda s: q.is_call(s, 'infoset_name')) is not None
                val_names |= q.find_sub(a, lambda s: q.is_call(s, 'infoset_name')) is not None
            if not (guarded or val_names):
                continue        # another table keyed by the infoset (not the names)
            if not guarded and short(p).startswith('or_insert') and not t['dest']['p'] and q.local_uses(gi, t['dest']['l']):
                ctx.anchor_lost(rule, 'get_global_info: first-wins insert of the name', '(the slot or_insert* returns is used afterwards: whether a later label fills it is not decided)')
                n_sites += 1
                continue
            n_sites += 1
            ctx.verdict(guarded, rule, rule + ':first-wins-only-when-named', 'the name table\'s entry for an infoset is created only from a node that spells the label (on the Some edge of infoset_name())',
                        gi.where(bi), 'entry keyed by infoset(), on the Some edge of infoset_name(): %s' % guarded,
                        breaks='an infoset labelled on one node and left unlabelled on the node visited first is printed under its number instead of its name')
        if not n_sites:
            ctx.anchor_lost(rule, 'get_global_info: the insert that records an infoset\'s name')
    # player number mapping
    rule = 'C15.player-mapping'
    if g is not None:
        ok1 = ok2 = False
        for l, ds in g.defs.items():
            vals = q.multi_def_values(g, l)
            for bi, cs, v in vals:
                if v[0] == 'agg' and v[1].endswith('PlayerNum::One'):
                    ok1 = any(c['kind'] == 'value' and c['values'] == ['1'] and q.is_call(strip_refs(c['a']), 'player_num') for c in cs)
                if v[0] == 'agg' and v[1].endswith('PlayerNum::Two'):
                    ok2 = any(c['kind'] == 'value' and c['values'] == ['2'] and q.is_call(strip_refs(c['a']), 'player_num') for c in cs)
        ctx.verdict(ok1 and ok2, rule, rule + ':one-two', 'Gambit player 1 becomes PlayerNum::One and player 2 PlayerNum::Two', g.where(0), '1->One: %s, 2->Two: %s' % (ok1, ok2), breaks='the players are swapped')
        idx = None
        for bi, t, e in q.calls_named(g, 'get'):
            s = q.find_sub(e[2][0], lambda x: x[0] == 'index' and 'infoset_names' in facts.show(x[1]))
            if s is not None:
                i = strip_refs(s[2])
                idx = i[0] == 'bin' and i[1] == 'Sub' and q.is_call(strip_refs(i[2]), 'player_num') and is_const(i[3], 1)
        if idx is None:
            # the table chosen by the same match that maps the player number: `(1, [names, _]) => .., (2, [_, names]) => ..`
            for bi, t, e in q.calls_named(g, 'get'):
                recv = strip_refs(e[2][0])
                if recv[0] != 'var':
                    continue
                sel = {}
                for bj, cs, v in q.multi_def_values(g, recv[1]):
                    if 'infoset_names' not in facts.show(v):
                        continue
                    pn = [c for c in cs if c['kind'] == 'value' and len(c['values']) == 1 and c['values'][0].isdigit() and q.is_call(strip_refs(c['a']), 'player_num')]
                    tg = q.tags(v)
                    if pn and len(tg) == 1:
                        sel[int(pn[-1]['values'][0])] = next(iter(tg))
                if sel:
                    idx = sel == {1: 0, 2: 1}
        if idx is None:
            ctx.anchor_lost(rule, 'gambit conversion: choice of the per-player infoset name table')
        else:
            ctx.verdict(bool(idx), rule, rule + ':name-table-index', 'infoset names are looked up in table player_num - 1', g.where(0), 'found: %s' % idx)

    payoff_source(ctx, 'C15')
    # ---------------- (3) ordering
    rule = 'C15.sorted-before-use'
    if g is not None:
        for variant, what in (('Player', 'actions'), ('Chance', 'outcomes')):
            sites = [(bi, st, e) for bi, st, e in q.agg_sites(g, 'GameNode', variant)]
            if not sites:
                ctx.anchor_lost(rule, 'gambit into_game_node: GameNode::%s' % variant)
            for bi, st, e in sites:
                vec = e[2][-1]
                sorts = [(bj, t, se) for bj, t, se in q.calls_named(g, 'sort_unstable_by') + q.calls_named(g, 'sort_by') + q.calls_named(g, 'sort_by_key') + q.calls_named(g, 'sort_unstable_by_key')
                         if g.dominates(bj, bi)]
                hit = None
                for bj, t, se in sorts:
                    target = q.container_root(g, t['args'][0])
                    if target is None or target[0][0] != 'var':
                        continue
                    # the aggregate's vector is that vector (moved) or an in-order iterator chain over it
                    for o in st['rv']['ops']:
                        if o['o'] in ('copy', 'move') and g.root_place(o) == target:
                            hit = (bj, se)
                    site = q.def_site(g, target[0][1])
                    if hit is None and site is not None:
                        it = q.find_sub(vec, lambda s: q.is_call(s, 'into_iter') and s[2] and s[2][0][0] == 'call' and s[2][0][3] == site)
                        if it is not None and not any(q.is_call(s, nm) for s in facts.walk(vec) for nm in ('rev', 'filter', 'skip', 'take', 'step_by')):
                            hit = (bj, se)
                cmp_ok = False
                if hit is not None:
                    cf, _ = q.closure_of(b, hit[1][2][1])
                    if cf is not None:
                        ctx.touch(cf)
                        r = strip_refs(q.ret_expr(cf))
                        # compares component .0 (the name) of both items — alone, or first in a tuple
                        txt = facts.show(r)
                        cmp_ok = (q.is_call(r, 'cmp') or q.is_call(r, 'partial_cmp') or q.is_call(r, 'unwrap')) and '.0' in txt
                        if variant == 'Chance' and cmp_ok:
                            # chance outcomes may share a name (names of chance moves are not part of the game): ties are
                            # broken by the probability, so that two nodes of one chance infoset list equal distributions
                            tie = all(q.find_sub(r, lambda s_, k_=k_: s_[0] == 'field' and s_[2] == '1' and q.find_sub(s_, lambda y_: y_[0] == 'param' and y_[1] == k_) is not None) is not None for k_ in ((2, 3) if cf.is_closure else (1, 2)))
                            ctx.verdict(tie, rule, '%s:%s:tie-broken-by-probability' % (rule, what), 'equally named chance outcomes are ordered by probability', cf.where(0),
                                        'comparator reads component .1 of both items: %s' % tie, breaks='a valid file whose chance infoset lists equally named outcomes in different orders is rejected (ProbabilitiesNotEqual)')
                if hit is not None:
                    # what is compared are the decoded names (Strings, as in the JSON maps) — not the parser's escaped labels
                    for bj, t, se in sorts:
                        if (bj, se) != hit:
                            continue
                        target = q.container_root(g, t['args'][0])
                        ty = g.locals[target[0][1]]['ty'] if target and target[0][0] == 'var' else ''
                        if 'Vec<' in ty:
                            elem = ty[ty.index('Vec<') + 4:]
                            decoded = elem.lstrip('&(').startswith(('std::string::String', 'String'))
                            if decoded or 'EscapedStr' in elem:
                                ctx.verdict(decoded, rule, '%s:%s:sorted-by-decoded-name' % (rule, what), 'the vector that is sorted holds the decoded (unescaped) names the game is built with — the order JSON\'s name-ordered maps give',
                                            g.where(bj), 'element type of the sorted vector: %s' % elem[:70], breaks='labels with escaped quotes / backslashes sort differently in the Gambit and the JSON encoding of one game: different action order, different solution')
                ctx.verdict(hit is not None and cmp_ok, rule, '%s:%s' % (rule, what), 'the %s placed into GameNode::%s are the vector sorted by name (Gambit only guarantees equal multisets within an infoset)' % (what, variant),
                            g.where(bi), 'sort dominates construction and feeds it: %s; comparator on names: %s' % (hit is not None, cmp_ok), breaks='nodes of one infoset list actions in different orders: construction fails or actions are mismatched')
    # JSON: ordered maps
    jt = [n for n in b.adts if n.endswith('json::State')]
    js_ok = False
    for n in jt:
        for v in b.adts[n]:
            if v['name'] in ('Player', 'Chance'):
                if any('BTreeMap' in t for t in v.get('ftys', [])):
                    js_ok = True
    ctx.verdict(js_ok, rule, rule + ':json-ordered-maps', 'the JSON DSL keeps actions and outcomes in name-ordered maps (BTreeMap)', '', 'State::{Player,Chance} hold BTreeMap: %s' % js_ok)

    # ---------------- (4) wiring
    rule = 'C15.player-wiring'
    if m is not None and out_fields is not None:
        bi, fields = out_fields
        for fld, e in sorted(fields.items()):
            want = 'One' if '_one_' in fld else 'Two' if '_two_' in fld else None
            if want is None:
                if fld == 'regret':
                    ok = q.is_call(strip_refs(e), 'regret') and 'StrategiesInfo' in strip_refs(e)[1]
                    ctx.verdict(ok, rule, '%s:%s' % (rule, fld), 'the total regret printed is info.regret()', m.where(bi), 'value: %s' % facts.show(e)[:50])
                continue
            if fld.endswith('_strategy'):
                tg = q.tags(e)
                ok = tg == ({0} if want == 'One' else {1}) and q.find_sub(e, lambda s: q.is_call(s, 'as_named')) is not None
                detail = 'as_named() position %s' % sorted(tg)
            else:
                pn = [s for s in facts.walk(e) if s[0] == 'agg' and 'PlayerNum::' in s[1]]
                ok = len(pn) == 1 and pn[0][1].endswith('PlayerNum::' + want)
                callee = q.find_sub(e, lambda s: s[0] == 'call' and short(s[1]) in ('player_utility', 'player_regret'))
                ok = ok and callee is not None and short(callee[1]) == ('player_utility' if 'utility' in fld else 'player_regret')
                detail = '%s(%s)' % (callee and short(callee[1]), [x[1].split('::')[-1] for x in pn])
            ctx.verdict(ok, rule, '%s:%s' % (rule, fld), 'output field %s carries player %s\'s value of the right kind' % (fld, want.lower()), m.where(bi), detail, breaks='a player\'s numbers are printed under the other player\'s name')
    # ---------------- (5) zero-probability filter
    rule = 'C15.zero-filter'
    sf = [f for n, f in b.fns.items() if n.startswith('<Strategy as std::convert::From<I>>::from') and not f.is_closure]
    if not sf:
        ctx.anchor_lost(rule, 'Strategy::from')
    for f in sf:
        ctx.touch(f)
        fl = q.calls_named(f, 'filter')
        ok = False
        seen_pred = False
        for bi, t, e in fl:
            pred, cf, agg = q.closure_pred(b, e[2][1])
            seen_pred = seen_pred or pred is not None
            ok = pred is not None and pred[0] == 'Gt' and is_const(pred[2], 0)
        # other spellings of the same filter: a strict `> 0.0` test guarding the yielded pair (filter_map / for + if)
        for g_ in [f] + b.closures_of(f):
            for bi in sorted(g_.reach):
                t_ = g_.blocks[bi]['term']
                if t_['t'] == 'switch':
                    for labels in (frozenset(['else']), frozenset(['0'])):
                        c_ = g_.cond_of(bi, labels)
                        if c_['kind'] in ('Gt', 'Ge', 'Lt', 'Le') and c_.get('b') is not None and is_const(c_['b'], 0) and c_.get('truth') is True:
                            seen_pred = True
                            ok = ok or c_['kind'] == 'Gt'
            for bi, t_, p_ in g_.calls():
                if short(p_) == 'then' and 'bool' in p_:
                    c_ = facts.cmp_of(strip_refs(g_.call_expr(t_, bi)[2][0]))
                    if c_ and c_[2] is not None and is_const(c_[2], 0):
                        seen_pred = True
                        ok = ok or c_[0] == 'Gt'
        if not seen_pred:
            ctx.anchor_lost(rule, 'Strategy::from: the test that drops zero-probability actions')
        else:
          ctx.verdict(ok, rule, rule + ':strict', 'printed strategies omit exactly the actions that are not `> 0.0`', f.where(0), 'filter predicate Gt(p, 0): %s' % ok)
