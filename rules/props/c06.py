"""C06 — unsampled solve gives the same answer for every thread count."""
import parallel

EXPLANATION = """
Quantifier: thread schedules. The argument "the parallel run performs the same multiset of
commutative updates as the sequential one" has premises that are shapes of the code, each decided on
the MIR of the current tree: (1) E3 container typestate — the per-iteration workspace of
solve_generic_multi (frontier queue, work list, payoff cache) is definitely empty wherever a pass
starts using it (preconditions derived from the callee's own body: thread_threshold grows / observes
its two vectors before emptying them; the par_extend receiver must be empty); forward dataflow over
{empty, maybe-non-empty}, fix-point over the iteration loop, interprocedural by summaries;
(2) cache discipline of recurse_multi — the payoff cache is consulted on entry for the visited node,
all effects lie on the miss edge, a hit returns the cached value; tasks run with the empty cache and
key their result by the node they traversed; (3) E9 parallel effects — every write to shared state
reachable (instance graph) from the task closure is fetch_add/fetch_sub, `x = x ± e` under the
mutex, or a set-once under the lock; (4) E1 — no function of the rand family is reachable from
solve_full_single / solve_full_multi; (5) zero unsafe; (6) the frontier expansion gives every child of a player node a fresh copy of the parent's reach before scaling it by that action's probability (no loop-carried reach); (7) the cache the tasks filled is still filled when the traversal from the root is handed it: no clear / drain / re-initialisation of the par_extend receiver on a path (within one pass) from the fill to that call. Not decided: that the frontier is a set of
disjoint subtrees covering what the root traversal skips, and equality up to summation order as a
number.
"""
ASSUMPTIONS = ['rayon runs every task of par_drain().map() exactly once and par_extend inserts every produced pair',
               'AtomicF64::fetch_add / fetch_sub are atomic read-modify-write operations',
               'floating-point addition is treated as commutative and associative "up to summation order", as the property states']
NOT_DECIDED = ['disjointness / coverage of the parallel frontier (a property of queue contents)', 'numeric equality up to summation order']


def run(ctx):
    parallel.workspace(ctx, 'C06', ['vanilla'])
    parallel.cache_discipline(ctx, 'C06', 'solve::vanilla::recurse_multi')
    parallel.task_closure(ctx, 'C06', 'vanilla::solve_generic_multi', 'recurse_multi')
    parallel.parallel_effects(ctx, 'C06', ['vanilla::solve_generic_multi'])
    parallel.no_rng(ctx, 'C06', ['vanilla::solve_full_single', 'vanilla::solve_full_multi'])
    parallel.child_reach_fresh(ctx, 'C06', ['solve::vanilla::thread_threshold'])
    parallel.frontier_reach_form(ctx, 'C06')
    parallel.frontier_search_pure(ctx, 'C06', ['vanilla'])
    parallel.cache_live_at_root(ctx, 'C06', ['vanilla'])
    parallel.no_unsafe(ctx, 'C06')
