"""CFG normalisation of the MIR facts (used by inline.py after helper bodies were spliced in):

  * jump threading — a block that assigns a constant flag / an enum variant to a local and then (through gotos)
    reaches a switch on that very value jumps directly to the switch's target.  This removes the infeasible paths
    that a helper returning `bool` / `Option` / `Result` (or a materialised `a && b`) creates when its body is copied
    into the caller: dominance-based guards and path enumeration then see the helper's tests again.
  * def-use web splitting — a local with several whole definitions whose uses are each reached by a disjoint
    group of definitions is split into one local per group (live-range splitting), so that a value computed on
    one path is a single-definition expression again.

Both are semantics-preserving transformations of the facts (never of /repo).
"""
import copy

STD_DISCR = {'None': 0, 'Some': 1, 'Ok': 0, 'Err': 1, 'Continue': 0, 'Break': 1, 'Less': -1, 'Equal': 0, 'Greater': 1}


def _discr_of(kind, adts):
    name = kind.get('variant')
    path = kind.get('path') or ''
    vs = adts.get(path) or adts.get(path.split('::')[-1])
    if vs:
        for v in vs:
            if v['name'] == name:
                try:
                    return int(v['discr'])
                except (TypeError, ValueError):
                    return None
        return None
    if path.startswith(('std::option::Option', 'std::result::Result', 'std::ops::ControlFlow', 'core::')) and name in STD_DISCR:
        return STD_DISCR[name]
    return None


def _whole(pl):
    return not pl['p']


def _scan(stmts, known, adts):
    """update `known` (local -> int: value of a bool/int local, or ('v', discr) for a local holding an enum variant)"""
    for st in stmts:
        if st['s'] != 'assign':
            continue
        pl, rv = st['pl'], st['rv']
        if not _whole(pl):
            if any(p['k'] == 'deref' for p in pl['p']):
                known.clear()      # a write through a pointer: anything may have changed
            continue
        x = pl['l']
        v = None
        r = rv['r']
        if r == 'use':
            a = rv['a']
            if a['o'] == 'const' and a['c'].get('k') == 'val' and a['c'].get('v') is not None and a['c'].get('ty') in ('bool', 'isize', 'usize', 'u8', 'i8', 'u32', 'i32', 'u64', 'i64'):
                try:
                    v = int(a['c']['v'])
                except (TypeError, ValueError):
                    v = None
            elif a['o'] in ('copy', 'move') and _whole(a['pl']):
                v = known.get(a['pl']['l'])
        elif r == 'agg' and rv['kind'].get('k') == 'adt':
            d = _discr_of(rv['kind'], adts)
            v = ('v', d) if d is not None else None
        elif r == 'discr' and _whole(rv['pl']):
            kv = known.get(rv['pl']['l'])
            v = kv[1] if isinstance(kv, tuple) else None
        elif r == 'un' and rv.get('op') == 'Not' and rv['a']['o'] in ('copy', 'move') and _whole(rv['a']['pl']):
            kv = known.get(rv['a']['pl']['l'])
            v = (0 if kv else 1) if isinstance(kv, int) else None
        if v is None:
            known.pop(x, None)
        else:
            known[x] = v


def thread_jumps(f, adts, max_hops=10):
    blocks = f['blocks']
    n = 0
    for bi, b in enumerate(blocks):
        if b.get('cleanup') or b['term']['t'] != 'goto':
            continue
        known = {}
        _scan(b['stmts'], known, adts)
        if not known:
            continue
        cur = b['term']['to']
        extra = []
        visited = {bi}
        hops = 0
        while hops < max_hops and cur not in visited:
            visited.add(cur)
            nb = blocks[cur]
            if nb.get('cleanup'):
                break
            stmts = copy.deepcopy(nb['stmts'])
            _scan(stmts, known, adts)
            extra += stmts
            nt = nb['term']
            if nt['t'] == 'goto':
                cur = nt['to']
                hops += 1
                continue
            if nt['t'] == 'switch' and nt['d']['o'] in ('copy', 'move') and _whole(nt['d']['pl']):
                v = known.get(nt['d']['pl']['l'])
                if not isinstance(v, int):
                    break
                tgt = nt['otherwise']
                for lab, tb in nt['targets']:
                    if lab == str(v):
                        tgt = tb
                        break
                b['stmts'].extend(extra)
                b['term'] = {'t': 'goto', 'to': tgt}
                n += 1
                extra = []
                cur = tgt
                hops += 1
                continue
            break
    return n


# ---------------------------------------------------------------------------------------------------------
def _places(x, out):
    """all place dicts and index-projection dicts below x"""
    if isinstance(x, list):
        for y in x:
            _places(y, out)
    elif isinstance(x, dict):
        if 'l' in x and 'p' in x and isinstance(x['p'], list):
            out.append(x)
            for p in x['p']:
                if p.get('k') == 'index':
                    out.append(p)
        else:
            for k, y in x.items():
                if k in ('callee',):
                    if isinstance(y, dict) and 'indirect' in y:
                        _places(y['indirect'], out)
                    continue
                _places(y, out)


def split_webs(f):
    """split multi-definition locals into def-use webs; returns the number of new locals"""
    blocks = f['blocks']
    nb = len(blocks)
    argc = f['argc']
    # occurrences
    defs = {}        # local -> list of (bi, si | 'T')
    bad = set()
    for bi, b in enumerate(blocks):
        for si, st in enumerate(b['stmts']):
            if st['s'] != 'assign':
                continue
            pl = st['pl']
            if _whole(pl):
                defs.setdefault(pl['l'], []).append((bi, si))
            else:
                bad.add(pl['l'])      # partial write
            rv = st['rv']
            if rv['r'] in ('ref', 'rawptr'):
                bad.add(rv['pl']['l'])      # address taken
        t = b['term']
        if t['t'] == 'call':
            if _whole(t['dest']):
                defs.setdefault(t['dest']['l'], []).append((bi, 'T'))
            else:
                bad.add(t['dest']['l'])
        elif t['t'] == 'drop':
            bad.add(t['pl']['l'])
    cands = [l for l, ds in defs.items() if len(ds) >= 2 and l > argc and l not in bad and l != 0]
    if not cands:
        return 0
    succ = {}
    for bi, b in enumerate(blocks):
        t = b['term']
        k = t['t']
        if k == 'goto':
            s = [t['to']]
        elif k == 'switch':
            s = [x[1] for x in t['targets']] + [t['otherwise']]
        elif k in ('drop', 'assert'):
            s = [t['to']]
        elif k == 'call':
            s = [t['to']] if t['to'] is not None and t['to'] >= 0 else []
        else:
            s = []
        succ[bi] = s
    preds = {i: [] for i in range(nb)}
    for i, ss in succ.items():
        for s in ss:
            preds[s].append(i)
    new_locals = 0
    for x in cands:
        dlist = defs[x]
        idx = {d: i for i, d in enumerate(dlist)}
        # per block: last def (gen) or None
        gen = {}
        for (bi, si) in dlist:
            gen[bi] = (bi, si) if bi not in gen or _later(si, gen[bi][1]) else gen[bi]
        IN = {i: frozenset() for i in range(nb)}
        OUT = {i: frozenset() for i in range(nb)}
        work = list(range(nb))
        while work:
            i = work.pop()
            inn = frozenset().union(*[OUT[p] for p in preds[i]]) if preds[i] else frozenset()
            out = frozenset([gen[i]]) if i in gen else inn
            if inn != IN[i] or out != OUT[i]:
                IN[i], OUT[i] = inn, out
                work.extend(succ[i])
        parent = list(range(len(dlist)))

        def find(a):
            while parent[a] != a:
                parent[a] = parent[parent[a]]
                a = parent[a]
            return a

        def union(a, b_):
            ra, rb = find(a), find(b_)
            if ra != rb:
                parent[rb] = ra
        uses = []     # (dict to rewrite, reaching set)
        okx = True
        for bi, b in enumerate(blocks):
            cur = IN[bi]
            for si, st in enumerate(b['stmts']):
                if st['s'] != 'assign':
                    continue
                occ = []
                _places(st['rv'], occ)
                for p in st['pl']['p']:
                    if p.get('k') == 'index':
                        occ.append(p)
                for o in occ:
                    if o['l'] == x:
                        uses.append((o, cur))
                if _whole(st['pl']) and st['pl']['l'] == x:
                    cur = frozenset([(bi, si)])
                elif st['pl']['l'] == x:
                    okx = False
            t = b['term']
            occ = []
            if t['t'] == 'call':
                _places(t['args'], occ)
                if isinstance(t['callee'], dict) and 'indirect' in t['callee']:
                    _places(t['callee']['indirect'], occ)
                for p in t['dest']['p']:
                    if p.get('k') == 'index':
                        occ.append(p)
            elif t['t'] == 'switch':
                _places(t['d'], occ)
            elif t['t'] == 'assert':
                _places(t['cond'], occ)
            elif t['t'] == 'drop':
                _places(t['pl'], occ)
            for o in occ:
                if o['l'] == x:
                    uses.append((o, cur))
        if not okx:
            continue
        for o, rs in uses:
            rs = [idx[d] for d in rs]
            for a in rs[1:]:
                union(rs[0], a)
        roots = sorted({find(i) for i in range(len(dlist))})
        if len(roots) < 2:
            continue
        # keep x for the first web, fresh locals for the others
        newl = {roots[0]: x}
        for r in roots[1:]:
            f['locals'].append(copy.deepcopy(f['locals'][x]))
            newl[r] = len(f['locals']) - 1
            new_locals += 1
            for d in list(f.get('debug', [])):
                if d['v'].get('l') == x and not d['v'].get('p'):
                    d2 = copy.deepcopy(d)
                    d2['v']['l'] = newl[r]
                    f['debug'].append(d2)
        for (bi, si), i in idx.items():
            l2 = newl[find(i)]
            if si == 'T':
                blocks[bi]['term']['dest']['l'] = l2
            else:
                blocks[bi]['stmts'][si]['pl']['l'] = l2
        for o, rs in uses:
            if rs:
                o['l'] = newl[find(idx[next(iter(rs))])]
    return new_locals


def _later(a, b):
    if a == 'T':
        return True
    if b == 'T':
        return False
    return a > b
