"""CFG normalisation of the MIR facts (used by inline.py after helper bodies were spliced in):

  * jump threading — a block that assigns a constant flag / an enum variant to a local and then (through gotos)
    reaches a switch on that very value jumps directly to the switch's target.  This removes the infeasible paths
    that a helper returning `bool` / `Option` / `Result` (or a materialised `a && b`) creates when its body is copied
    into the caller: dominance-based guards and path enumeration then see the helper's tests again.
  * def-use web splitting — a local with several whole definitions whose uses are each reached by a disjoint
    group of definitions is split into one local per group (live-range splitting), so that a value computed on
    one path is a single-definition expression again.

Both are semantics-preserving transformations of the facts (never of /repo).
"""
import copy

STD_DISCR = {'None': 0, 'Some': 1, 'Ok': 0, 'Err': 1, 'Continue': 0, 'Break': 1, 'Less': -1, 'Equal': 0, 'Greater': 1}


def _discr_of(kind, adts):
    name = kind.get('variant')
    path = kind.get('path') or ''
    vs = adts.get(path) or adts.get(path.split('::')[-1])
    if vs:
        for v in vs:
            if v['name'] == name:
                try:
                    return int(v['discr'])
                except (TypeError, ValueError):
                    return None
        return None
    if path.startswith(('std::option::Option', 'std::result::Result', 'std::ops::ControlFlow', 'core::')) and name in STD_DISCR:
        return STD_DISCR[name]
    return None


def _whole(pl):
    return not pl['p']


def _scan(stmts, known, adts):
    """update `known` (local -> int: value of a bool/int local, or ('v', discr) for a local holding an enum variant)"""
    for st in stmts:
        if st['s'] != 'assign':
            continue
        pl, rv = st['pl'], st['rv']
        if not _whole(pl):
            if any(p['k'] == 'deref' for p in pl['p']):
                known.clear()      # a write through a pointer: anything may have changed
            continue
        x = pl['l']
        v = None
        r = rv['r']
        if r == 'use':
            a = rv['a']
            if a['o'] == 'const' and a['c'].get('k') == 'val' and a['c'].get('v') is not None and a['c'].get('ty') in ('bool', 'isize', 'usize', 'u8', 'i8', 'u32', 'i32', 'u64', 'i64'):
                try:
                    v = int(a['c']['v'])
                except (TypeError, ValueError):
                    v = None
            elif a['o'] in ('copy', 'move') and _whole(a['pl']):
                v = known.get(a['pl']['l'])
        elif r == 'agg' and rv['kind'].get('k') == 'adt':
            d = _discr_of(rv['kind'], adts)
            v = ('v', d) if d is not None else None
        elif r == 'discr' and _whole(rv['pl']):
            kv = known.get(rv['pl']['l'])
            v = kv[1] if isinstance(kv, tuple) else None
        elif r == 'un' and rv.get('op') == 'Not' and rv['a']['o'] in ('copy', 'move') and _whole(rv['a']['pl']):
            kv = known.get(rv['a']['pl']['l'])
            v = (0 if kv else 1) if isinstance(kv, int) else None
        if v is None:
            known.pop(x, None)
        else:
            known[x] = v


def thread_jumps(f, adts, max_hops=10):
    blocks = f['blocks']
    n = 0
    for bi, b in enumerate(list(blocks)):
        if b.get('cleanup'):
            continue
        known = {}
        via_call = False
        if b['term']['t'] == 'goto':
            _scan(b['stmts'], known, adts)
            cur = b['term']['to']
        elif b['term']['t'] == 'drop' and not b['term'].get('_threaded'):
            # the value is built, then a local (an iterator, a guard) is dropped on the way out: the drop stays
            _scan(b['stmts'], known, adts)
            known.pop(b['term']['pl']['l'], None)
            cur = b['term']['to']
            via_call = True
        elif b['term']['t'] == 'call' and (b['term']['callee'].get('def') or '') == 'std::ops::FromResidual::from_residual' and not b['term']['dest']['p'] \
                and b['term']['to'] is not None and b['term']['to'] >= 0 and not b['term'].get('_threaded'):
            # `from_residual(..)` always builds the failing variant of its result type
            dty = b['term']['dest'].get('ty', '')
            if dty.startswith('std::result::Result<'):
                known[b['term']['dest']['l']] = ('v', 1)
            elif dty.startswith('std::option::Option<'):
                known[b['term']['dest']['l']] = ('v', 0)
            cur = b['term']['to']
            via_call = True
        else:
            continue
        if not known:
            continue
        extra = []
        visited = {bi}
        hops = 0
        while hops < max_hops and cur not in visited:
            visited.add(cur)
            nb = blocks[cur]
            if nb.get('cleanup'):
                break
            stmts = copy.deepcopy(nb['stmts'])
            _scan(stmts, known, adts)
            extra += stmts
            nt = nb['term']
            if nt['t'] == 'goto':
                cur = nt['to']
                hops += 1
                continue
            if nt['t'] == 'switch' and nt['d']['o'] in ('copy', 'move') and _whole(nt['d']['pl']):
                v = known.get(nt['d']['pl']['l'])
                if not isinstance(v, int):
                    break
                tgt = nt['otherwise']
                for lab, tb in nt['targets']:
                    if lab == str(v):
                        tgt = tb
                        break
                if via_call:
                    # the call stays; its continuation becomes a fresh block carrying the copied statements
                    blocks.append({'cleanup': False, 'stmts': extra, 'term': {'t': 'goto', 'to': tgt}})
                    b['term']['to'] = len(blocks) - 1
                    b['term']['_threaded'] = True
                    n += 1
                    break
                b['stmts'].extend(extra)
                b['term'] = {'t': 'goto', 'to': tgt}
                n += 1
                extra = []
                cur = tgt
                hops += 1
                continue
            break
    return n


# ---------------------------------------------------------------------------------------------------------
def _places(x, out):
    """all place dicts and index-projection dicts below x"""
    if isinstance(x, list):
        for y in x:
            _places(y, out)
    elif isinstance(x, dict):
        if 'l' in x and 'p' in x and isinstance(x['p'], list):
            out.append(x)
            for p in x['p']:
                if p.get('k') == 'index':
                    out.append(p)
        else:
            for k, y in x.items():
                if k in ('callee',):
                    if isinstance(y, dict) and 'indirect' in y:
                        _places(y['indirect'], out)
                    continue
                _places(y, out)


def split_webs(f):
    """split multi-definition locals into def-use webs; returns the number of new locals"""
    blocks = f['blocks']
    nb = len(blocks)
    argc = f['argc']
    # occurrences
    defs = {}        # local -> list of (bi, si | 'T')
    bad = set()
    for bi, b in enumerate(blocks):
        for si, st in enumerate(b['stmts']):
            if st['s'] != 'assign':
                continue
            pl = st['pl']
            if _whole(pl):
                defs.setdefault(pl['l'], []).append((bi, si))
            else:
                bad.add(pl['l'])      # partial write
            rv = st['rv']
            if rv['r'] in ('ref', 'rawptr'):
                bad.add(rv['pl']['l'])      # address taken
        t = b['term']
        if t['t'] == 'call':
            if _whole(t['dest']):
                defs.setdefault(t['dest']['l'], []).append((bi, 'T'))
            else:
                bad.add(t['dest']['l'])
        elif t['t'] == 'drop':
            bad.add(t['pl']['l'])
    cands = [l for l, ds in defs.items() if len(ds) >= 2 and l > argc and l not in bad and l != 0]
    if not cands:
        return 0
    succ = {}
    for bi, b in enumerate(blocks):
        t = b['term']
        k = t['t']
        if k == 'goto':
            s = [t['to']]
        elif k == 'switch':
            s = [x[1] for x in t['targets']] + [t['otherwise']]
        elif k in ('drop', 'assert'):
            s = [t['to']]
        elif k == 'call':
            s = [t['to']] if t['to'] is not None and t['to'] >= 0 else []
        else:
            s = []
        succ[bi] = s
    # only reachable code takes part (blocks cut off by threading / folding keep their stale definitions)
    reach_ = {0}
    todo_ = [0]
    while todo_:
        x_ = todo_.pop()
        for y_ in succ[x_]:
            if y_ not in reach_:
                reach_.add(y_)
                todo_.append(y_)
    for i in range(nb):
        if i not in reach_:
            succ[i] = []
    preds = {i: [] for i in range(nb)}
    for i, ss in succ.items():
        for s in ss:
            preds[s].append(i)
    new_locals = 0
    for x in cands:
        dlist = defs[x]
        idx = {d: i for i, d in enumerate(dlist)}
        # per block: last def (gen) or None
        gen = {}
        for (bi, si) in dlist:
            gen[bi] = (bi, si) if bi not in gen or _later(si, gen[bi][1]) else gen[bi]
        IN = {i: frozenset() for i in range(nb)}
        OUT = {i: frozenset() for i in range(nb)}
        work = list(range(nb))
        while work:
            i = work.pop()
            inn = frozenset().union(*[OUT[p] for p in preds[i]]) if preds[i] else frozenset()
            out = frozenset([gen[i]]) if i in gen else inn
            if inn != IN[i] or out != OUT[i]:
                IN[i], OUT[i] = inn, out
                work.extend(succ[i])
        parent = list(range(len(dlist)))

        def find(a):
            while parent[a] != a:
                parent[a] = parent[parent[a]]
                a = parent[a]
            return a

        def union(a, b_):
            ra, rb = find(a), find(b_)
            if ra != rb:
                parent[rb] = ra
        uses = []     # (dict to rewrite, reaching set)
        okx = True
        for bi, b in enumerate(blocks):
            cur = IN[bi]
            for si, st in enumerate(b['stmts']):
                if st['s'] != 'assign':
                    continue
                occ = []
                _places(st['rv'], occ)
                for p in st['pl']['p']:
                    if p.get('k') == 'index':
                        occ.append(p)
                for o in occ:
                    if o['l'] == x:
                        uses.append((o, cur))
                if _whole(st['pl']) and st['pl']['l'] == x:
                    cur = frozenset([(bi, si)])
                elif st['pl']['l'] == x:
                    okx = False
            t = b['term']
            occ = []
            if t['t'] == 'call':
                _places(t['args'], occ)
                if isinstance(t['callee'], dict) and 'indirect' in t['callee']:
                    _places(t['callee']['indirect'], occ)
                for p in t['dest']['p']:
                    if p.get('k') == 'index':
                        occ.append(p)
            elif t['t'] == 'switch':
                _places(t['d'], occ)
            elif t['t'] == 'assert':
                _places(t['cond'], occ)
            elif t['t'] == 'drop':
                _places(t['pl'], occ)
            for o in occ:
                if o['l'] == x:
                    uses.append((o, cur))
        if not okx:
            continue
        for o, rs in uses:
            rs = [idx[d] for d in rs]
            for a in rs[1:]:
                union(rs[0], a)
        roots = sorted({find(i) for i in range(len(dlist))})
        if len(roots) < 2:
            continue
        # keep x for the first web, fresh locals for the others
        newl = {roots[0]: x}
        for r in roots[1:]:
            f['locals'].append(copy.deepcopy(f['locals'][x]))
            newl[r] = len(f['locals']) - 1
            new_locals += 1
            for d in list(f.get('debug', [])):
                if d['v'].get('l') == x and not d['v'].get('p'):
                    d2 = copy.deepcopy(d)
                    d2['v']['l'] = newl[r]
                    f['debug'].append(d2)
        for (bi, si), i in idx.items():
            l2 = newl[find(i)]
            if si == 'T':
                blocks[bi]['term']['dest']['l'] = l2
            else:
                blocks[bi]['stmts'][si]['pl']['l'] = l2
        for o, rs in uses:
            if rs:
                o['l'] = newl[find(idx[next(iter(rs))])]
    return new_locals


def _later(a, b):
    if a == 'T':
        return True
    if b == 'T':
        return False
    return a > b


# ---------------------------------------------------------------------------------------------------------
def _split_top(ty):
    """generic arguments of `Path<A, B>` at top level"""
    if '<' not in ty or not ty.endswith('>'):
        return []
    inner = ty[ty.index('<') + 1:-1]
    out, depth, cur = [], 0, ''
    for ch in inner:
        if ch in '<([':
            depth += 1
        elif ch in '>)]':
            depth -= 1
        if ch == ',' and depth == 0:
            out.append(cur.strip())
            cur = ''
        else:
            cur += ch
    if cur.strip():
        out.append(cur.strip())
    return out


def lower_branch(f):
    """`Try::branch(x)` on a Result / Option local all of whose definitions are explicit variant constructions (the
    value a spliced-in helper returned) is the match it stands for:
        Ok(v) / Some(v) -> Continue(v)         Err(e) / None -> Break(<the residual>)
    so that jump threading can connect each construction with the edge it takes."""
    blocks = f['blocks']
    defs = {}
    for b in blocks:
        for st in b['stmts']:
            if st['s'] == 'assign' and not st['pl']['p']:
                defs.setdefault(st['pl']['l'], []).append(st['rv'])
        t = b['term']
        if t['t'] == 'call' and not t['dest']['p']:
            defs.setdefault(t['dest']['l'], []).append('residual' if (t['callee'].get('def') or '') == 'std::ops::FromResidual::from_residual' else None)

    def all_variant_defs(l, seen):
        if l in seen or len(seen) > 6:
            return False
        seen.add(l)
        ds = defs.get(l)
        if not ds:
            return False
        n_agg = 0
        for rv in ds:
            if rv is None:
                return False
            if rv == 'residual':
                continue       # the failing variant, built by the `?` of an inner call
            if rv['r'] == 'agg' and rv['kind'].get('k') == 'adt' and rv['kind'].get('variant') in ('Ok', 'Err', 'Some', 'None'):
                n_agg += 1
            elif rv['r'] == 'use' and rv['a'].get('o') in ('copy', 'move') and not rv['a']['pl']['p']:
                if not all_variant_defs(rv['a']['pl']['l'], seen):
                    return False
            else:
                return False
        return True
    n = 0
    for bi in range(len(blocks)):
        b = blocks[bi]
        t = b['term']
        if t['t'] != 'call' or (t['callee'].get('def') or '') != 'std::ops::Try::branch' or len(t['args']) != 1 or t['to'] is None or t['to'] < 0:
            continue
        a = t['args'][0]
        if a.get('o') not in ('copy', 'move') or a['pl']['p'] or t['dest']['p']:
            continue
        l = a['pl']['l']
        lty = a['pl']['ty']
        if not all_variant_defs(l, set()) or len(defs.get(l, [])) < 1:
            continue
        is_opt = lty.startswith('std::option::Option<')
        if not is_opt and not lty.startswith('std::result::Result<'):
            continue
        targs = _split_top(lty)
        pay_ty = targs[0] if targs else '?'
        line = t.get('line')
        dest = t['dest']
        adt = 'std::option::Option' if is_opt else 'std::result::Result'
        good, bad_ = ('Some', 'None') if is_opt else ('Ok', 'Err')
        gi, bd = (1, 0) if is_opt else (0, 1)
        L = len(f['locals'])
        f['locals'].append({'ty': 'isize', 'adt': ''})
        f['locals'].append({'ty': pay_ty, 'adt': ''})
        B = len(blocks)
        pl = lambda l_, ty, p=None: {'l': l_, 'p': p or [], 'ty': ty}
        cont = {'cleanup': False, 'stmts': [
            {'s': 'assign', 'pl': pl(L + 1, pay_ty), 'rv': {'r': 'use', 'a': {'o': 'move', 'pl': pl(l, pay_ty, [{'k': 'downcast', 'v': gi, 'n': good}, {'k': 'field', 'i': 0, 'n': '0'}])}}, 'line': line, 'exp': True},
            {'s': 'assign', 'pl': copy.deepcopy(dest), 'rv': {'r': 'agg', 'kind': {'k': 'adt', 'path': 'std::ops::ControlFlow', 'variant': 'Continue', 'fields': ['0']}, 'ops': [{'o': 'move', 'pl': pl(L + 1, pay_ty)}]}, 'line': line, 'exp': True}],
            'term': {'t': 'goto', 'to': t['to']}}
        brk = {'cleanup': False, 'stmts': [
            {'s': 'assign', 'pl': copy.deepcopy(dest), 'rv': {'r': 'agg', 'kind': {'k': 'adt', 'path': 'std::ops::ControlFlow', 'variant': 'Break', 'fields': ['0']}, 'ops': [{'o': 'move', 'pl': pl(l, lty)}]}, 'line': line, 'exp': True}],
            'term': {'t': 'goto', 'to': t['to']}}
        unr = {'cleanup': False, 'stmts': [], 'term': {'t': 'unreachable'}}
        blocks.extend([cont, brk, unr])
        b['stmts'].append({'s': 'assign', 'pl': pl(L, 'isize'), 'rv': {'r': 'discr', 'pl': pl(l, lty), 'adt': adt}, 'line': line, 'exp': True})
        b['term'] = {'t': 'switch', 'd': {'o': 'move', 'pl': pl(L, 'isize')}, 'targets': [[str(gi), B], [str(bd), B + 1]], 'otherwise': B + 2, 'line': line, 'exp': True}
        n += 1
    return n


# ---------------------------------------------------------------------------------------------------------
def lower_fnptr_calls(f):
    """a call through a local function pointer all of whose values are function items of the crate
    (`let solver = match m { A => f_a, B => f_b }; solver(args)`) becomes a switch over a selector set next to each of
    those assignments, with one direct call per item: the dispatch is visible to the rules again."""
    blocks = f['blocks']
    n = 0
    for bi in range(len(blocks)):
        t = blocks[bi]['term']
        if t['t'] != 'call' or 'indirect' not in (t.get('callee') or {}):
            continue
        op = t['callee']['indirect']
        if op.get('o') not in ('copy', 'move') or op['pl']['p']:
            continue
        roots = []
        ok = True
        todo, done = [op['pl']['l']], set()
        while todo and ok:
            l = todo.pop()
            if l in done:
                continue
            done.add(l)
            found = False
            for bj, b in enumerate(blocks):
                for si, st in enumerate(b['stmts']):
                    if st['s'] != 'assign' or st['pl']['l'] != l:
                        continue
                    if st['pl']['p']:
                        ok = False
                        continue
                    found = True
                    rv = st['rv']
                    src = rv.get('a') if rv['r'] in ('use', 'cast') else None
                    if src is not None and src.get('o') == 'const' and src['c'].get('k') == 'fn':
                        roots.append((bj, si, src['c']))
                    elif rv['r'] == 'use' and src is not None and src.get('o') in ('copy', 'move') and not src['pl']['p']:
                        todo.append(src['pl']['l'])
                    else:
                        ok = False
                tt = b['term']
                if tt['t'] == 'call' and tt['dest']['l'] == l:
                    ok = False
            if not found or l <= f['argc']:
                ok = False
        if not ok or not roots or len(roots) > 8:
            continue
        line = t.get('line')
        sel = len(f['locals'])
        f['locals'].append({'ty': 'isize', 'adt': ''})
        pl = lambda l_, ty: {'l': l_, 'p': [], 'ty': ty}
        # selector assignments (insert from the back so that statement indices stay valid)
        for i, (bj, si, c) in sorted(enumerate(roots), key=lambda x: (x[1][0], -x[1][1])):
            blocks[bj]['stmts'].insert(si + 1, {'s': 'assign', 'pl': pl(sel, 'isize'), 'rv': {'r': 'use', 'a': {'o': 'const', 'c': {'k': 'val', 'v': str(i), 'ty': 'isize', 's': '%d_isize' % i}}}, 'line': line, 'exp': True})
        B = len(blocks)
        targets = []
        for i, (bj, si, c) in enumerate(roots):
            tt = copy.deepcopy(t)
            tt['callee'] = {'def': c['path'], 'args': c.get('args', []), 'resolved': True, 'path': c['path'], 'trait': '', 'self': '', 'local': True, 'krate': ''}
            blocks.append({'cleanup': False, 'stmts': [], 'term': tt})
            targets.append([str(i), B + i])
        blocks.append({'cleanup': False, 'stmts': [], 'term': {'t': 'unreachable'}})
        blocks[bi]['term'] = {'t': 'switch', 'd': {'o': 'copy', 'pl': pl(sel, 'isize')}, 'targets': targets, 'otherwise': B + len(roots), 'line': line, 'exp': True}
        n += 1
    return n


def fold_known_switches(f):
    """a switch on `discriminant(x)` where every (reachable) definition of x builds the same variant is a goto"""
    blocks = f['blocks']
    succ = {}
    for bi, b in enumerate(blocks):
        t = b['term']
        k = t['t']
        succ[bi] = [t['to']] if k in ('goto', 'drop', 'assert') else ([x[1] for x in t['targets']] + [t['otherwise']]) if k == 'switch' else \
            ([t['to']] if k == 'call' and t['to'] is not None and t['to'] >= 0 else [])
    reach = {0}
    todo = [0]
    while todo:
        x = todo.pop()
        for y in succ[x]:
            if y not in reach:
                reach.add(y)
                todo.append(y)
    defs = {}
    for bi in reach:
        b = blocks[bi]
        for st in b['stmts']:
            if st['s'] == 'assign':
                if not st['pl']['p']:
                    defs.setdefault(st['pl']['l'], []).append(st['rv'])
                else:
                    defs.setdefault(st['pl']['l'], []).append(None)
        t = b['term']
        if t['t'] == 'call' and not t['dest']['p']:
            dty = t['dest'].get('ty', '')
            if (t['callee'].get('def') or '') == 'std::ops::FromResidual::from_residual' and dty.startswith(('std::result::Result<', 'std::option::Option<')):
                defs.setdefault(t['dest']['l'], []).append({'r': 'agg', 'kind': {'k': 'adt', 'path': 'std::result::Result' if dty.startswith('std::result') else 'std::option::Option',
                                                                                  'variant': 'Err' if dty.startswith('std::result') else 'None'}, 'ops': []})
            else:
                defs.setdefault(t['dest']['l'], []).append(None)

    def variant_of(l, seen):
        if l in seen or len(seen) > 6 or l <= f['argc']:
            return None
        seen.add(l)
        ds = defs.get(l)
        if not ds:
            return None
        out = set()
        for rv in ds:
            if rv is None:
                return None
            if rv['r'] == 'agg' and rv['kind'].get('k') == 'adt':
                d = _discr_of(rv['kind'], {})
                if d is None:
                    return None
                out.add(d)
            elif rv['r'] == 'use' and rv['a'].get('o') in ('copy', 'move') and not rv['a']['pl']['p']:
                v = variant_of(rv['a']['pl']['l'], seen)
                if v is None:
                    return None
                out.add(v)
            else:
                return None
        return next(iter(out)) if len(out) == 1 else None
    n = 0
    for bi in sorted(reach):
        b = blocks[bi]
        t = b['term']
        if t['t'] != 'switch' or t['d'].get('o') not in ('copy', 'move') or t['d']['pl']['p']:
            continue
        dl = t['d']['pl']['l']
        src = None
        for st in reversed(b['stmts']):
            if st['s'] == 'assign' and not st['pl']['p'] and st['pl']['l'] == dl:
                src = st['rv']
                break
        if src is None or src['r'] != 'discr' or src['pl']['p']:
            continue
        v = variant_of(src['pl']['l'], set())
        if v is None:
            continue
        tgt = t['otherwise']
        for lab, tb in t['targets']:
            if lab == str(v):
                tgt = tb
        b['term'] = {'t': 'goto', 'to': tgt}
        n += 1
    return n


def direct_stores(f):
    """A store through a unique reference to a local — `*r = v` with `r = &mut x`, also when `r` is read out of the
    environment of a closure built here (`*(*env).0 = v`: the body of a lowered for_each / fold closure updating a
    captured `mut` local) — is a store to that local: the place is rewritten, so that the local's definitions include
    it (the reads are resolved by the expression layer already).  Only single-definition reference temporaries and
    field-only referents are followed (`&mut x.a`, not `&mut v[i]`)."""
    blocks = f['blocks']
    argc = f.get('argc', 0)
    defs = {}
    partial = set()
    for b in blocks:
        for st in b['stmts']:
            if st['s'] == 'assign':
                if st['pl']['p']:
                    if not any(p['k'] == 'deref' for p in st['pl']['p']):
                        partial.add(st['pl']['l'])
                else:
                    defs.setdefault(st['pl']['l'], []).append(st['rv'])
        t = b['term']
        if t['t'] == 'call':
            if t['dest']['p']:
                if not any(p['k'] == 'deref' for p in t['dest']['p']):
                    partial.add(t['dest']['l'])
            else:
                defs.setdefault(t['dest']['l'], []).append(None)

    def single(l):
        d = defs.get(l, [])
        return d[0] if len(d) == 1 and d[0] is not None and l not in partial and l > argc else None

    def resolve(pl):
        l, ps = pl['l'], list(pl['p'])
        changed = False
        for _ in range(14):
            if not ps:
                break
            rv = single(l)
            if rv is None:
                break
            k = ps[0]['k']
            if k == 'deref' and rv['r'] == 'ref' and all(q['k'] == 'field' for q in rv['pl']['p']):
                l, ps = rv['pl']['l'], list(rv['pl']['p']) + ps[1:]
                changed = True
            elif k == 'deref' and rv['r'] == 'ref' and rv['pl']['p'] and rv['pl']['p'][0]['k'] == 'deref' and all(q['k'] == 'field' for q in rv['pl']['p'][1:]):
                # a reborrow `&mut (*r).a`
                l, ps = rv['pl']['l'], list(rv['pl']['p']) + ps[1:]
                changed = True
            elif k == 'deref' and rv['r'] == 'use' and rv['a'].get('o') in ('copy', 'move') and all(q['k'] in ('deref', 'field') for q in rv['a']['pl']['p']):
                # the reference was moved / copied out of another place (`r2 = move r`, `r2 = (*env).1`)
                l, ps = rv['a']['pl']['l'], list(rv['a']['pl']['p']) + ps
                changed = True
            elif k == 'field' and rv['r'] == 'agg' and rv['kind'].get('k') in ('closure', 'tuple') and ps[0]['i'] < len(rv.get('ops', [])):
                op = rv['ops'][ps[0]['i']]
                if op.get('o') not in ('copy', 'move') or op['pl']['p'] or single(op['pl']['l']) is None:
                    break
                l, ps = op['pl']['l'], ps[1:]
                changed = True
            else:
                break
        if not changed or any(p['k'] == 'deref' for p in ps):
            return None
        out = dict(pl)
        out['l'], out['p'] = l, ps
        return out
    n = 0
    for b in blocks:
        for st in b['stmts']:
            if st['s'] == 'assign' and any(p['k'] == 'deref' for p in st['pl']['p']):
                np_ = resolve(st['pl'])
                if np_ is not None:
                    st['pl'] = np_
                    n += 1
        t = b['term']
        if t['t'] == 'call' and any(p['k'] == 'deref' for p in t['dest']['p']):
            np_ = resolve(t['dest'])
            if np_ is not None:
                t['dest'] = np_
                n += 1
    return n


def _type_head(t):
    t = t.strip()
    while t.startswith('&'):
        t = t[1:].lstrip()
        if t.startswith("'"):
            t = t.split(' ', 1)[1] if ' ' in t else t
        if t.startswith('mut '):
            t = t[4:]
    return t.split('<')[0]


def scalar_replace(f, new_structs):
    """Scalar replacement of a local of a *new* record type (a struct of the crate that the reference tree does not
    have: a parameter object / visitor state a refactor introduced) that never escapes: every use is the initial
    struct literal, a field projection `x.f..`, a `&mut x` whose copies are only ever used as `(*r).f..`, or its drop.
    The record is split into one local per field (named after the field), so that `visitor.total += v` inside a
    spliced method body is an update of a plain local again.  Returns the number of records replaced."""
    blocks = f['blocks']
    argc = f.get('argc', 0)
    locals_ = f['locals']
    cands = {l for l, loc in enumerate(locals_) if l > argc and not loc['ty'].lstrip().startswith('&') and _type_head(loc['ty']) in new_structs}
    if not cands:
        return 0
    is_place = lambda x: isinstance(x, dict) and 'l' in x and 'p' in x and isinstance(x['p'], list)
    # alias discovery: references to a candidate, their copies and whole reborrows
    target = {}
    bad = set()

    def def_target(rv):
        if rv['r'] == 'ref' and is_place(rv['pl']):
            pl = rv['pl']
            if not pl['p'] and pl['l'] in cands:
                return pl['l']
            if len(pl['p']) == 1 and pl['p'][0]['k'] == 'deref' and pl['l'] in target:
                return target[pl['l']]
        if rv['r'] == 'use' and rv['a'].get('o') in ('copy', 'move') and not rv['a']['pl']['p'] and rv['a']['pl']['l'] in target:
            return target[rv['a']['pl']['l']]
        return None
    for _ in range(6):
        grew = False
        for b in blocks:
            for st in b['stmts']:
                if st['s'] == 'assign' and not st['pl']['p'] and st['pl']['l'] not in cands and locals_[st['pl']['l']]['ty'].lstrip().startswith('&'):
                    tg = def_target(st['rv'])
                    if tg is not None and st['pl']['l'] not in target and st['pl']['l'] > argc:
                        target[st['pl']['l']] = tg
                        grew = True
        if not grew:
            break
    group = lambda l: l if l in cands else target.get(l)

    # classify every occurrence
    def visit_place(pl, role, st=None):
        g = group(pl['l'])
        if g is None:
            return
        if pl['l'] in cands:
            if pl['p'] and pl['p'][0]['k'] == 'field':
                return
            if not pl['p'] and role in ('init', 'refwhole', 'drop'):
                return
            bad.add(g)
        else:
            if len(pl['p']) >= 2 and pl['p'][0]['k'] == 'deref' and pl['p'][1]['k'] == 'field':
                return
            if not pl['p'] and role in ('aliasdef', 'aliassrc'):
                return
            if len(pl['p']) == 1 and pl['p'][0]['k'] == 'deref' and role == 'reborrow':
                return
            bad.add(g)

    def walk(x, role='use'):
        if is_place(x):
            visit_place(x, role)
            for p in x['p']:
                if p.get('k') == 'index' and 'l' in p and group(p['l']) is not None:
                    bad.add(group(p['l']))
            return
        if isinstance(x, dict):
            for v in x.values():
                walk(v, role)
        elif isinstance(x, list):
            for v in x:
                walk(v, role)
    for b in blocks:
        for st in b['stmts']:
            if st['s'] != 'assign':
                walk(st)
                continue
            pl, rv = st['pl'], st['rv']
            if not pl['p'] and pl['l'] in cands:
                if rv['r'] == 'agg' and rv['kind'].get('k') == 'adt' and rv['kind'].get('path') == _type_head(locals_[pl['l']]['ty']):
                    walk(rv.get('ops'))
                    continue
                bad.add(pl['l'])
                walk(rv)
                continue
            if not pl['p'] and pl['l'] in target:
                tg = def_target(rv)
                if tg is None or tg != target[pl['l']]:
                    bad.add(target[pl['l']])
                    if tg is not None:
                        bad.add(tg)
                continue
            visit_place(pl, 'use')
            if rv['r'] == 'ref' and is_place(rv.get('pl')) and group(rv['pl']['l']) is not None and (not rv['pl']['p'] or (len(rv['pl']['p']) == 1 and rv['pl']['p'][0]['k'] == 'deref')):
                bad.add(group(rv['pl']['l']))     # a reference to the whole record stored somewhere that is not an alias
            else:
                walk(rv)
        t = b['term']
        if t['t'] == 'drop' and is_place(t.get('pl')) and not t['pl']['p'] and t['pl']['l'] in cands:
            continue
        walk({k: v for k, v in t.items() if k not in ('to', 'targets', 'otherwise', 'unwind', 'line', 't', 'callee')})
    # every candidate must be initialised exactly by struct literals
    inits = {}
    for b in blocks:
        for st in b['stmts']:
            if st['s'] == 'assign' and not st['pl']['p'] and st['pl']['l'] in cands:
                inits.setdefault(st['pl']['l'], []).append(st)
    good = [l for l in sorted(cands) if l not in bad and inits.get(l)]
    if not good:
        return 0
    names = {d['v']['l']: d['name'] for d in f.get('debug', []) if is_place(d.get('v')) and not d['v']['p']}
    done = 0
    for L in good:
        kinds = inits[L][0]['rv']['kind']
        fields = kinds.get('fields') or []
        ops0 = inits[L][0]['rv']['ops']
        n = len(ops0)
        if any(len(s_['rv']['ops']) != n for s_ in inits[L]):
            continue
        ftys = []
        for k in range(n):
            o = ops0[k]
            ftys.append(o['pl']['ty'] if o.get('o') in ('copy', 'move') else o.get('c', {}).get('ty', '?'))
        base = len(locals_)
        for k in range(n):
            locals_.append({'ty': ftys[k], 'adt': ''})
            nm = str(fields[k]) if k < len(fields) else str(k)
            f.setdefault('debug', []).append({'name': nm, 'v': {'l': base + k, 'p': [], 'ty': ftys[k]}})
        aliases = {r for r, tg in target.items() if tg == L}

        def fix(x):
            if is_place(x):
                if x['l'] == L and x['p'] and x['p'][0]['k'] == 'field':
                    k = x['p'][0]['i']
                    x['l'], x['p'] = base + k, x['p'][1:]
                elif x['l'] in aliases and len(x['p']) >= 2 and x['p'][0]['k'] == 'deref' and x['p'][1]['k'] == 'field':
                    k = x['p'][1]['i']
                    x['l'], x['p'] = base + k, x['p'][2:]
                for p in x['p']:
                    fix(p)
                return
            if isinstance(x, dict):
                for v in x.values():
                    fix(v)
            elif isinstance(x, list):
                for v in x:
                    fix(v)
        for b in blocks:
            out = []
            for st in b['stmts']:
                if st['s'] == 'assign' and not st['pl']['p'] and st['pl']['l'] == L:
                    for k, o in enumerate(st['rv']['ops']):
                        o2 = copy.deepcopy(o)
                        fix(o2)
                        out.append({'s': 'assign', 'pl': {'l': base + k, 'p': [], 'ty': ftys[k]}, 'rv': {'r': 'use', 'a': o2}, 'line': st.get('line'), 'exp': st.get('exp', False)})
                    continue
                if st['s'] == 'assign' and not st['pl']['p'] and st['pl']['l'] in aliases:
                    continue
                fix(st)
                out.append(st)
            b['stmts'] = out
            t = b['term']
            if t['t'] == 'drop' and is_place(t.get('pl')) and not t['pl']['p'] and t['pl']['l'] == L:
                b['term'] = {'t': 'goto', 'to': t['to']}
            else:
                fix(t)
        done += 1
    return done
