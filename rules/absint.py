"""Path-sensitive abstract interpretation of one function over a small finite domain (enum variants,
booleans, symbolic inputs): extracts *decision tables* — which sink (a call, an aggregate, a return) is
reached under which combination of inputs — independently of how the dispatch is written (nested matches,
guards, a `resolve()` step that rewrites the selector, helper functions already inlined by inline.py,
`==` / `!=` on field-less enums, early returns).

This is dataflow over the MIR CFG: no code is run and no solver is involved; every switch whose selector the
domain cannot evaluate is followed on all edges and leaves a '?<block>' token in the path, so a table entry
that depends on such a fork can be reported as not decided rather than as wrong.

    paths = absint.run(f, client)            -> list of Path(tokens, sink, bi)
    absint.table(paths, keys, domains)        -> {assignment tuple: set of sinks}, {assignment: depends on '?'}

abstract values
    ('var', adt, name)      a known variant of a field-less enum (also used for Option-like tags)
    ('sym', key, adt)       an input of enum type `adt`; tokens[key] fixes its variant on a path
    ('b', key)              a symbolic boolean input; tokens[key] fixes it
    ('k', n)                a known integer / boolean
    ('not', v) ('eq', a, b) ('discr', v)
    None                    unknown
"""
import collections

import facts
from facts import short

Path = collections.namedtuple('Path', 'tokens sink bi trace')
STD_DISCR = {'None': 0, 'Some': 1, 'Ok': 0, 'Err': 1, 'Continue': 0, 'Break': 1}


class Client:
    """override what is needed"""

    def place(self, f, pl, bi, it):
        """abstract value of a place with field projections (None = unknown)"""
        return None

    def call(self, f, bi, t, args, it):
        """abstract value of a call's result; args = abstract values of the operands"""
        return None

    def sink(self, f, bi, t, it):
        """label if the terminator of block bi is a sink of the table (the path ends there)"""
        return None

    def stmt_sink(self, f, bi, st, it):
        return None

    def param(self, f, l):
        """abstract value of parameter local l at entry"""
        return None

    def enter(self, f, bi, st, tokens, it):
        """called when a path enters block bi; may return an updated token dict"""
        return None

    def at_return(self, f, bi, st, tokens, it):
        """label of a path that reaches `return` (None: the path is dropped)"""
        return None


def _adt_key(crate, path):
    if path in crate.adts:
        return path
    s = path.split('::')[-1]
    for k in crate.adts:
        if k == s or k.endswith('::' + s):
            return k
    return path


class Interp:
    def __init__(self, f, client, cap=4000, start=0, state=None, revisit=False):
        self.revisit = revisit
        self.f = f
        self.c = client
        self.cap = cap
        self.paths = []
        self.overflow = False
        self.start = start
        self.init_state = state or {}

    # ---- values
    def variants(self, adt):
        return self.f.crate.adts.get(_adt_key(self.f.crate, adt)) or []

    def resolve(self, v, tokens):
        if v is None:
            return None
        k = v[0]
        if k == 'sym' and v[1] in tokens:
            return ('var', v[2], tokens[v[1]])
        if k == 'b' and v[1] in tokens:
            return ('k', int(bool(tokens[v[1]])))
        if k == 'not':
            x = self.resolve(v[1], tokens)
            if x is not None and x[0] == 'k':
                return ('k', 0 if x[1] else 1)
            return ('not', x) if x is not None else None
        if k == 'eq':
            a, b = self.resolve(v[1], tokens), self.resolve(v[2], tokens)
            if a is None or b is None:
                return None
            if a[0] == 'var' and b[0] == 'var':
                return ('k', int(a[2] == b[2]))
            if a[0] == 'k' and b[0] == 'k':
                return ('k', int(a[1] == b[1]))
            return ('eq', a, b)
        if k == 'discr':
            x = self.resolve(v[1], tokens)
            if x is not None and x[0] == 'var':
                for vv in self.variants(x[1]):
                    if vv['name'] == x[2]:
                        return ('k', int(vv['discr']))
                if x[1].startswith(('std::', 'core::')) and x[2] in STD_DISCR:
                    return ('k', STD_DISCR[x[2]])
            return ('discr', x) if x is not None else None
        return v

    def assume(self, v, truth, tokens):
        """token dicts under which boolean v has the given truth; None = cannot say"""
        v = self.resolve(v, tokens)
        if v is None:
            return None
        k = v[0]
        if k == 'k':
            return [tokens] if bool(v[1]) == truth else []
        if k == 'b':
            return [dict(tokens, **{v[1]: truth})]
        if k == 'not':
            return self.assume(v[1], not truth, tokens)
        if k == 'eq':
            a, b = v[1], v[2]
            if a[0] == 'var' and b[0] == 'sym':
                a, b = b, a
            if a[0] == 'sym' and b[0] == 'var':
                names = [x['name'] for x in self.variants(a[2])]
                if not names:
                    return None
                if truth:
                    return [dict(tokens, **{a[1]: b[2]})] if b[2] in names else []
                return [dict(tokens, **{a[1]: n}) for n in names if n != b[2]]
        return None

    def place_val(self, pl, bi, st):
        fields = [p for p in pl['p'] if p['k'] != 'deref']
        if not fields:
            return st.get(pl['l'])
        v = self.c.place(self.f, pl, bi, self)
        if v is not None:
            return v
        # a component of a value built on this path: `(x as Variant).i` of ('var', adt, Variant, payload), `.i` of ('tup', vals)
        v = st.get(pl['l'])
        for p in fields:
            if v is None:
                return None
            if p['k'] == 'downcast':
                if v[0] != 'var' or (p.get('n') is not None and p['n'] != v[2]):
                    return None
            elif p['k'] == 'field':
                if v[0] == 'var' and len(v) > 3 and p['i'] < len(v[3]):
                    v = v[3][p['i']]
                elif v[0] == 'tup' and p['i'] < len(v[1]):
                    v = v[1][p['i']]
                else:
                    return None
            else:
                return None
        return v

    def operand(self, o, bi, st):
        k = o['o']
        if k in ('copy', 'move'):
            return self.place_val(o['pl'], bi, st)
        if k == 'const':
            c = o['c']
            if c.get('k') in ('val', 'uneval') and c.get('v') is not None:
                try:
                    return ('k', int(c['v']))
                except (TypeError, ValueError):
                    return None
            if c.get('k') == 'promoted':
                e = facts.strip_refs(self.f.promoted_expr(c['i']))
                if e[0] == 'agg' and e[1].startswith('adt:') and not e[2]:
                    path, _, variant = e[1][4:].rpartition('::')
                    return ('var', path, variant)
                if e[0] == 'const' and e[1] is not None:
                    try:
                        return ('k', int(e[1]))
                    except (TypeError, ValueError):
                        return None
        return None

    def rvalue(self, rv, bi, st):
        r = rv['r']
        if r == 'use':
            return self.operand(rv['a'], bi, st)
        if r in ('ref', 'rawptr'):
            return self.place_val(rv['pl'], bi, st)
        if r == 'cast':
            return self.operand(rv['a'], bi, st)
        if r == 'discr':
            v = self.place_val(rv['pl'], bi, st)
            return ('discr', v) if v is not None else None
        if r == 'un' and rv['op'] == 'Not':
            v = self.operand(rv['a'], bi, st)
            return ('not', v) if v is not None else None
        if r == 'bin' and rv['op'] in ('Eq', 'Ne'):
            a, b = self.operand(rv['a'], bi, st), self.operand(rv['b'], bi, st)
            if a is None or b is None:
                return None
            e = ('eq', a, b)
            return e if rv['op'] == 'Eq' else ('not', e)
        if r == 'agg':
            kd = rv['kind']
            if kd.get('k') == 'adt' and not rv['ops']:
                return ('var', kd['path'], kd['variant'])
            if kd.get('k') == 'adt' and kd.get('variant') is not None:
                return ('var', kd['path'], kd['variant'], tuple(self.operand(o, bi, st) for o in rv['ops']))
            if kd.get('k') == 'tuple':
                return ('tup', tuple(self.operand(o, bi, st) for o in rv['ops']))
        return None

    # ---- exploration
    def run(self):
        st = dict(self.init_state)
        for l in range(1, self.f.argc + 1):
            v = self.c.param(self.f, l)
            if v is not None:
                st[l] = v
        self._go(self.start, st, {}, frozenset(), ())
        return self.paths

    def _emit(self, tokens, sink, bi, trace=()):
        self.paths.append(Path(dict(tokens), sink, bi, trace))
        if len(self.paths) > self.cap:
            self.overflow = True

    def _go(self, bi, st, tokens, onpath, trace=()):
        f = self.f
        while True:
            if self.overflow:
                return
            if bi in onpath:
                # back edge: a loop body is walked once, then the header is entered a second time to take its exit
                if not self.revisit or (bi, 2) in onpath:
                    return
                onpath = onpath | {(bi, 2)}
            onpath = onpath | {bi}
            trace = trace + (bi,)
            b = f.blocks[bi]
            tk2 = self.c.enter(f, bi, st, tokens, self)
            if tk2 is not None:
                tokens = tk2
            for s in b['stmts']:
                if s['s'] != 'assign':
                    continue
                lab = self.c.stmt_sink(f, bi, s, self)
                if lab is not None:
                    self._emit(tokens, lab, bi, trace)
                    return
                pl = s['pl']
                if not pl['p']:
                    st = dict(st)
                    st[pl['l']] = self.rvalue(s['rv'], bi, st)
                elif not any(p['k'] == 'deref' for p in pl['p']):
                    st = dict(st)
                    st[pl['l']] = None
            t = b['term']
            k = t['t']
            lab = self.c.sink(f, bi, t, self)
            if lab is not None:
                self._emit(tokens, lab, bi, trace)
                return
            if k == 'goto' or k in ('drop', 'assert'):
                bi = t['to']
                continue
            if k == 'call':
                if t['to'] < 0:
                    return
                args = [self.operand(o, bi, st) for o in t['args']]
                v = self.c.call(f, bi, t, args, self)
                if v is None:
                    v = self._builtin_call(t, args)
                d = t['dest']
                st = dict(st)
                if not d['p']:
                    st[d['l']] = v
                elif not any(p['k'] == 'deref' for p in d['p']):
                    st[d['l']] = None
                bi = t['to']
                continue
            if k == 'switch':
                d = self.resolve(self.operand(t['d'], bi, st), tokens)
                edges = self._edges(t, d, tokens, bi)
                for tb, tk in edges:
                    self._go(tb, st, tk, onpath, trace)
                return
            if k == 'return':
                lab = self.c.at_return(f, bi, st, tokens, self)
                if lab is not None:
                    self._emit(tokens, lab, bi, trace)
                return
            return   # unreachable / resume / abort

    def _builtin_call(self, t, args):
        p = t['callee'].get('path') or ''
        s = short(p)
        if s in ('eq', 'ne') and 'PartialEq' in (t['callee'].get('trait') or p) and len(args) == 2 and args[0] is not None and args[1] is not None:
            e = ('eq', args[0], args[1])
            return e if s == 'eq' else ('not', e)
        if s in ('clone', 'deref', 'borrow', 'as_ref', 'into', 'from', 'to_owned') and len(args) == 1:
            v = args[0]
            if v is not None and v[0] in ('var', 'sym', 'k', 'b'):
                return v
        if s == 'not' and len(args) == 1 and args[0] is not None:
            return ('not', args[0])
        if s == 'branch' and len(args) == 1 and args[0] is not None and args[0][0] == 'var' and args[0][2] in ('Ok', 'Some', 'Err', 'None'):
            if len(args[0]) > 3 and args[0][2] in ('Ok', 'Some'):
                return ('var', 'std::ops::ControlFlow', 'Continue', args[0][3])
            return ('var', 'std::ops::ControlFlow', 'Continue' if args[0][2] in ('Ok', 'Some') else 'Break')
        return None

    def _edges(self, t, d, tokens, bi):
        targets = t['targets']
        other = t['otherwise']

        def target_of(n):
            for lab, tb in targets:
                if lab == str(n):
                    return tb
            return other
        if d is not None and d[0] == 'k':
            return [(target_of(d[1]), tokens)]
        if d is not None and d[0] == 'discr' and d[1] is not None and d[1][0] == 'sym':
            vs = self.variants(d[1][2])
            if vs:
                return [(target_of(int(v['discr'])), dict(tokens, **{d[1][1]: v['name']})) for v in vs]
        # boolean selector
        dty = (t['d'].get('pl') or {}).get('ty') or (t['d'].get('c') or {}).get('ty') or ''
        if dty == 'bool' and d is not None:
            out = []
            known = True
            for truth in (False, True):
                alts = self.assume(d, truth, tokens)
                if alts is None:
                    known = False
                    break
                out += [(target_of(int(truth)), a) for a in alts]
            if known:
                return out
        # unknown selector: every edge, remembered as an undecided fork
        out = []
        seen = set()
        for lab, tb in list(targets) + [('else', other)]:
            if (tb, lab) in seen:
                continue
            seen.add((tb, lab))
            if self.f.blocks[tb]['term']['t'] == 'unreachable' and not self.f.blocks[tb]['stmts']:
                continue
            out.append((tb, dict(tokens, **{'?%d' % bi: lab})))
        return out


def run(f, client, **kw):
    it = Interp(f, client, **kw)
    it.run()
    return it


def table(paths, keys, domains):
    """expand the paths over the full product of `domains` (dict key -> list of values).
    Returns {assignment tuple (in `keys` order): (set of sinks, undecided: bool)}"""
    import itertools
    out = {}
    for combo in itertools.product(*[domains[k] for k in keys]):
        asg = dict(zip(keys, combo))
        sinks = set()
        und = False
        compat = []
        for p in paths:
            if all(p.tokens.get(k, asg[k]) == asg[k] for k in keys):
                compat.append(p)
                sinks.add(p.sink)
        if len(sinks) > 1:
            und = any(any(str(k).startswith('?') for k in p.tokens) for p in compat)
        out[combo] = (sinks, und)
    return out


def path_conds(f, path):
    """the guard records (as Fn.cond_of) of the switch edges a path took, in order"""
    out = []
    tr = path.trace
    for a, b in zip(tr, tr[1:]):
        t = f.blocks[a]['term']
        if t['t'] != 'switch':
            continue
        labels = [v for v, tb in t['targets'] if tb == b] + (['else'] if t['otherwise'] == b else [])
        if labels and len({tb for _, tb in t['targets']} | {t['otherwise']}) > 1:
            out.append(f.cond_of(a, frozenset(labels)))
    return out


class ReturnPaths(Client):
    """every path to a return (feasible under constant propagation of flags and variants)"""

    def at_return(self, f, bi, st, tokens, it):
        return 'return'
