"""Rules shared by C06 and C07: per-iteration workspace (E3), cache discipline of the cached
traversals, effects inside parallel regions (E9), zero unsafe."""
import e1
import e3
import e9
import facts
import q
from facts import norm, short, strip_refs

# frozen instances (confirmed by reading): the frontier builders treat whatever their two vector
# parameters hold at entry as frontier nodes of *this* pass
FRONTIER_BUILDERS = {'solve::vanilla::thread_threshold': True, 'solve::external::thread_threshold': True}

# anchors counted by hand: per solver module one frontier builder (thread_threshold, two `&mut Vec`
# parameters) that is summarised, and one par_extend site whose receiver is the payoff cache
def workspace(ctx, pid, which):
    """E3 obligations for the solver modules in `which` ('vanilla', 'external')"""
    lib = ctx.lib
    rule = '%s.workspace-empty' % pid
    eng = e3.E3(lib, observe_requires=FRONTIER_BUILDERS)
    for f in lib.non_test_fns():
        if f.name.startswith('solve::'):
            eng.analyse(f)
            ctx.touch(f)
    counts = {w: 0 for w in which}
    for key, rec in sorted(eng.obligation_sites.items()):
        mod = 'vanilla' if 'solve::vanilla::' in key else 'external' if 'solve::external::' in key else None
        if mod not in which:
            continue
        counts[mod] += 1
        k = key.replace('E3.workspace-empty', rule)
        ctx.verdict(rec['status'] == 'ok', rule, k,
                    'a per-pass workspace (frontier queue / work list / payoff cache) is empty when the pass starts using it — wherever it is emptied',
                    rec['site'], ('empty on every path reaching this use' if rec['status'] == 'ok' else 'may be NON-EMPTY here on a path around the iteration loop') + '; needed because: ' + rec['reason'],
                    breaks='stale frontier nodes (with stale reach) are scheduled as tasks again, or stale cached payoffs cut the root traversal short: results depend on the thread count from the second pass on')
    for w in which:
        tt = 'solve::%s::thread_threshold' % w
        summ = eng.summaries.get(tt)
        f = lib.fns.get(tt)
        nvec = sum(1 for l in range(1, (f.argc if f else 0) + 1) if e3.is_container_ty(f.locals[l]['ty'])) if f else 0
        called = any(p == tt for g in lib.non_test_fns() if g.name.startswith('solve::%s::' % w) for _, _, p in g.calls())
        if f is None or summ is None or not summ.done or nvec != 2 or not called:
            ctx.anchor_lost(rule, tt, 'frontier builder with two vector parameters, summarised and called: fn=%s summarised=%s vectors=%d called=%s' % (f is not None, bool(summ and summ.done), nvec, called))
        if not any(('solve::%s::' % w) in x for x in eng.par_extend_sites):
            ctx.anchor_lost(rule, 'solve::%s par_extend of the payoff cache' % w)
        ctx.ok(rule + '.summary', '%s.summary:%s' % (rule, tt), 'what the frontier builder needs from its caller is derived from its own body', f.where(0) if f else '',
               'requires empty at entry: %s' % (sorted('arg%d%s' % (k[0][1], ''.join('.' + x for x in k[1])) for k in summ.requires) if summ else '?'))
    # a pass leaves its workspace as it found it: every container reachable from the `&mut Workspace` parameter of the
    # per-pass function is empty again at every return (so the next pass starts from nothing, whichever helper
    # — or nobody — checks it at entry).  Derived from the function's own body by the typestate analysis.
    if 'external' in which:
        pf = ctx.fn('lib', 'solve::external::single_player_iter', rule)
        if pf is not None:
            summ = eng.summary(pf)
            conts = {k: v for k, v in (summ.exit if summ else {}).items() if k[0][0] == 'param' and k[1]}
            if not conts:
                ctx.anchor_lost(rule, 'single_player_iter: containers of the workspace parameter')
            # ... or it does not care how it finds them: a second run of the typestate analysis in which *every* function
            # counts as using what a container holds at entry (grown / drained / observed before being emptied) tells
            # which containers the pass needs empty when it starts; one it empties itself first is not among them
            class _All(dict):
                def get(self, k, d=None):
                    return True
            eng2 = e3.E3(lib, observe_requires=_All(), par_extend_requires=True)
            s2 = eng2.summary(pf)
            needs = set(s2.requires) if s2 is not None and s2.done else None
            for k, v in sorted(conts.items(), key=str):
                empty_out = v in (e3.E, e3.IN)
                own_reset = needs is not None and k not in needs
                ctx.verdict(empty_out or own_reset, rule, '%s:exit:single_player_iter:%s' % (rule, '.'.join(k[1])),
                            'the per-pass function returns with every workspace container empty, or empties it itself before using it (what a pass queued or cached does not survive into the next pass)', pf.where(0),
                            'state of arg%d.%s at exit: %s; needs it empty at entry: %s' % (k[0][1], '.'.join(k[1]), {'E': 'empty', 'M': 'possibly non-empty', 'N': 'non-empty'}.get(v, v), '?' if needs is None else k in needs),
                            breaks='frontier nodes queued in one pass are dispatched in the next, off its sampled path: results depend on the thread count')
    ctx.stats['call_sites'] += eng.sites
    return eng


def cache_discipline(ctx, pid, fname):
    """in a cached traversal (recurse_multi / recurse_regret): the cache is consulted first and
    every effect lies on its miss edge"""
    rule = '%s.cache-first' % pid
    f = ctx.fn('lib', fname, rule)
    if f is None:
        return
    gp = q.calls_named(f, 'get_payoff')
    if not gp:
        ctx.anchor_lost(rule, fname + ': get_payoff')
        return
    bi0, t0, e0 = gp[0]
    # the lookup is on the traversed node itself
    node_ok = norm(e0[2][1]) == ('param', 1, f.local_name(1))
    ctx.verdict(node_ok and bi0 == 0, rule, '%s:%s:lookup-on-entry' % (rule, fname), 'the payoff cache is consulted for the visited node before anything else happens',
                f.where(bi0), 'lookup key = %s in entry block = %s' % (facts.show(norm(e0[2][1])), bi0 == 0),
                breaks='a cached subtree is traversed (and its regrets updated) a second time')
    # every other call with effects is on the None edge
    bad = []
    n = 0
    for bi, t, p in f.calls():
        if bi == bi0:
            continue
        if short(p) in ('recurse_multi', 'recurse_regret', 'update_cum_strat', 'recurse_player', 'fetch_sub', 'fetch_add', 'next_nodes', 'next', 'recurse', 'next_update'):
            n += 1
            miss = any(c['kind'] == 'variant' and c['variants'] == ['None'] and q.find_sub(c['a'], lambda s: s[0] == 'call' and s[3] == e0[3]) is not None for c in f.conds(bi))
            if not miss:
                bad.append((short(p), t['line']))
    ctx.verdict(not bad and n > 0, rule, '%s:%s:effects-on-miss-edge' % (rule, fname), 'descent and every regret / strategy update happen only on the cache-miss edge',
                f.where(bi0), '%d effect calls checked; not on the miss edge: %s' % (n, bad))
    # a hit returns the cached value unchanged
    hit_ok = False
    for d in f.defs.get(0, []):
        if d[0] == 'assign':
            v = norm(f.rvalue_expr(d[3], d[1]))
            if v[0] == 'field' and v[1][0] == 'downcast' and v[1][2] == 'Some' and q.find_sub(v, lambda s: s[0] == 'call' and s[3] == e0[3]) is not None:
                hit_ok = True
    # the cache travels with the recursion: every recursive call (also from the closures handed to helpers) passes the
    # function's own cache parameter on
    cpar = next((l for l in range(1, f.argc + 1) if norm(strip_refs(e0[2][0])) == ('param', l, f.local_name(l))), None)
    if cpar is not None:
        nrec, lost = 0, []
        me = short(f.name)
        lib = ctx.lib
        for g in [f] + lib.closures_of(f):
            for bi, t, e in q.calls_named(g, me):
                nrec += 1
                args = [norm(strip_refs(q.resolve_captures(lib, g, a))) if g.is_closure else norm(strip_refs(a)) for a in e[2]]
                if ('param', cpar, f.local_name(cpar)) not in args:
                    lost.append(g.where(bi))
        if nrec:
            ctx.verdict(not lost, rule, '%s:%s:cache-passed-down' % (rule, fname), 'every recursive call passes the payoff cache on', f.where(0),
                        '%d recursive calls; without the cache parameter: %s' % (nrec, lost), breaks='a cached task subtree below that call is traversed (and its regrets updated) a second time')
    ctx.verdict(hit_ok, rule, '%s:%s:hit-returns-cached' % (rule, fname), 'a cache hit returns the cached payoff unchanged', f.where(bi0), 'found: %s' % hit_ok)


def task_closure(ctx, pid, host_suffix, traversal):
    """the parallel task closure runs the traversal with the empty cache `&()` and keys its result
    by the address of the node it traversed"""
    rule = '%s.task-discipline' % pid
    lib = ctx.lib
    regs = [r for r in e9.rayon_regions(lib) if r[0] == 'shared' and q.top(r[3].name).endswith(host_suffix)]
    if not regs:
        ctx.anchor_lost(rule, host_suffix + ': parallel task closure')
        return
    for kind, cf, agg, f, bi in regs:
        ctx.touch(cf)
        calls = q.calls_named(cf, traversal)
        if not calls and not lib.find(traversal):
            ctx.anchor_lost(rule, '%s: the traversal %s the tasks run' % (host_suffix, traversal), 'no function of that name any more')
            continue
        if not calls:
            ctx.bad(rule, '%s:%s' % (rule, host_suffix), 'tasks run the cached traversal', cf.where(0), 'no call to %s in the task closure' % traversal)
            continue
        bj, t, e = calls[0]
        last_ty = t['args'][-1]['pl']['ty'] if t['args'][-1]['o'] in ('copy', 'move') else t['args'][-1]['c'].get('ty', '')
        empty_cache = last_ty.replace(' ', '') in ('&()', '()')
        if not empty_cache:
            # the "no cache" value of a cache type that replaced the `()` implementation: an `Empty` / `None` variant
            lv = strip_refs(q.resolve_captures(lib, cf, e[2][-1])) if cf.is_closure else strip_refs(e[2][-1])
            empty_cache = lv[0] == 'agg' and lv[1].startswith('adt:') and lv[1].rsplit('::', 1)[-1] in ('Empty', 'None') and not lv[2]
            import re as _re
            m_ = _re.search(r'\{([A-Za-z0-9_:<>]+)\}\s*$', last_ty)
            if not empty_cache and m_ and lib.fns.get(m_.group(1)) is not None:
                # ... or a function item that finds nothing (`no_cached_payoffs`)
                rr = strip_refs(q.ret_expr(lib.fns[m_.group(1)]))
                empty_cache = rr[0] == 'agg' and rr[1].endswith('Option::None') and not rr[2]
            if not empty_cache and lv[0] == 'agg' and lv[1].startswith('closure:') and not lv[2]:
                # the cache as a lookup function: `&|_| None` captures nothing and finds nothing
                lk = lib.fns.get(lv[1][len('closure:'):])
                if lk is not None:
                    rr = strip_refs(q.ret_expr(lk))
                    empty_cache = rr[0] == 'agg' and rr[1].endswith('Option::None') and not rr[2]
                    last_ty = '%s (a capture-less closure returning %s)' % (last_ty, facts.show(rr))
        node = norm(e[2][0])
        nodes_ = [norm(a_) for a_ in e[2]]      # the traversal may be a method: the node is then not the first argument
        r = strip_refs(q.ret_expr(cf))
        key_ok = False
        if r[0] == 'agg' and r[1] == 'tuple' and len(r[2]) == 2:
            k = strip_refs(r[2][0])
            if k[0] == 'agg' and 'ByAddress' in k[1] and (norm(k[2][0]) == node or (norm(k[2][0]) in nodes_ and 'Node' in str(cf.locals[0]['ty']) + facts.show(k[2][0]) or norm(k[2][0]) in nodes_[1:2])):
                key_ok = True
            pay_ok = r[2][1][0] == 'call' and r[2][1][3] == e[3]
        else:
            pay_ok = False
        ctx.verdict(empty_cache, rule, '%s:%s:empty-cache' % (rule, host_suffix), 'tasks traverse with the empty cache `&()` (a task never reads another task\'s result)', cf.where(bj), 'cache argument type %s' % last_ty,
                    breaks='a task\'s result depends on which other tasks have finished')
        ctx.verdict(key_ok and pay_ok, rule, '%s:%s:keyed-by-own-node' % (rule, host_suffix), 'a task returns (address of the node it traversed, the payoff that traversal returned)', cf.where(bj),
                    'key is the traversed node: %s; value is the traversal result: %s' % (key_ok, pay_ok), breaks='payoffs cached under the wrong node')


def parallel_effects(ctx, pid, host_suffixes):
    """E9 over the parallel regions hosted in the given functions"""
    lib = ctx.lib
    rule = '%s.parallel-effects' % pid
    regs = [r for r in e9.rayon_regions(lib) if any(q.top(r[3].name).endswith(h) for h in host_suffixes)]
    if not regs:
        ctx.anchor_lost(rule, 'rayon regions in %s' % host_suffixes)
    n_shared = 0
    for kind, cf, agg, f, bi in regs:
        ctx.touch(cf)
        host = q.top(f.name)
        if kind == 'exclusive':
            caps = []
            for i, a in enumerate(agg[2]):
                # type of the captured operand
                caps.append(facts.show(a))
            tys = []
            for l in range(len(cf.locals)):
                pass
            cap_tys = [cf.locals[1]['ty']]
            bad = [x for x in INTERIOR_IN(cf, agg)]
            ctx.verdict(not bad, rule, '%s:%s:exclusive-region-captures' % (rule, host),
                        'a par_iter_mut task owns its element; the closure captures nothing with interior mutability, so no shared write is possible', f.where(bi),
                        'captures: %s; interior-mutable: %s' % (caps, bad))
            continue
        n_shared += 1
        reached, found = e9.region_local_fns(lib, cf)
        if not found:
            ctx.anchor_lost(rule, 'instance-graph node of %s' % cf.name)
            continue
        seen = {}
        for p in sorted(reached):
            fn = lib.fns[p]
            ctx.touch(fn)
            for inst, ok, detail, line in e9.shared_write_findings(lib, fn):
                base = '%s:%s:%s:%s' % (rule, host, q.top(p), inst)
                n = seen.get(base, 0)
                seen[base] = n + 1
                key = base if n == 0 else '%s#%d' % (base, n)
                ctx.verdict(ok, rule, key, 'every write to state shared between parallel tasks is a commutative update (fetch_add/fetch_sub, x = x ± e under the lock) or a set-once under the lock',
                            '%s:%s' % (fn.file, line), detail,
                            breaks='lost updates or schedule-dependent results inside the parallel region')
    return n_shared


def INTERIOR_IN(cf, agg):
    """captured variables of a closure whose type has interior mutability"""
    out = []
    for i in range(len(agg[2])):
        ty = cf.upvar_tys.get(i, '?')
        if ty == '?' or any(m in ty for m in e9.INTERIOR):
            out.append('%s: %s' % (cf.upvar_names.get(i, i), ty))
    return out


def no_unsafe(ctx, pid):
    rule = '%s.no-unsafe' % pid
    for kind in ('lib', 'bin'):
        c = ctx.crates.get(kind)
        if c is None:
            continue
        ctx.verdict(not c.unsafe, rule, '%s:%s' % (rule, kind), 'no user-written unsafe block, fn or impl (data-race freedom is then the type system\'s)', '',
                    'unsafe constructs: %s' % (c.unsafe or 'none'), breaks='data races / aliasing the borrow checker no longer excludes')


def no_rng(ctx, pid, roots):
    rule = '%s.no-rng-reachable' % pid
    lib = ctx.lib
    for suf in roots:
        r, par = e1.reach(lib, suf)
        if r is None:
            ctx.anchor_lost(rule, 'instance-graph root ' + suf, hard=True)
            continue
        h = e1.hits(lib, par, e1.is_rng)
        wit = ' -> '.join(lib.path_to(par, h[0])[-6:]) if h else ''
        ctx.verdict(not h, rule, '%s:%s' % (rule, suf), 'no function of the rand family is reachable in the instance-resolved call graph', '',
                    '%d instances reached, %d of the rand family%s' % (len(par), len(h), ('; e.g. ' + wit) if wit else ''),
                    breaks='the unsampled method is no longer deterministic')
        ctx.stats['paths'] += len(par)


# frozen instances: functions that derive a child's reach vector from the parent's for each child
REACH_DERIVERS = {
    'solve::vanilla::thread_threshold': 'the frontier expansion queues every child of a player node with the parent reach * that action\'s probability',
    'solve::vanilla::recurse_player': 'the traversal recurses into every action with the parent reach * that action\'s probability',
}


def child_reach_fresh(ctx, pid, fnames=None):
    """a per-child reach vector ([f64; 2] copied from the parent's reach and then scaled in place) must be
    re-initialised from the parent's reach for every child: the copy lies inside the loop that scales it"""
    rule = '%s.child-reach-fresh' % pid
    lib = ctx.lib
    n = 0
    for fname, why in REACH_DERIVERS.items():
        if fnames is not None and fname not in fnames:
            continue
        f = ctx.fn('lib', fname, rule)
        if f is None:
            continue
        for g in [f] + lib.closures_of(f):
            for l, ds in g.defs.items():
                if g.locals[l]['ty'] != '[f64; 2]' or l <= g.argc:
                    continue
                whole = [d for d in ds if d[0] == 'assign' and d[3]['r'] == 'use' and d[3]['a'].get('o') in ('copy', 'move')]
                if not whole:
                    continue
                # in-place scaling: a mutable borrow of the local
                muts = []
                for bi in sorted(g.reach):
                    for st in g.blocks[bi]['stmts']:
                        if st['s'] == 'assign' and st['rv']['r'] == 'ref' and st['rv'].get('mut') and st['rv']['pl']['l'] == l and not st['rv']['pl']['p']:
                            muts.append(bi)
                for bm in muts:
                    lp = g.loop_of(bm)
                    if lp is None:
                        continue
                    n += 1
                    ctx.touch(g)
                    fresh = any(d[1] in lp[1] and g.dominates(d[1], bm) for d in whole)
                    ctx.verdict(fresh, rule, '%s:%s' % (rule, q.top(g.name)), 'the child\'s reach is a fresh copy of the parent\'s reach for every child: the copy is made inside the loop over the children, before it is scaled',
                                g.where(bm), 'reach vector `%s` copied from the parent inside the child loop: %s (%s)' % (g.local_name(l) or '_%d' % l, fresh, why),
                                breaks='the k-th child is given the product of the first k action probabilities instead of its own: wrong reach in the subtrees handed to worker tasks')
        # the same defect with the loop written as an iterator adaptor: the per-item closure scales a reach vector it
        # captured by mutable reference (copied from the parent's reach *outside* the closure, once for all children)
        PER_ITEM = {'map', 'for_each', 'filter_map', 'flat_map', 'scan', 'inspect', 'try_for_each', 'fold'}
        for cf in lib.closures_of(f):
            parent, agg = q.parent_agg(lib, cf)
            if parent is None or agg is None:
                continue
            per_item = any(short(p_) in PER_ITEM and q.find_sub(parent.call_expr(t_, bj), lambda x: x[0] == 'agg' and x[1] == agg[1]) is not None for bj, t_, p_ in parent.calls())
            if not per_item:
                continue
            for bj, t_, p_ in cf.calls():
                if short(p_) != 'ind_mut' or len(t_['args']) < 2:
                    continue
                e_ = cf.call_expr(t_, bj)
                up = [x for x in facts.walk(e_[2][1]) if x[0] == 'upvar' and '[f64; 2]' in cf.upvar_tys.get(x[1], '')]
                if not up:
                    continue
                n += 1
                ctx.touch(cf)
                ctx.verdict(False, rule, '%s:%s' % (rule, q.top(cf.name)), 'the child\'s reach is a fresh copy of the parent\'s reach for every child: the copy is made inside the loop over the children, before it is scaled',
                            cf.where(bj), 'the per-child closure scales `%s`, a reach vector it captured by mutable reference: one copy shared by all children (%s)' % (up[0][2] or 'upvar', why),
                            breaks='the k-th child is given the product of the first k action probabilities instead of its own: wrong reach in the subtrees handed to worker tasks')
    if n == 0:
        ctx.anchor_lost(rule, 'per-child reach vectors in %s' % sorted(fnames or REACH_DERIVERS))


def frontier_reach_form(ctx, pid):
    """what the frontier expansion of the vanilla solver queues for a child, as a form over the popped
    (node, chance reach c, player reach [p0, p1]) and the edge probability:
      below a chance node:   (child, c * prob, [p0, p1])
      below a player node:   (child, c, reach with exactly the *acting* player's component multiplied by prob)
    Sites are `push((..))` and `extend(..map(|..| (..)))`; other shapes are not decided."""
    import e4
    rule = '%s.frontier-reach' % pid
    lib = ctx.lib
    f = ctx.fn('lib', 'solve::vanilla::thread_threshold', rule)
    if f is None:
        return
    pops = [e for bi, t, e in q.calls_named(f, 'pop')]
    if not pops:
        ctx.anchor_lost(rule, 'thread_threshold: pop of the frontier queue')
        return

    def new_reach_record():
        """(path, variant record) of a reach struct the reference tree does not have (seen as a pair by the fact layer)"""
        c_ = [(n_, vs[0]) for n_, vs in lib.adts.items() if n_.startswith('solve::') and len(vs) == 1 and sorted(vs[0].get('ftys', [])) == ['[f64; 2]', 'f64'] and facts._new_record(lib, n_)]
        return c_[0] if len(c_) == 1 else None

    def struct_field_comp(name):
        """canonical component (1 chance reach / 2 player reaches) of a field of a private reach struct, by its type"""
        if str(name).isdigit():
            rec = new_reach_record()
            if rec is not None and int(name) < 2:
                return 1 if rec[1]['ftys'][int(name)] == 'f64' else 2
            return None
        tys = {v['ftys'][v['fields'].index(name)] for n_, vs in lib.adts.items() if n_.startswith('solve::') and len(vs) == 1 for v in vs
               if name in v.get('fields', []) and len(v.get('ftys', [])) == len(v['fields'])}
        if tys == {'f64'}:
            return 1
        if tys == {'[f64; 2]'}:
            return 2
        return None

    def popfield(x):
        """canonical component of the popped item x denotes: 0 node, 1 chance reach, 2 player reaches, 'R' the whole reach
        struct of a (node, Reach) item"""
        x = norm(x)
        chain = []
        while x[0] == 'field':
            chain.append(x[2])
            x = norm(x[1])
        if not (x[0] == 'downcast' and x[2] == 'Some' and norm(x[1])[0] == 'call' and any(norm(x[1])[3] == p_[3] for p_ in pops)):
            return None
        chain.reverse()
        if not chain or chain[0] != '0':
            return None
        chain = chain[1:]
        if len(chain) == 1 and chain[0].isdigit():
            return int(chain[0]) if ARITY[0] == 3 else ('R' if chain[0] == '1' else int(chain[0]))
        if len(chain) == 2 and chain[0] == '1' and ARITY[0] == 2:
            return struct_field_comp(chain[1])
        return None
    ARITY = [3]

    def reach_comp(x):
        """k if x is component k of the popped player-reach array"""
        x = norm(x)
        if x[0] == 'cidx' and not x[3] and popfield(x[1]) == 2:
            return x[2]
        if x[0] == 'index' and x[2][0] == 'const' and popfield(x[1]) == 2:
            return int(x[2][1])
        return None

    sites = []
    def triple(item, g_):
        """(node, chance reach, player reaches) of a queued item: a 3-tuple, or (node, Reach { chance, player })"""
        item = strip_refs(item)
        if item[0] != 'agg' or item[1] != 'tuple':
            return None
        if len(item[2]) == 3:
            return item
        if len(item[2]) == 2:
            r = strip_refs(item[2][1])
            if r[0] == 'agg' and r[1] == 'tuple' and len(r[2]) == 2 and new_reach_record() is not None:
                ARITY[0] = 2
                i = new_reach_record()[1]['ftys'].index('f64')
                return ('agg', 'tuple', (item[2][0], r[2][i], r[2][1 - i]))
            if r[0] == 'agg' and r[1].startswith('adt:') and len(r[2]) == 2:
                adt = lib.adts.get(r[1][4:].rsplit('::', 1)[0])
                if adt and sorted(adt[0].get('ftys', [])) == ['[f64; 2]', 'f64']:
                    ARITY[0] = 2
                    i = adt[0]['ftys'].index('f64')
                    return ('agg', 'tuple', (item[2][0], r[2][i], r[2][1 - i]))
            if r[0] == 'var':
                adt = lib.adts.get(g_.locals[r[1]]['ty'])
                if adt and sorted(adt[0].get('ftys', [])) == ['[f64; 2]', 'f64']:
                    # a copy of the popped reach struct scaled in place: present its two fields
                    ARITY[0] = 2
                    fc, fp = adt[0]['fields'][adt[0]['ftys'].index('f64')], adt[0]['fields'][adt[0]['ftys'].index('[f64; 2]')]
                    if facts._new_record(lib, g_.locals[r[1]]['ty'].split('<')[0]):
                        fc, fp = str(adt[0]['ftys'].index('f64')), str(adt[0]['ftys'].index('[f64; 2]'))     # read by position
                    return ('agg', 'tuple', (item[2][0], ('field', r, fc), ('field', r, fp)))
        return None
    for bi, t, e in q.calls_named(f, 'push'):
        item = triple(e[2][1], f)
        if item is not None:
            sites.append((f, bi, f.conds(bi), item, None))
    for bi, t, e in q.calls_named(f, 'extend'):
        mp = q.find_sub(e[2][1], lambda x: q.is_call(x, 'map')) if len(e[2]) > 1 else None
        if mp is None or len(mp[2]) < 2:
            continue
        cf, _ = q.closure_of(lib, mp[2][1])
        if cf is None or not cf.is_closure:
            continue
        r = triple(q.ret_expr(cf), cf)
        if r is not None:
            ctx.touch(cf)
            sites.append((cf, bi, f.conds(bi), r, cf))
    n = 0
    for g, bi, cs, item, cf in sites:
        arm = [c['variants'][0] for c in cs if c['kind'] == 'variant' and len(c['variants']) == 1 and c['variants'][0] in ('Chance', 'Player')]
        if not arm:
            continue
        arm = arm[-1]
        n += 1
        res = (lambda x, cf=cf: q.resolve_captures(lib, cf, x)) if cf is not None else (lambda x: x)
        c1, c2 = res(item[2][1]), item[2][2]
        # chance-reach component
        p1 = e4.try_poly(c1)
        k1 = None
        if p1 is not None and len(p1) == 1 and list(p1.values()) == [1.0]:
            atoms = [a[1] for a in list(p1)[0] if a[0] == 'val']
            has_c = sum(1 for a in atoms if popfield(a) == 1)
            others = [a for a in atoms if popfield(a) != 1]
            k1 = (has_c, len(others)) if len(atoms) == len(list(p1)[0]) else None
        want1 = (1, 1) if arm == 'Chance' else (1, 0)
        # player-reach component
        how2 = None
        x2 = strip_refs(c2)
        if popfield(res(x2)) == 2:
            how2 = 'unchanged'
        elif x2[0] == 'var' and g.locals[x2[1]]['ty'] == '[f64; 2]':
            # a local array: copied from the popped reach and scaled in place through ind_mut(node.num, ..), or
            # an array literal per PlayerNum context
            l = x2[1]
            vals = q.multi_def_values(g, l)
            hops = 0
            while len(vals) == 1 and strip_refs(vals[0][2])[0] == 'var' and g.locals[strip_refs(vals[0][2])[1]]['ty'] == '[f64; 2]' and hops < 6:
                # handed on by value (e.g. returned by an inlined helper that scaled its own copy)
                l = strip_refs(vals[0][2])[1]
                vals = q.multi_def_values(g, l)
                hops += 1
            copies = [v for _, _, v in vals if popfield(res(v)) == 2]
            lits = [(cs_, strip_refs(v)) for _, cs_, v in vals if strip_refs(v)[0] == 'agg' and strip_refs(v)[1] == 'array']
            if copies and not lits:
                scaled = [e_ for bj, t_, e_ in q.calls_named(g, 'mul_assign') if q.is_call(strip_refs(e_[2][0]), 'ind_mut') and
                          q.find_sub(strip_refs(e_[2][0])[2][1], lambda y: y == ('var', l, g.local_name(l))) is not None]
                # the same in-place scaling with a by-value factor is a plain store `*ind_mut(num, &mut l) = *.. * prob`
                for bj, st_, pl_, rhs_ in q.stores(g):
                    tgt_ = strip_refs(pl_)
                    r_ = strip_refs(rhs_)
                    if q.is_call(tgt_, 'ind_mut') and q.find_sub(tgt_[2][1], lambda y: y == ('var', l, g.local_name(l))) is not None and r_[0] == 'bin' and r_[1] == 'Mul' and norm(r_[2]) == norm(pl_):
                        scaled.append(('call', 'mul_assign', (pl_, r_[3])))
                if len(scaled) == 1 and 'num' in facts.show(strip_refs(scaled[0][2][0])[2][0]):
                    how2 = 'own-scaled'
                elif not scaled:
                    how2 = 'unchanged'
                else:
                    how2 = 'scaled-otherwise'
            elif lits:
                good = True
                for cs_, lit in lits:
                    pn = [c['variants'][0] for c in cs_ if c['kind'] == 'variant' and len(c['variants']) == 1 and c['variants'][0] in ('One', 'Two')]
                    if not pn or len(lit[2]) != 2:
                        good = None
                        break
                    acting = 0 if pn[-1] == 'One' else 1
                    for k, el in enumerate(lit[2]):
                        pe = e4.try_poly(res(el))
                        if pe is None or len(pe) != 1 or list(pe.values()) != [1.0]:
                            good = None
                            break
                        atoms = [a[1] for a in list(pe)[0] if a[0] == 'val']
                        comps = [reach_comp(a) for a in atoms]
                        base_ok = comps.count(k) == 1 and all(c_ is None or c_ == k for c_ in comps)
                        n_other = sum(1 for c_ in comps if c_ is None)
                        if not base_ok or n_other != (1 if k == acting else 0):
                            good = False
                    if good is None:
                        break
                how2 = None if good is None else ('own-scaled' if good else 'scaled-otherwise')
        elif x2[0] == 'agg' and x2[1] == 'array' and len(x2[2]) == 2:
            # an array literal whose elements are chosen per acting player upstream (`let (own, other) = match num {..}`):
            # evaluate it under each PlayerNum context
            host = f if cf is not None else g

            def spec(x, pn, depth=0):
                x = q.simplify(x)
                if depth > 5 or not isinstance(x, tuple):
                    return x
                if x[0] == 'var':
                    vals = q.multi_def_values(host, x[1])
                    pick = [v for _, cs_, v in vals if any(c['kind'] == 'variant' and c['variants'] == [pn] for c in cs_)]
                    if len(pick) == 1:
                        return spec(pick[0], pn, depth + 1)
                    if len(vals) == 1:
                        return spec(vals[0][2], pn, depth + 1)
                    return x
                if x[0] == 'call':
                    return (x[0], x[1], tuple(spec(a, pn, depth + 1) for a in x[2]), x[3])
                if x[0] == 'agg':
                    return (x[0], x[1], tuple(spec(a, pn, depth + 1) for a in x[2]))
                return tuple(spec(a, pn, depth + 1) if isinstance(a, tuple) else a for a in x)
            good = True
            for pn, acting in (('One', 0), ('Two', 1)):
                for k, el in enumerate(x2[2]):
                    pe = e4.try_poly(q.simplify(spec(res(el), pn)))
                    if pe is None or len(pe) != 1 or list(pe.values()) != [1.0]:
                        good = None
                        break
                    atoms = [a[1] for a in list(pe)[0] if a[0] == 'val']
                    comps = [reach_comp(a) for a in atoms]
                    if len(atoms) != len(list(pe)[0]) or not any(c_ is not None for c_ in comps):
                        good = None
                        break
                    base_ok = comps.count(k) == 1 and all(c_ is None or c_ == k for c_ in comps)
                    n_other = sum(1 for c_ in comps if c_ is None)
                    if not base_ok or n_other != (1 if k == acting else 0):
                        good = False
                if good is None:
                    break
            how2 = None if good is None else ('own-scaled' if good else 'scaled-otherwise')
        want2 = 'unchanged' if arm == 'Chance' else 'own-scaled'
        if k1 is None or how2 is None:
            ctx.anchor_lost(rule, 'thread_threshold: reach of a queued child below a %s node (shape not recognised)' % arm.lower())
            continue
        ctx.verdict(k1 == want1 and how2 == want2, rule, '%s:%s' % (rule, arm.lower()),
                    'a child queued below a chance node gets (chance reach * prob, player reaches unchanged); below a player node (chance reach unchanged, the acting player\'s reach * prob, the other player\'s unchanged)',
                    f.where(bi), 'chance-reach factors (popped, other) = %s, expected %s; player reaches: %s, expected %s' % (k1, want1, how2, want2),
                    breaks='subtrees handed to worker tasks are traversed with wrong reach probabilities: the multi-threaded result differs from the single-threaded one')
    if n == 0:
        ctx.anchor_lost(rule, 'thread_threshold: queued children')


ACC_FIELDS = ('cum_regret', 'cum_strat')
ACC_CALLS = ('update_cum_strat', 'fetch_add', 'fetch_sub')


def frontier_search_pure(ctx, pid, which):
    """the frontier search (thread_threshold and everything it reaches in the instance graph) only *finds* the tasks: it
    follows / samples the path but never writes an infoset's accumulators — every node above the frontier is visited
    again by the cached root traversal, which does the updates, so an update here is an update done twice"""
    import e9
    lib = ctx.lib
    rule = '%s.frontier-search-pure' % pid
    for w in which:
        f = ctx.fn('lib', 'solve::%s::thread_threshold' % w, rule)
        if f is None:
            continue
        reached, ok = e9.region_local_fns(lib, f)
        if not ok or f.name not in reached:
            ctx.anchor_lost(rule, 'solve::%s::thread_threshold in the instance graph' % w)
            continue
        bad = []
        for name in sorted(reached):
            g = lib.fns[name]
            ctx.touch(g)
            for bi, st, pl, rhs in q.stores(g):
                flds = [x[2] for x in facts.walk(pl) if x[0] == 'field']
                if any(a in flds for a in ACC_FIELDS):
                    bad.append('%s writes .%s (%s)' % (q.top(name).split('::')[-1] if '::' in name else name, [a for a in ACC_FIELDS if a in flds][0], g.where(bi)))
            for bi, t, p in g.calls():
                if short(p) in ACC_CALLS and (short(p) == 'update_cum_strat' or any(a in facts.show(g.call_expr(t, bi)) for a in ACC_FIELDS)):
                    bad.append('%s calls %s (%s)' % (name.split('::')[-1], short(p), g.where(bi)))
        # reached nodes without a body here (spliced helpers keep their graph node): by name
        g_ = lib.graph
        s_ = [i for i, n in enumerate(g_['nodes']) if e1.node_path(n) == f.name]
        for s0 in s_:
            for x in lib.reach_from(s0):
                pth = e1.node_path(g_['nodes'][x])
                if short(pth) == 'update_cum_strat' and not any('update_cum_strat' in b_ for b_ in bad):
                    bad.append('reaches %s' % pth[-60:])
        ctx.verdict(not bad, rule, '%s:%s' % (rule, w), 'the search for the task frontier reaches no code that writes an infoset\'s cumulative regret / cumulative strategy', f.where(0),
                    '%d local functions reached; writers: %s' % (len(reached), sorted(set(bad))[:4]), breaks='infosets above the frontier are updated by the search and again by the cached root traversal: their average strategy is accumulated twice in multi-threaded runs only')


SHRINKING = {'clear', 'drain', 'par_drain', 'take', 'truncate', 'retain', 'remove', 'remove_entry', 'split_off', 'replace', 'swap', 'pop'}


def cache_live_at_root(ctx, pid, which):
    """the root traversal of a pass reads the payoffs the tasks of that pass have just produced: between the
    `par_extend` that fills the cache and the traversal call that is handed the cache, nothing empties it.
    Decided on the host function's CFG without back edges (one pass): no shrinking call / re-initialisation of
    the cache place on a path from the fill to the traversal."""
    rule = '%s.cache-live' % pid
    lib = ctx.lib
    found = 0
    for f in lib.non_test_fns():
        if not any(f.name.startswith('solve::%s::' % w) for w in which):
            continue
        fills = [(bi, t, e) for bi, t, e in q.calls_named(f, 'par_extend')]
        if not fills:
            continue
        ctx.touch(f)
        def place_of(op):
            if op.get('o') not in ('copy', 'move'):
                return None
            r = q.container_root(f, op)
            return None if r is None else (tuple(r[0][:2]), tuple(str(x) for x in r[1]))
        for abi, at, ae in fills:
            cache = place_of(at['args'][0])
            if cache is None:
                continue
            users = []
            for bi, t, p in f.calls():
                if short(p) not in TRAVERSAL_NAMES or bi == abi:
                    continue
                if any(place_of(a) == cache for a in t['args']) and f.dominates(abi, bi):
                    users.append((bi, t, None))
            if not users:
                ctx.anchor_lost(rule, '%s: the root traversal that is handed the cache filled by par_extend' % short(q.top(f.name)), 'cache %s' % (cache,))
                continue
            found += 1
            # forward edges only (an edge into a block that dominates its source closes a loop)
            fwd = {b: [s_ for s_ in f.succ[b] if s_ in f.reach and not f.dominates(s_, b)] for b in f.reach}
            def reach_from(x):
                seen, todo = set(), [x]
                while todo:
                    y = todo.pop()
                    for z in fwd.get(y, ()):
                        if z not in seen:
                            seen.add(z)
                            todo.append(z)
                return seen
            after_fill = reach_from(abi)
            for ubi, ut, ue in users:
                between = {b for b in after_fill if b != ubi and ubi in reach_from(b)}
                hits = []
                for b in sorted(between):
                    t = f.blocks[b]['term']
                    if t['t'] == 'call' and short(t['callee'].get('path') or t['callee'].get('def') or '') in SHRINKING and t['args']:
                        if place_of(t['args'][0]) == cache:
                            hits.append('%s() at %s' % (short(t['callee'].get('path') or t['callee'].get('def') or ''), f.where(b)))
                    def overwrites(pl):
                        # the cache place itself is assigned (not: a reference to it is copied into another local)
                        if not pl['p']:
                            return not cache[1] and cache[0][1] == pl['l']
                        return place_of({'o': 'move', 'pl': pl}) == cache
                    for st in f.blocks[b]['stmts']:
                        if st['s'] == 'assign' and st['rv']['r'] in ('use', 'agg') and overwrites(st['pl']):
                            hits.append('re-initialised at %s' % f.where(b))
                    if t['t'] == 'call' and t.get('dest') and overwrites(t['dest']):
                        hits.append('re-initialised at %s' % f.where(b))
                ctx.verdict(not hits, rule, '%s:%s' % (rule, short(q.top(f.name))),
                            'the cache the tasks filled is still filled when the traversal from the root consults it', f.where(ubi),
                            'cache %s%s: %d blocks between the fill and the root traversal; emptied there: %s' % ('%s%s' % cache[0], ''.join('.' + x for x in cache[1]), len(between), hits or 'never'),
                            breaks='the subtrees the thread pool has processed are traversed and updated a second time by the root search: their regrets count double (only with several threads and a cut that splits an infoset)')
    if found < len(which):
        ctx.anchor_lost(rule, 'par_extend site followed by a root traversal, one per solver module', 'found %d of %d' % (found, len(which)))


TRAVERSAL_NAMES = {'recurse_single', 'recurse_multi', 'recurse_regret'}
