"""E2 — guard dominance: is an effect site dominated by the right edge of a test on the same value?

Guards are exact (computed by edge removal, see facts.Fn.guards); tested value and used value are
compared as normalised expression trees (copies, moves, re-borrows, Deref/Borrow/as_ref followed).
"""
import facts
from facts import norm, short, is_const


def shape(e, depth=0):
    """name-free rendering of an expression for stable keys: parameters by position, locals
    anonymous, fields and resolved callees by name"""
    e = facts.strip_refs(e)
    k = e[0]
    d = depth + 1
    if depth > 8:
        return '…'
    if k == 'const':
        return 'c' + str(e[1])
    if k == 'cparam':
        return e[1]
    if k == 'param':
        return 'p%d' % e[1]
    if k == 'upvar':
        return 'up%d' % e[1]
    if k == 'var':
        return 'v'
    if k == 'field':
        return '%s.%s' % (shape(e[1], d), e[2])
    if k == 'index':
        return '%s[]' % shape(e[1], d)
    if k == 'downcast':
        return shape(e[1], d)
    if k == 'bin':
        return '%s(%s,%s)' % (e[1], shape(e[2], d), shape(e[3], d))
    if k == 'un':
        return '%s(%s)' % (e[1], shape(e[2], d))
    if k == 'cast':
        return 'cast(%s)' % shape(e[1], d)
    if k == 'len':
        return 'len(%s)' % shape(e[1], d)
    if k == 'call':
        return '%s(%s)' % (short(e[1]), ','.join(shape(a, d) for a in e[2][:2]))
    if k == 'agg':
        return '%s{%s}' % (e[1].split(':')[0], ','.join(shape(a, d) for a in e[2]))
    return k


def is_f64_operand(o):
    if o['o'] == 'const':
        return o['c'].get('ty') == 'f64'
    return o['pl']['ty'] in ('f64', '&f64', '&mut f64', '&&f64')


def f64_divisions(fn):
    """every f64 division of a function: MIR Div and ops::Div / DivAssign trait calls"""
    for bi in sorted(fn.reach):
        for si, st in enumerate(fn.blocks[bi]['stmts']):
            if st['s'] != 'assign':
                continue
            rv = st['rv']
            if rv['r'] == 'bin' and rv['op'] == 'Div' and (is_f64_operand(rv['a']) or is_f64_operand(rv['b'])):
                yield {'bi': bi, 'line': st['line'], 'num': fn.operand_expr(rv['a'], bi), 'den': fn.operand_expr(rv['b'], bi),
                       'exp': st.get('exp', False)}
        t = fn.blocks[bi]['term']
        if t['t'] == 'call':
            p = t['callee'].get('path') or t['callee'].get('def') or ''
            if short(p) in ('div', 'div_assign') and 'ops::' in p and len(t['args']) == 2 and any(is_f64_operand(a) for a in t['args']):
                yield {'bi': bi, 'line': t['line'], 'num': fn.operand_expr(t['args'][0], bi), 'den': fn.operand_expr(t['args'][1], bi),
                       'exp': t.get('exp', False)}


NONZERO_EDGES = {
    # (kind, which side is the value, other side const 0) -> truth that implies value != 0
    ('Eq', False), ('Ne', True), ('Gt', True), ('Lt', True),
}


def nonzero_guard(fn, bi, den):
    """a dominating guard that implies den != 0, or None.  Accepted: (den ==/!=/</> 0) on the right
    edge, on den itself, on the integer it is cast from, on len(x) behind a cast, or !x.is_empty()
    for den = len(x) as f64."""
    d = norm(den)
    cands = [d]
    if d[0] == 'cast':
        cands.append(norm(d[1]))
    lens = [c[1] for c in cands if c[0] == 'len'] + [c[2][0] for c in cands if c[0] == 'call' and short(c[1]) == 'len' and c[2]]
    lens = [norm(x) for x in lens]
    for c in fn.conds(bi):
        k = c['kind']
        if k in ('Eq', 'Ne', 'Gt', 'Lt', 'Ge', 'Le'):
            a, b = c['a'], c['b']
            for val, other, flipped in ((a, b, False), (b, a, True)):
                if val in cands and is_const(other, 0):
                    kk = k
                    if flipped:
                        kk = {'Gt': 'Lt', 'Lt': 'Gt', 'Ge': 'Le', 'Le': 'Ge'}.get(k, k)
                    if (kk, c['truth']) in NONZERO_EDGES:
                        return c
                    # integer-only strengthening: len >= 1, len > 0 …
            if a in cands and b[0] == 'const' and k == 'Ge' and c['truth'] and not is_const(b, 0):
                try:
                    if float(b[1]) > 0:
                        return c
                except (TypeError, ValueError):
                    pass
        elif k == 'Is:is_empty' and c['truth'] is False:
            if norm(c['a']) in lens:
                return c
        elif k == 'bool' and c.get('truth') is True and norm(c['a']) in cands:
            return c   # `match n { 0 => .., _ => here }`
        elif k == 'value':
            # match on an integer: every label leading here excludes 0
            if norm(c['a']) in cands and '0' not in c['values'] and 'else' in c['values']:
                t = fn.blocks[c['switch']]['term']
                if any(v == '0' for v, _ in t['targets']):
                    return c
    return None


def classify_division(fn, div):
    den = div['den']
    d = norm(den)
    if d[0] == 'const' and d[1] is not None:
        try:
            return ('literal', float(d[1]) != 0.0, d[1])
        except ValueError:
            pass
    x = d[1] if d[0] == 'cast' else d
    x = norm(x)
    if x[0] == 'call' and short(x[1]) == 'get' and 'NonZero' in x[1]:
        # the value of a NonZero integer: non-zero by construction (the type's invariant), as an integer and as a float
        return ('guarded', True, 'NonZero::get(): non-zero by the type\'s invariant (line %s)' % div.get('line'))
    g = nonzero_guard(fn, div['bi'], den)
    if g is not None:
        return ('guarded', True, '%s on the %s edge of the test at line %s' % (g['kind'], g.get('truth'), g['line']))
    return ('unguarded', False, facts.show(d))


def find_guard(fn, bi, pred):
    """first guard condition of block bi satisfying pred(cond)"""
    for c in fn.conds(bi):
        if pred(c):
            return c
    return None


def cond_is(c, kind, value=None, const=None, truth=True):
    """cond is `kind(value, const)` on the given edge (exactly — no NaN-unsafe negations)"""
    if c['kind'] != kind or c.get('truth') is not truth:
        return False
    if value is not None and norm(c['a']) != norm(value):
        return False
    if const is not None and not (c.get('b') is not None and is_const(c['b'], const)):
        return False
    return True


def cond_positive(c, value):
    """`value > 0.0` (or `0.0 < value`) on the true edge"""
    v = norm(value)
    if c.get('truth') is not True:
        return False
    if c['kind'] == 'Gt' and c['a'] == v and is_const(c['b'], 0):
        return True
    if c['kind'] == 'Lt' and c['b'] == v and is_const(c['a'], 0):
        return True
    return False


def cond_nonneg(c, value):
    v = norm(value)
    if c.get('truth') is not True:
        return False
    if c['kind'] == 'Ge' and c['a'] == v and is_const(c['b'], 0):
        return True
    if c['kind'] == 'Le' and c['b'] == v and is_const(c['a'], 0):
        return True
    return cond_positive(c, value)


def cond_finite(c, value):
    return c['kind'] == 'IsFinite' and c.get('truth') is True and c['a'] == norm(value)
