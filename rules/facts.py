"""Core of the rule library: fact loading, CFG utilities (dominators, post-dominators, exact edge
guards, natural loops), and symbolic description of MIR values as expression trees.

Everything here is a static analysis over the compiler's own MIR (see driver/); nothing is run.
"""
import collections
import json
import os
import re

# ------------------------------------------------------------------------------------------------
# expression trees
#
# ('const', value_str, ty)           literal / evaluated constant (floats printed by Rust's {:?})
# ('cparam', name)                   const generic parameter
# ('fn', path)                       fn item used as a value
# ('param', idx, name)               function parameter (MIR local 1..argc)
# ('upvar', idx, name)               captured variable of a closure (field of *_1 / _1)
# ('var', local, name)               multi-def local (loop accumulator, let mut) or unknown
# ('field', base, name) ('deref', base) ('index', base, idx) ('downcast', base, variant)
# ('cidx', base, off, from_end) ('subslice', base)
# ('ref', base)                      borrow (mutability dropped)
# ('bin', op, a, b) ('un', op, a) ('cast', a, ty) ('discr', a, adt) ('len', a)
# ('call', path, (args...), site)    site = (fn name, block index) ; path = resolved path or def
# ('agg', kind, (ops...))            kind: 'array' | 'tuple' | 'adt:<path>::<variant>' | 'closure:<path>'
# ('repeat', a, n)
# ('promoted', i)                    promoted constant that could not be folded
# ('other', text)


SITE_NAMES = {}


def is_const(e, val=None):
    if e[0] != 'const':
        return False
    if val is None:
        return True
    try:
        return float(e[1]) == float(val)
    except (TypeError, ValueError):
        return e[1] == val


def strip_refs(e):
    """drop reference / dereference / copy-like wrappers: &x, *x, Deref::deref(x), Borrow::borrow(x)…"""
    while True:
        if e[0] in ('ref', 'deref'):
            e = e[1]
        elif e[0] == 'cast' and e[2].startswith(('&', '*')):
            e = e[1]
        elif e[0] == 'call' and short(e[1]) in REF_LIKE and len(e[2]) >= 1:
            e = e[2][0]
        else:
            return e


REF_LIKE = {'deref', 'deref_mut', 'borrow', 'borrow_mut', 'as_ref', 'as_mut', 'as_mut_slice', 'as_slice'}
REF_LIKE_STRICT = {'deref', 'deref_mut', 'borrow', 'as_ref', 'as_mut'}


def short(path):
    """last path segment without generic args: 'std::vec::Vec::<T>::push' -> 'push'"""
    p = re.sub(r'::<[^>]*>$', '', path)
    seg = p.rsplit('::', 1)[-1]
    return seg


ADT_FIELDS = {}      # struct path -> field names (filled when a crate is loaded)


def norm(e):
    """structural normal form used to compare two values for identity: strips refs everywhere"""
    e = strip_refs(e)
    k = e[0]
    if k == 'field':
        b = norm(e[1])
        # `Struct{a, b}.b` rebuilt outside Fn.project (captures substituted into a closure body): the component
        if b[0] == 'agg' and b[1].startswith('adt:'):
            flds = ADT_FIELDS.get(b[1][4:].rsplit('::', 1)[0]) if '::' in b[1][4:] else None
            i = int(e[2]) if str(e[2]).isdigit() else (flds.index(e[2]) if flds and e[2] in flds else None)
            if i is not None and i < len(b[2]) and (str(e[2]).isdigit() or flds):
                return b[2][i]
        return (k, b, e[2])
    if k == 'downcast':
        return (k, norm(e[1]), e[2])
    if k == 'index':
        return (k, norm(e[1]), norm(e[2]))
    if k in ('cidx',):
        return (k, norm(e[1]), e[2], e[3])
    if k == 'bin':
        return (k, e[1], norm(e[2]), norm(e[3]))
    if k == 'un':
        return (k, e[1], norm(e[2]))
    if k == 'cast':
        return (k, norm(e[1]), e[2])
    if k == 'call':
        return (k, e[1], tuple(norm(a) for a in e[2]), e[3])
    if k == 'agg':
        return (k, e[1], tuple(norm(a) for a in e[2]))
    if k in ('discr', 'len'):
        return (k, norm(e[1])) + tuple(e[2:])
    return e


def walk(e):
    """pre-order iteration over all sub-expressions"""
    yield e
    k = e[0]
    if k in ('field', 'deref', 'downcast', 'ref', 'un', 'cast', 'discr', 'len', 'cidx', 'subslice', 'repeat'):
        idx = 2 if k == 'un' else 1
        yield from walk(e[idx])
    elif k == 'index':
        yield from walk(e[1])
        yield from walk(e[2])
    elif k == 'bin':
        yield from walk(e[2])
        yield from walk(e[3])
    elif k in ('call', 'agg'):
        for a in e[2]:
            yield from walk(a)
    elif k == 'phi':
        for _, a in e[1]:
            yield from walk(a)


def show(e, depth=0):
    """compact human-readable rendering"""
    if depth > 12:
        return '…'
    k = e[0]
    d = depth + 1
    if k == 'const':
        return str(e[1]) if e[1] is not None else 'const<%s>' % e[2]
    if k == 'cparam':
        return e[1]
    if k == 'fn':
        return 'fn ' + e[1]
    if k in ('param', 'upvar'):
        return e[2] or '%s%d' % (k, e[1])
    if k == 'var':
        return e[2] or '_%d' % e[1]
    if k == 'field':
        return '%s.%s' % (show(e[1], d), e[2])
    if k == 'deref':
        return '*' + show(e[1], d)
    if k == 'ref':
        return '&' + show(e[1], d)
    if k == 'index':
        return '%s[%s]' % (show(e[1], d), show(e[2], d))
    if k == 'cidx':
        return '%s[%s%d]' % (show(e[1], d), '-' if e[3] else '', e[2])
    if k == 'subslice':
        return '%s[..]' % show(e[1], d)
    if k == 'downcast':
        return '(%s as %s)' % (show(e[1], d), e[2])
    if k == 'bin':
        return '%s(%s, %s)' % (e[1], show(e[2], d), show(e[3], d))
    if k == 'un':
        return '%s(%s)' % (e[1], show(e[2], d))
    if k == 'cast':
        return '(%s as %s)' % (show(e[1], d), e[2])
    if k == 'discr':
        return 'discr(%s)' % show(e[1], d)
    if k == 'len':
        return 'len(%s)' % show(e[1], d)
    if k == 'call':
        nm = SITE_NAMES.get(e[3])
        if nm and depth > 0:
            return nm
        return '%s(%s)' % (short(e[1]), ', '.join(show(a, d) for a in e[2]))
    if k == 'agg':
        return '%s{%s}' % (e[1], ', '.join(show(a, d) for a in e[2]))
    if k == 'repeat':
        return '[%s; %s]' % (show(e[1], d), e[2])
    if k == 'phi':
        return 'phi(%s)' % ', '.join('bb%d:%s' % (b, show(a, d)) for b, a in e[1])
    return '%s' % (e,)


def _adt_of(ty):
    t = ty
    while t.startswith('&'):
        t = t[1:].lstrip()
        if t.startswith("'"):
            t = t.split(' ', 1)[1] if ' ' in t else t
        if t.startswith('mut '):
            t = t[4:]
    return t.split('<')[0]


def _new_record(crate, path):
    """`path` names a struct (one variant, named after the type) of the analysed crate that the reference tree does not
    have — a tuple / parameter list given a name by a refactor"""
    cache = getattr(crate, '_new_records', None)
    if cache is None:
        cache = {}
        try:
            crate._new_records = cache
        except AttributeError:
            pass
    if path in cache:
        return cache[path]
    ok = False
    adts = getattr(crate, 'adts', None) or {}
    v = adts.get(path)
    if v and len(v) == 1 and v[0].get('name') == path.split('::')[-1] and v[0].get('fields') and not str(v[0]['fields'][0]).isdigit() and _local_adt(crate, path):
        import inline
        kn = inline.known().get(inline.ref_kind(crate.j) + '_adts')
        if kn is not None and path not in kn and path.split('::')[-1] not in {k.split('::')[-1] for k in kn}:
            ok = True
            # ... unless it is a reference struct under a new name (one that is missing now and has the same field types)
            mine = sorted(v[0].get('ftys', []))
            for k, vs in kn.items():
                if k not in adts and len(vs) == 1 and sorted(t for _, t in vs[0]) == mine and not k.startswith(('std::', 'core::', 'alloc::')):
                    ok = False
    cache[path] = ok
    return ok


def _split_sig(sig):
    """parameter types and return type of a `fn(..) -> ..` signature string (bracket-aware)"""
    i = sig.find('fn(')
    if i < 0:
        return [], ''
    depth, start, params, j = 0, i + 3, [], i + 3
    while j < len(sig):
        c = sig[j]
        if c in '([<':
            depth += 1
        elif c in ')]>' and not (c == '>' and sig[j - 1] == '-'):
            if depth == 0 and c == ')':
                if sig[start:j].strip():
                    params.append(sig[start:j].strip())
                break
            depth -= 1
        elif c == ',' and depth == 0:
            params.append(sig[start:j].strip())
            start = j + 1
        j += 1
    ret = sig[j + 1:].strip()
    ret = ret[2:].strip() if ret.startswith('->') else ''
    return params, ret


def _array_record(crate, path):
    """a new record (see _new_record) with two fields of one type that stands where the reference tree has a `[T; 2]`:
    at the same parameter position (or as the result) of a function both trees have — the per-player pair given field
    names (`Profile { one, two }`).  Its fields are read as constant indices, its literal as an array."""
    cache = getattr(crate, '_array_records', None)
    if cache is None:
        cache = {}
        try:
            crate._array_records = cache
        except AttributeError:
            pass
    if path in cache:
        return cache[path]
    ok = False
    if _new_record(crate, path):
        v = crate.adts[path][0]
        ft = v.get('ftys', [])
        if len(ft) == 2 and ft[0] == ft[1]:
            import inline
            sigs = inline.known().get(inline.ref_kind(crate.j) + '_sigs') or {}
            is_pair = lambda t: t.replace(' ', '').endswith(';2]') and t.lstrip('&').lstrip().startswith('[') or (t.startswith('&') and t.replace(' ', '').endswith(';2]'))
            for f in crate.j.get('fns', []):
                rs = sigs.get(f['name'])
                if not rs or not f.get('sig'):
                    continue
                (rp, rr), (np_, nr) = _split_sig(rs), _split_sig(f['sig'])
                pairs = list(zip(rp, np_)) if len(rp) == len(np_) else []
                pairs.append((rr, nr))
                for a, b in pairs:
                    if is_pair(a) and _adt_of(b) == path:
                        ok = True
    cache[path] = ok
    return ok


def _local_adt(crate, name):
    """`name` is a struct / enum defined in the analysed crate itself"""
    adts = getattr(crate, 'adts', None) or {}
    if name not in adts:
        return False
    if '::' not in name:
        return True
    mods = getattr(crate, '_local_mods', None)
    if mods is None:
        mods = {f['name'].split('::')[0] for f in crate.j.get('fns', []) if not f['name'].startswith('<')} if hasattr(crate, 'j') else set()
        # a module that only holds types (no functions): every ADT path whose first segment is neither a standard crate
        # nor a crate some call resolves into
        if hasattr(crate, 'j'):
            ext = {'std', 'core', 'alloc'}
            for f in crate.j.get('fns', []):
                for b in f['blocks']:
                    t = b['term']
                    if t['t'] == 'call' and not t['callee'].get('local'):
                        k_ = t['callee'].get('krate')
                        if k_:
                            ext.add(k_)
                        ext.add((t['callee'].get('def') or '').split('::')[0].lstrip('<'))
            own = crate.j.get('crate')
            mods |= {n.split('::')[0] for n in (crate.j.get('adts') or {}) if '::' in n and n.split('::')[0] not in ext and n.split('::')[0] != own}
        try:
            crate._local_mods = mods
        except AttributeError:
            pass
    return name.split('::')[0] in mods


class Fn:
    def __init__(self, j, crate):
        self.j = j
        self.crate = crate
        self.name = j['name']
        self.blocks = j['blocks']
        self.locals = j['locals']
        self.argc = j['argc']
        self.span = j.get('span', '')
        self.file = self.span.split(':')[0] if self.span else ''
        self.is_closure = j.get('kind') == 'Closure'
        self.n = len(self.blocks)
        self.succ = {}
        for i, b in enumerate(self.blocks):
            t = b['term']
            k = t['t']
            s = []
            if k == 'goto':
                s = [t['to']]
            elif k == 'switch':
                s = [x[1] for x in t['targets']] + [t['otherwise']]
            elif k in ('drop', 'assert'):
                s = [t['to']]
            elif k == 'call':
                s = [t['to']] if t['to'] >= 0 else []
            self.succ[i] = s
        self.preds = {i: [] for i in range(self.n)}
        for i, ss in self.succ.items():
            for s in ss:
                self.preds[s].append(i)
        # reachable (non-cleanup) blocks
        self.reach = self._reach(0, None)
        # debug names
        self.names = {}
        self.upvar_names = {}
        self.upvar_tys = {}
        for d in j['debug']:
            v = d['v']
            if 'l' not in v:
                continue
            if not v['p']:
                self.names.setdefault(v['l'], d['name'])
            elif v['l'] == 1 and self.is_closure:
                fi = [p for p in v['p'] if p['k'] == 'field']
                if fi:
                    self.upvar_names.setdefault(fi[0]['i'], d['name'])
                    self.upvar_tys.setdefault(fi[0]['i'], v.get('ty', ''))
        # definitions of whole locals
        self.defs = collections.defaultdict(list)
        for bi, b in enumerate(self.blocks):
            if bi not in self.reach:
                continue
            for si, st in enumerate(b['stmts']):
                if st['s'] == 'assign' and not st['pl']['p']:
                    self.defs[st['pl']['l']].append(('assign', bi, si, st['rv']))
                elif st['s'] == 'assign' and st['pl']['p']:
                    # partial write (field/deref): the base local is not single-def as a value
                    if not any(p['k'] == 'deref' for p in st['pl']['p']):
                        self.defs[st['pl']['l']].append(('partial', bi, si, st['rv']))
            t = b['term']
            if t['t'] == 'call':
                if not t['dest']['p']:
                    self.defs[t['dest']['l']].append(('call', bi, None, t))
                elif not any(p['k'] == 'deref' for p in t['dest']['p']):
                    self.defs[t['dest']['l']].append(('partial', bi, None, t))
        # scalar-like locals whose address is taken mutably hold a *value* that changes: never
        # inline their initialiser (containers / iterators keep object identity and are inlined)
        self.mut_scalars = set()
        for bi, b in enumerate(self.blocks):
            if bi not in self.reach:
                continue
            for st in b['stmts']:
                if st['s'] == 'assign' and st['rv']['r'] in ('ref', 'rawptr') and st['rv'].get('mut', st['rv']['r'] == 'rawptr'):
                    pl = st['rv']['pl']
                    if not any(p['k'] == 'deref' for p in pl['p']) and SCALAR_TY.match(self.locals[pl['l']]['ty']):
                        self.mut_scalars.add(pl['l'])
        # locals a *field* of which is borrowed mutably (or handed out as a raw pointer): a record that is updated in
        # place — its literal is not the value of its fields later on
        self.field_mut = set()
        for bi, b in enumerate(self.blocks):
            if bi not in self.reach:
                continue
            for st in b['stmts']:
                if st['s'] == 'assign' and st['rv']['r'] in ('ref', 'rawptr') and st['rv'].get('mut', st['rv']['r'] == 'rawptr'):
                    pl = st['rv']['pl']
                    if pl['p'] and pl['p'][0]['k'] == 'field':
                        self.field_mut.add(pl['l'])
                    elif not pl['p'] and _local_adt(crate, self.locals[pl['l']]['ty'].split('<')[0]):
                        self.field_mut.add(pl['l'])     # `&mut record` (a `&mut self` method spliced in): same thing
        self._expr_cache = {}
        self._dom = None
        self._pdom = None
        self._guards = None
        self._loops = None
        self.promoted = [Fn(p, crate) for p in j.get('promoted', [])] if 'promoted' in j else []

    # -- CFG ---------------------------------------------------------------------------------
    def _reach(self, start, removed_edges):
        seen = {start}
        st = [start]
        while st:
            b = st.pop()
            for s in self.succ[b]:
                if removed_edges and (b, s) in removed_edges:
                    continue
                if s not in seen and not self.blocks[s]['cleanup']:
                    seen.add(s)
                    st.append(s)
        return seen

    @property
    def dom(self):
        if self._dom is None:
            self._dom = self._dominators(self.succ, self.preds, 0, self.reach)
        return self._dom

    @staticmethod
    def _dominators(succ, preds, entry, nodes):
        nodes = set(nodes)
        dom = {i: set(nodes) for i in nodes}
        dom[entry] = {entry}
        order = sorted(nodes)
        changed = True
        while changed:
            changed = False
            for i in order:
                if i == entry:
                    continue
                ps = [dom[p] for p in preds.get(i, []) if p in nodes]
                new = (set.intersection(*ps) if ps else set()) | {i}
                if new != dom[i]:
                    dom[i] = new
                    changed = True
        return dom

    @property
    def pdom(self):
        """post-dominators over the reachable CFG with a virtual exit (-1) fed by returns and by
        diverging blocks (panics), so that code after an assertion is control dependent on it"""
        if self._pdom is None:
            nodes = set(self.reach) | {-1}
            rsucc = {i: [] for i in nodes}   # reversed graph successors = original preds
            rpred = {i: [] for i in nodes}
            for i in self.reach:
                ss = [s for s in self.succ[i] if s in self.reach]
                if not ss:
                    ss = [-1]
                for s in ss:
                    rsucc[s].append(i)
                    rpred[i].append(s)
            self._pdom = self._dominators(rsucc, rpred, -1, nodes)
        return self._pdom

    def dominates(self, a, b):
        return a in self.dom.get(b, ())

    @property
    def loops(self):
        """natural loops: list of (header, body set, back-edge sources)"""
        if self._loops is None:
            by_header = {}
            for b in self.reach:
                for s in self.succ[b]:
                    if s in self.reach and self.dominates(s, b):
                        body = by_header.setdefault(s, {s})
                        st = [b]
                        while st:
                            x = st.pop()
                            if x not in body:
                                body.add(x)
                                st.extend(p for p in self.preds[x] if p in self.reach)
            self._loops = [(h, body) for h, body in sorted(by_header.items())]
        return self._loops

    def loop_of(self, bi):
        """innermost loop containing block bi, or None"""
        best = None
        for h, body in self.loops:
            if bi in body and (best is None or len(body) < len(best[1])):
                best = (h, body)
        return best

    # -- guards ------------------------------------------------------------------------------
    @property
    def guards(self):
        """exact edge guards: block -> list of (switch block, frozenset(edge labels), target)
        such that every path from entry to the block uses one of those out-edges of the switch."""
        if self._guards is None:
            g = {b: [] for b in self.reach}
            for s in sorted(self.reach):
                t = self.blocks[s]['term']
                if t['t'] == 'switch':
                    by_target = collections.OrderedDict()
                    for v, tb in t['targets']:
                        by_target.setdefault(tb, []).append(v)
                    by_target.setdefault(t['otherwise'], []).append('else')
                    if len(by_target) < 2:
                        continue
                    for tb, labels in by_target.items():
                        removed = {(s, tb)}
                        still = self._reach(0, removed)
                        for b in self.reach - still:
                            g[b].append((s, frozenset(labels), tb))
                elif t['t'] == 'assert':
                    # overflow / bounds assertion: continuing means the condition held
                    pass
            self._guards = g
        return self._guards

    def switch_labels(self, s):
        """for a switch block: mapping label -> meaning. Returns (disc_expr, {label: name})"""
        t = self.blocks[s]['term']
        d = self.expr(t['d'], s)
        names = {}
        base = d
        if base[0] == 'discr':
            adt = self.crate.adts.get(base[2])
            if adt:
                for v in adt:
                    names[str(v['discr'])] = v['name']
                listed = {x[0] for x in t['targets']}
                rest = [v['name'] for v in adt if str(v['discr']) not in listed]
                names['else'] = '|'.join(rest) if rest else 'else'
        return d, names

    def conds(self, bi, _seen=None):
        """guard conditions of a block as normalised (Cond) records.  A guard that tests the variant of a value a
        spliced-in helper returned (`check(..)?`: a multi-definition Result / Option local, possibly through
        `Try::branch`) also contributes the guards common to every place where that variant is built: reaching
        the Continue edge means one of the `Ok(..)` constructions was executed, hence whatever dominates all of them
        held (records marked 'derived')"""
        out = []
        seen = _seen or frozenset([bi])
        for s, labels, tb in self.guards.get(bi, []):
            c = self.cond_of(s, labels)
            out.append(c)
            if c['kind'] == 'variant' and len(c['variants']) == 1:
                a_ = strip_refs(c['a'])
                if a_[0] == 'call' and short(a_[1]) == 'then_some' and len(a_[2]) == 2 and c['variants'][0] in ('Some', 'None'):
                    # `cond.then_some(v)` is Some exactly when cond holds
                    out.append(self.bool_cond(strip_refs(a_[2][0]), c['variants'][0] == 'Some', ('then_some', s), c.get('line')))
                elif a_[0] == 'call' and short(a_[1]) == 'ok' and len(a_[2]) == 1 and 'result::Result' in a_[1] and c['variants'][0] in ('Some', 'None'):
                    # `r.ok()` is Some exactly when r is Ok
                    out.append({'kind': 'variant', 'a': a_[2][0], 'variants': ['Ok' if c['variants'][0] == 'Some' else 'Err'], 'switch': ('ok', s), 'labels': [c['variants'][0]],
                                'line': c.get('line'), 'raw': a_, 'derived': True})
            if c['kind'] == 'variant' and len(c['variants']) == 1 and len(seen) < 6:
                blocks = self._variant_def_blocks(c['a'], c['variants'][0])
                if blocks:
                    common = None
                    for db, extra in blocks:
                        if db in seen:
                            common = None
                            break
                        cs = self.conds(db, seen | {db}) + ([extra] if extra else [])
                        keyed = {(x['switch'], tuple(x['labels'])): x for x in cs}
                        common = keyed if common is None else {k: v for k, v in common.items() if k in keyed}
                    have = {(x['switch'], tuple(x['labels'])) for x in out}
                    for k, v in (common or {}).items():
                        if k not in have:
                            out.append(dict(v, derived=True))
        return out

    def _variant_def_blocks(self, a, variant):
        """blocks where the multi-definition local tested by `a` is assigned an aggregate of `variant` (through
        whole-local moves; `branch(x)`: Continue <- Ok / Some, Break <- Err / None); None when some definition is opaque"""
        a = strip_refs(a)
        want = {variant}
        if a[0] == 'call' and short(a[1]) == 'branch' and len(a[2]) == 1:
            a = strip_refs(a[2][0])
            want = {'Ok', 'Some'} if variant == 'Continue' else {'Err', 'None'} if variant == 'Break' else set()
        if a[0] != 'var' or not want:
            return None
        out = []
        todo, done = [a[1]], set()
        while todo:
            l = todo.pop()
            if l in done:
                continue
            done.add(l)
            ds = self.defs.get(l, [])
            if not ds or len(done) > 8:
                return None
            for d in ds:
                if d[0] != 'assign':
                    cs_ = short(d[3]['callee'].get('path') or d[3]['callee'].get('def') or '') if d[0] == 'call' else ''
                    if cs_ == 'from_residual':
                        continue       # always the failing variant
                    if cs_ == 'ok' and len(d[3]['args']) == 1 and want & {'None', 'Some'}:
                        # `r.ok()` is None exactly when r is Err
                        v = 'Err' if 'None' in want else 'Ok'
                        arg = self.operand_expr(d[3]['args'][0], d[1])
                        out.append((d[1], {'kind': 'variant', 'a': arg, 'variants': [v], 'switch': ('ok', d[1]), 'labels': [v], 'line': d[3].get('line'), 'raw': arg, 'derived': True}))
                        continue
                    return None
                rv = d[3]
                if rv['r'] == 'agg' and rv['kind'].get('k') == 'adt':
                    if rv['kind'].get('variant') in want:
                        out.append((d[1], None))
                elif rv['r'] == 'use' and rv['a'].get('o') in ('copy', 'move') and not rv['a']['pl']['p']:
                    src = rv['a']['pl']['l']
                    # `x = move y` inside an arm that has just matched y as another variant cannot carry this one
                    contradicted = False
                    for s_, labels_, tb_ in self.guards.get(d[1], []):
                        c_ = self.cond_of(s_, labels_)
                        a2_ = strip_refs(c_['a']) if c_['kind'] == 'variant' else None
                        if a2_ is not None and ((a2_[0] == 'var' and a2_[1] == src) or a2_ == strip_refs(self.local_expr(src))) and not (set(c_['variants']) & want):
                            contradicted = True
                    if not contradicted:
                        todo.append(src)
                else:
                    return None
        return out or None

    def cond_of(self, s, labels):
        """normalise one guard to dict(kind, a, b, truth, raw, switch)"""
        d, names = self.switch_labels(s)
        t = self.blocks[s]['term']
        line = t.get('line')
        rec = {'switch': s, 'line': line, 'labels': sorted(labels), 'raw': d}
        if d[0] == 'discr':
            rec.update(kind='variant', a=d[1], variants=sorted(names.get(l, l) for l in labels))
            return rec
        # boolean switch: label '0' = false edge, 'else' = true edge
        truth = None
        if len(t['targets']) == 1 and t['targets'][0][0] == '0':
            if labels == frozenset(['else']):
                truth = True
            elif labels == frozenset(['0']):
                truth = False
        e = d
        # peel Not
        while e[0] == 'un' and e[1] == 'Not' and truth is not None:
            e = e[2]
            truth = not truth
        cmpk = cmp_of(e)
        if cmpk and truth is not None:
            if cmpk[0] == 'Ne':
                # `a != b` on one edge is exactly `a == b` on the other (also for NaN): one canonical form
                cmpk = ('Eq', cmpk[1], cmpk[2])
                truth = not truth
            rec.update(kind=cmpk[0], a=cmpk[1], b=cmpk[2], truth=truth)
            return rec
        if truth is not None:
            dty = (t['d'].get('pl') or {}).get('ty') or (t['d'].get('c') or {}).get('ty') or ''
            if re.match(r'^(u|i)(8|16|32|64|128|size)$', dty) and e[0] != 'discr':
                # `match n { 0 => .., _ => .. }` on an integer: the '0' edge is `n == 0`
                rec.update(kind='Eq', a=norm(e), b=('const', '0', dty), truth=not truth)
                return rec
            rec.update(kind='bool', a=e, truth=truth)
            return rec
        rec.update(kind='value', a=d, values=sorted(labels))
        return rec

    def bool_cond(self, e, truth, key, line=None):
        """guard record saying that boolean expression e has the given truth (derived guards)"""
        rec = {'switch': key, 'line': line, 'labels': [str(truth)], 'raw': e, 'derived': True}
        while e[0] == 'un' and e[1] == 'Not':
            e = e[2]
            truth = not truth
        cmpk = cmp_of(e)
        if cmpk:
            if cmpk[0] == 'Ne':
                cmpk = ('Eq', cmpk[1], cmpk[2])
                truth = not truth
            rec.update(kind=cmpk[0], a=cmpk[1], b=cmpk[2], truth=truth)
        else:
            rec.update(kind='bool', a=e, truth=truth)
        return rec

    # -- disjunctive path contexts --------------------------------------------------------------
    def contexts(self, bi, want, cap=256):
        """path contexts of block bi restricted to the switches selected by `want`:
        want(cond record) -> (key, value) or None.  Returns a list of dicts {key: value}, one per
        distinct combination over all acyclic paths from the entry to bi (infeasible combinations —
        the same key with two values — are dropped).  Handles or-patterns such as
        `(One, true) | (Two, false)`, which merge paths and therefore have no conjunctive guard."""
        memo = {}

        def constraint(p, x):
            t = self.blocks[p]['term']
            if t['t'] != 'switch':
                return None
            labels = [v for v, tb in t['targets'] if tb == x]
            if t['otherwise'] == x:
                labels.append('else')
            if not labels:
                return None
            c = self.cond_of(p, frozenset(labels))
            if c['kind'] == 'variant' and c['variants'] == ['else']:
                return 'INFEASIBLE'      # the otherwise edge of a switch that lists every variant (e.g. the `_` arm of matches!)
            return want(c)

        def go(x, depth=0):
            if x in memo:
                return memo[x]
            memo[x] = set()   # cycle guard
            if x == 0:
                memo[x] = {frozenset()}
                return memo[x]
            out = set()
            for p in self.preds[x]:
                if p not in self.reach or self.dominates(x, p):
                    continue   # back edge
                kv = constraint(p, x)
                if kv == 'INFEASIBLE':
                    continue
                for c in go(p, depth + 1):
                    if kv is None:
                        out.add(c)
                    else:
                        d = dict(c)
                        if kv[0] in d and d[kv[0]] != kv[1]:
                            continue
                        d[kv[0]] = kv[1]
                        out.add(frozenset(d.items()))
                    if len(out) > cap:
                        break
            memo[x] = out
            return out
        return [dict(c) for c in sorted(go(bi), key=lambda c: sorted(map(str, c)))]

    # -- expressions -------------------------------------------------------------------------
    def local_name(self, l):
        return self.names.get(l, '')

    def place_expr(self, pl, at=None, depth=0):
        base = self.local_expr(pl['l'], at, depth)
        return self.project(base, pl['p'], at, depth, in_place=pl['l'] in self.field_mut, base_ty=self.locals[pl['l']]['ty'])

    def project(self, base, proj, at=None, depth=0, in_place=False, base_ty=None):
        e = base
        first_field = True
        for p in proj:
            k = p['k']
            if k == 'deref':
                e = e[1] if e[0] == 'ref' else ('deref', e)
            elif k == 'field':
                nm = p['n'] or str(p['i'])
                if first_field and base_ty is not None and p['n'] and _new_record(self.crate, _adt_of(base_ty)):
                    nm = str(p['i'])        # a field of a new record type, read by position like a tuple component
                    if _array_record(self.crate, _adt_of(base_ty)):
                        # ... or like an element of the per-player pair it stands for
                        first_field = False
                        if e[0] == 'agg' and e[1] == 'array' and p['i'] < len(e[2]):
                            e = e[2][p['i']]
                        else:
                            e = ('cidx', e, p['i'], False)
                        continue
                first_field = False
                if e[0] == 'bin' and e[1] in ('Add', 'Sub', 'Mul') and p['i'] == 0:
                    pass   # (value, overflow-flag).0 of a checked integer operation is the value
                elif e[0] == 'agg' and e[1] in ('tuple',) and p['i'] < len(e[2]):
                    e = e[2][p['i']]
                elif e[0] == 'downcast' and e[2] == 'Some' and e[1][0] == 'call' and short(e[1][1]) == 'then_some' and len(e[1][2]) == 2 and p['i'] == 0:
                    e = e[1][2][1]      # (cond.then_some(v) as Some).0 is v
                elif e[0] == 'downcast' and e[1][0] == 'agg' and e[1][1].startswith('adt:') and e[1][1].endswith('::' + e[2]) and p['i'] < len(e[1][2]):
                    e = e[1][2][p['i']]     # (Variant{x, ..} as Variant).i is x
                elif e[0] == 'agg' and e[1].startswith('closure:'):
                    e = e[2][p['i']] if p['i'] < len(e[2]) else ('field', e, nm)
                elif e[0] == 'agg' and e[1].startswith('adt:') and p['i'] < len(e[2]) and not in_place:
                    e = e[2][p['i']]        # Struct{a, b}.b is b (a struct literal: a variant's fields are read through a downcast)
                elif self.is_closure and e == ('param', 1, self.local_name(1) or '') or (self.is_closure and e[0] == 'deref' and e[1][0] == 'param' and e[1][1] == 1):
                    e = ('upvar', p['i'], self.upvar_names.get(p['i'], ''))
                else:
                    e = ('field', e, nm)
            elif k == 'index':
                e = ('index', e, self.local_expr(p['l'], at, depth + 1))
            elif k == 'cidx':
                if e[0] == 'agg' and e[1] == 'array' and not p['end'] and p['off'] < len(e[2]):
                    e = e[2][p['off']]
                elif e[0] == 'repeat' and not p['end']:
                    e = e[1]       # [x; N][i] is x
                else:
                    m = self._array_map_elem(e, p['off']) if not p['end'] else None
                    e = m if m is not None else ('cidx', e, p['off'], p['end'])
            elif k == 'subslice':
                e = ('subslice', e)
            elif k == 'downcast':
                e = ('downcast', e, p['n'] or str(p['v']))
            else:
                e = ('other', 'proj')
        return e

    def _array_map_elem(self, e, i):
        """`[a, b].map(|x| body)[i]` is body[x := element i] (captures replaced by the captured operands)"""
        if not (e[0] == 'call' and e[1].endswith('::map') and 'array' in e[1] and len(e[2]) == 2):
            return None
        arr, cl = strip_refs(e[2][0]), strip_refs(e[2][1])
        if not (arr[0] == 'agg' and arr[1] == 'array' and i < len(arr[2]) and cl[0] == 'agg' and cl[1].startswith('closure:')):
            return None
        cf = self.crate.fns.get(cl[1][len('closure:'):])
        if cf is None or cf.argc != 2 or len(cf.reach) > 40:
            return None
        try:
            body = cf.local_expr(0)
        except RecursionError:
            return None
        if body[0] == 'var':
            return None
        elem = arr[2][i]
        caps = cl[2]

        def sub(x, d=0):
            if not isinstance(x, tuple) or d > 60:
                return x
            if x[0] == 'param' and x[1] == 2:
                return elem
            if x[0] == 'upvar' and x[1] < len(caps):
                return caps[x[1]]
            if x[0] == 'call':
                return (x[0], x[1], tuple(sub(a, d + 1) for a in x[2]), x[3])
            if x[0] == 'agg':
                return (x[0], x[1], tuple(sub(a, d + 1) for a in x[2]))
            return tuple(sub(a, d + 1) if isinstance(a, tuple) else a for a in x)
        return sub(body)

    def local_expr(self, l, at=None, depth=0):
        if l in self._expr_cache:
            return self._expr_cache[l]
        if depth > 60:
            return ('var', l, self.local_name(l))
        if 1 <= l <= self.argc:
            if self.is_closure and l == 1:
                e = ('param', 1, self.local_name(1) or '')
            else:
                e = ('param', l, self.local_name(l))
            # parameters that are re-assigned are vars
            if self.defs.get(l):
                e = ('var', l, self.local_name(l))
            self._expr_cache[l] = e
            return e
        ds = self.defs.get(l, [])
        if l in self.mut_scalars and len(ds) == 1 and ds[0][0] == 'assign' and not self.local_name(l) \
                and ds[0][3]['r'] == 'use' and ds[0][3]['a']['o'] == 'const':
            pass    # `&mut <literal>` temporary (e.g. `x > &mut 0.0`): still that literal
        elif len(ds) > 1 and l not in self.mut_scalars and all(d[0] == 'assign' for d in ds) and all(_same_rv(d[3], ds[0][3]) for d in ds[1:]):
            pass    # the same computation copied onto several paths (tail duplication by the CFG normalisation): one value
        elif len(ds) != 1 or ds[0][0] == 'partial' or l in self.mut_scalars:
            e = ('var', l, self.local_name(l))
            self._expr_cache[l] = e
            return e
        elif l in self.field_mut and ds[0][0] == 'assign' and ((ds[0][3]['r'] == 'agg' and ds[0][3]['kind'].get('k') == 'adt') or
                                                                (ds[0][3]['r'] == 'use' and ds[0][3]['a'].get('o') == 'move' and not ds[0][3]['a']['pl']['p'])):
            # a struct literal some field of which is later borrowed mutably: a record updated in place, not a value
            e = ('var', l, self.local_name(l))
            self._expr_cache[l] = e
            return e
        self._expr_cache[l] = ('var', l, self.local_name(l))  # recursion guard
        kind, bi, si, x = ds[0]
        if kind == 'assign':
            e = self.rvalue_expr(x, bi, depth + 1)
        else:
            e = self.call_expr(x, bi, depth + 1)
        # a single-def local defined inside a loop but used as accumulator elsewhere is still fine
        self._expr_cache[l] = e
        return e

    def call_expr(self, t, bi, depth=0):
        c = t['callee']
        path = c.get('path') or c.get('def') or ''
        if not path and 'indirect' in c:
            callee = self.operand_expr(c['indirect'], bi, depth + 1)
            path = 'indirect:' + show(callee)
        args = tuple(self.operand_expr(a, bi, depth + 1) for a in t['args'])
        if not t['dest']['p'] and self.names.get(t['dest']['l']):
            SITE_NAMES[(self.name, bi)] = self.names[t['dest']['l']]
        return ('call', path, args, (self.name, bi))

    def operand_expr(self, o, at=None, depth=0):
        k = o['o']
        if k == 'const':
            c = o['c']
            ck = c['k']
            if ck == 'val':
                v = c.get('v')
                if v is None:
                    s = c.get('s', '')
                    if s.startswith('const '):
                        s = s[6:]
                    if s.startswith('"') or s.startswith('b"'):
                        body = s[s.index('"') + 1:]
                        return ('const', body[:-1] if body.endswith('"') else body, c['ty'])
                    return ('const', None, c['ty'] + ':' + s)
                return ('const', v, c['ty'])
            if ck == 'uneval':
                if c.get('v') is not None:
                    return ('const', c['v'], c['ty'])
                return ('const', None, c['ty'] + ':' + c['path'])
            if ck == 'cparam':
                return ('cparam', c['name'])
            if ck == 'fn':
                return ('fn', c['path'])
            if ck == 'promoted':
                return self.promoted_expr(c['i'])
            if ck == 'tyconst':
                # a type-level constant (e.g. a float literal / `f64::INFINITY` used as a match pattern): `-Inf_f64`, `1.5_f64`
                txt = str(c.get('s', ''))
                if txt.startswith('const '):
                    txt = txt[6:]
                for suf in ('_f64', 'f64', '_f32', 'f32'):
                    if txt.endswith(suf):
                        try:
                            return ('const', str(float(txt[:-len(suf)].lstrip('+'))), c['ty'])
                        except ValueError:
                            break
                return ('const', None, c['ty'] + ':' + txt)
            return ('other', ck)
        if k in ('copy', 'move'):
            return self.place_expr(o['pl'], at, depth)
        return ('other', 'operand')

    def promoted_expr(self, i):
        """fold a promoted constant body to an expression when it is a simple `&value`"""
        if i < len(self.promoted):
            p = self.promoted[i]
            # return local _0's expression
            try:
                e = p.local_expr(0)
                if e[0] != 'var':
                    return e
            except RecursionError:
                pass
        return ('promoted', i)

    def rvalue_expr(self, rv, bi=None, depth=0):
        r = rv['r']
        if r == 'use':
            return self.operand_expr(rv['a'], bi, depth)
        if r in ('ref', 'rawptr'):
            return ('ref', self.place_expr(rv['pl'], bi, depth))
        if r == 'cast':
            a = self.operand_expr(rv['a'], bi, depth)
            return ('cast', a, rv['ty'])
        if r == 'bin':
            return ('bin', rv['op'], self.operand_expr(rv['a'], bi, depth), self.operand_expr(rv['b'], bi, depth))
        if r == 'un':
            a = self.operand_expr(rv['a'], bi, depth)
            if rv['op'] == 'PtrMetadata':
                return ('len', a)
            return ('un', rv['op'], a)
        if r == 'discr':
            return ('discr', self.place_expr(rv['pl'], bi, depth), rv['adt'])
        if r == 'agg':
            kd = rv['kind']
            k = kd.get('k')
            if k == 'adt' and _array_record(self.crate, kd['path']):
                kind = 'array'      # ... or the per-player pair it stands for
            elif k == 'adt' and _new_record(self.crate, kd['path']):
                kind = 'tuple'      # a struct the reference tree does not have, used as a record: its literal is the tuple of its fields
            elif k == 'adt':
                kind = 'adt:%s::%s' % (kd['path'], kd['variant'])
            elif k == 'closure':
                kind = 'closure:' + kd['path']
            else:
                kind = k
            return ('agg', kind, tuple(self.operand_expr(o, bi, depth) for o in rv['ops']))
        if r == 'repeat':
            return ('repeat', self.operand_expr(rv['a'], bi, depth), rv['n'])
        return ('other', rv.get('s', r)[:80])

    def expr(self, o, at=None):
        if 'o' in o:
            return self.operand_expr(o, at)
        return self.place_expr(o, at)

    # -- place identity ----------------------------------------------------------------------
    def root_place(self, pl, depth=0):
        """resolve a place through reference / copy temporaries to (base, fields) where base is
        ('param', i) | ('var', local) | ('upvar', i); None when it goes through an index"""
        if 'pl' in pl:
            pl = pl['pl']
        if 'l' not in pl:
            return None
        l = pl['l']
        if any(p['k'] in ('index', 'cidx', 'subslice') for p in pl['p']):
            return None
        fields = tuple((p['n'] or str(p['i'])) for p in pl['p'] if p['k'] == 'field')
        if depth < 40 and l > self.argc:
            ds = self.defs.get(l, [])
            if len(ds) == 1 and ds[0][0] == 'assign':
                rv = ds[0][3]
                inner = None
                if rv['r'] in ('ref', 'rawptr'):
                    inner = rv['pl']
                elif rv['r'] in ('use', 'cast') and rv['a']['o'] in ('copy', 'move'):
                    inner = rv['a']['pl']
                if inner is not None:
                    r = self.root_place(inner, depth + 1)
                    if r is None:
                        return None
                    return (r[0], r[1] + fields)
        if self.is_closure and l == 1 and fields:
            idx = [p['i'] for p in pl['p'] if p['k'] == 'field'][0]
            return (('upvar', idx), fields[1:])
        if 1 <= l <= self.argc:
            return (('param', l), fields)
        return (('var', l), fields)

    def key_name(self, key):
        base, fields = key
        if base[0] == 'upvar':
            n = self.upvar_names.get(base[1], 'upvar%d' % base[1])
        else:
            n = self.local_name(base[1]) or '_%d' % base[1]
        return n + ''.join('.' + f for f in fields)

    # -- iteration helpers -------------------------------------------------------------------
    def calls(self, include_expansion=True):
        """yield (block index, terminator dict, resolved path) for every reachable call"""
        for bi in sorted(self.reach):
            t = self.blocks[bi]['term']
            if t['t'] == 'call':
                if not include_expansion and t.get('exp'):
                    continue
                c = t['callee']
                yield bi, t, (c.get('path') or c.get('def') or '')

    def assigns(self):
        for bi in sorted(self.reach):
            for si, st in enumerate(self.blocks[bi]['stmts']):
                if st['s'] == 'assign':
                    yield bi, si, st

    def line_of(self, bi):
        t = self.blocks[bi]['term']
        if 'line' in t:
            return t['line']
        for st in self.blocks[bi]['stmts']:
            return st.get('line')
        return None

    def where(self, bi=None, line=None):
        if line is None and bi is not None:
            line = self.line_of(bi)
        return Site('%s:%s' % (self.file, line if line is not None else '?'), self.name)

    def shape(self):
        """multiset of what the function (with its closures) does: callee names, arithmetic / comparison operators,
        variants built — the coarse fingerprint used to tell a local edit from a restructuring"""
        import collections
        out = collections.Counter()
        for g in [self] + (self.crate.closures_of(self) if hasattr(self.crate, 'closures_of') else []):
            for bi in g.reach:
                b = g.blocks[bi]
                for st in b['stmts']:
                    if st['s'] != 'assign':
                        continue
                    rv = st['rv']
                    if rv['r'] == 'bin' and rv['op'] in SHAPE_OPS:
                        out['op:' + rv['op']] += 1
                    elif rv['r'] == 'agg' and rv['kind'].get('k') == 'adt' and rv['kind'].get('variant'):
                        out['mk:' + str(rv['kind']['variant'])] += 1
                t = b['term']
                if t['t'] == 'call':
                    nm = (t['callee'].get('path') or t['callee'].get('def') or '?').split('::')[-1]
                    if nm not in SHAPE_IGNORE:
                        out['call:' + nm] += 1
        return out


SHAPE_OPS = {'Add', 'Sub', 'Mul', 'Div', 'Rem', 'Lt', 'Le', 'Gt', 'Ge', 'Eq', 'Ne'}
# protocol / plumbing calls that come and go with the spelling of a loop or a borrow
SHAPE_IGNORE = {'into_iter', 'iter', 'iter_mut', 'next', 'deref', 'deref_mut', 'as_ref', 'as_mut', 'borrow', 'borrow_mut', 'clone', 'into', 'from', 'branch', 'from_residual',
                'unwrap', 'expect', 'map', 'for_each', 'try_for_each', 'fold', 'zip', 'enumerate', 'collect', 'by_ref', 'new_v1', 'new_const', 'call', 'call_mut', 'call_once',
                'index', 'index_mut', 'len', 'is_empty', 'from_output', 'ok_or', 'ok', 'eq', 'ne', 'size_hint', 'drop', 'as_slice', 'as_mut_slice', 'to_owned', 'panic_fmt', 'panic'}


class Site(str):
    """`file:line` of a verdict, remembering the function it was found in"""
    def __new__(cls, text, fn=None):
        o = super().__new__(cls, text)
        o.fn = fn
        return o


SCALAR_TY = re.compile(r'^\[?(f64|f32|u\d+|i\d+|usize|isize|bool)(; \d+\])?$')
CMP_BIN = {'Gt', 'Ge', 'Lt', 'Le', 'Eq', 'Ne'}
CMP_CALL = {'gt': 'Gt', 'ge': 'Ge', 'lt': 'Lt', 'le': 'Le', 'eq': 'Eq', 'ne': 'Ne'}


SWAP = {'Gt': 'Lt', 'Lt': 'Gt', 'Ge': 'Le', 'Le': 'Ge', 'Eq': 'Eq', 'Ne': 'Ne'}


def _same_rv(a, b):
    """two rvalues denote the same computation (ignoring source lines)"""
    if type(a) is not type(b):
        return False
    if isinstance(a, dict):
        ka = {k for k in a if k not in ('line', 'exp')}
        kb = {k for k in b if k not in ('line', 'exp')}
        return ka == kb and all(_same_rv(a[k], b[k]) for k in ka)
    if isinstance(a, list):
        return len(a) == len(b) and all(_same_rv(x, y) for x, y in zip(a, b))
    return a == b


def _orient(kind, a, b):
    """canonical orientation: a literal operand goes to the right (`0.0 < x` is `x > 0.0`)"""
    if a[0] == 'const' and b[0] != 'const':
        return (SWAP[kind], b, a)
    return (kind, a, b)


def cmp_of(e):
    """recognise a comparison / float predicate: returns (kind, a, b) with refs stripped"""
    if e[0] == 'bin' and e[1] in CMP_BIN:
        return _orient(e[1], norm(e[2]), norm(e[3]))
    if e[0] == 'call':
        s = short(e[1])
        if s in CMP_CALL and len(e[2]) == 2 and ('PartialOrd' in e[1] or 'PartialEq' in e[1] or 'cmp::' in e[1] or 'partial_' in e[1] or True):
            # <&f64 as PartialOrd<&f64>>::gt(&a, &b) and friends
            if any(x in e[1] for x in ('cmp::PartialOrd', 'cmp::PartialEq', 'cmp::impls')):
                return _orient(CMP_CALL[s], norm(e[2][0]), norm(e[2][1]))
        if s in ('is_finite', 'is_nan', 'is_infinite') and 'f64' in e[1]:
            return ({'is_finite': 'IsFinite', 'is_nan': 'IsNan', 'is_infinite': 'IsInfinite'}[s], norm(e[2][0]), None)
        if s in ('is_empty', 'is_none', 'is_some', 'is_ok', 'is_err', 'contains', 'contains_key', 'all', 'any'):
            return ('Is:' + s, norm(e[2][0]), norm(e[2][1]) if len(e[2]) > 1 else None)
    return None


class Crate:
    def __init__(self, j):
        self.j = j
        self.name = j['crate']
        self.is_bin = j['is_bin']
        self.is_test = j.get('is_test', False)
        self.adts = j['adts']
        for k_, v_ in self.adts.items():
            if len(v_) == 1:
                ADT_FIELDS.setdefault(k_, list(v_[0].get('fields', [])))
        self.unsafe = j.get('unsafe', [])
        self.impls = j.get('impls', [])
        self.fns = {}
        import inline
        self.inline_stats = inline.inline_crate(j) if not os.environ.get('CFR_NO_INLINE') else {'inlined': 0, 'dropped': [], 'sites': []}
        # the normalisation may have given moved items their reference paths back (whole fact set rewritten)
        self.adts = j['adts']
        for k_, v_ in self.adts.items():
            if len(v_) == 1:
                ADT_FIELDS.setdefault(k_, list(v_[0].get('fields', [])))
        self.unsafe = j.get('unsafe', [])
        self.impls = j.get('impls', [])
        for f in j['fns']:
            self.fns[f['name']] = Fn(f, self)
        self.graph = j.get('graph', {'nodes': [], 'edges': [], 'leaves': [], 'roots': []})
        self._adj = None

    def find(self, suffix, closures=False):
        """functions whose def-path ends with the suffix (closures excluded unless asked)"""
        out = []
        for n, f in self.fns.items():
            if f.is_closure and not closures:
                continue
            if n == suffix or n.endswith('::' + suffix) or n.endswith(suffix) and (len(n) == len(suffix) or n[-len(suffix) - 1] in ':> '):
                out.append(f)
        return out

    def one(self, suffix):
        fs = self.find(suffix)
        return fs[0] if len(fs) == 1 else None

    def closures_of(self, f):
        """closures lexically inside function f (any depth), plus closures whose aggregate is built in f's
        (possibly inlined) body — an inlined helper's closures carry the helper's name, not f's"""
        pre = f.name + '::{closure#'
        out = {n: g for n, g in self.fns.items() if n.startswith(pre)}
        todo = [f] + list(out.values())
        seen = set()
        while todo:
            g = todo.pop()
            if g.name in seen:
                continue
            seen.add(g.name)
            for b in g.blocks:
                for st in b['stmts']:
                    rv = st.get('rv') or {}
                    if rv.get('r') == 'agg' and rv.get('kind', {}).get('k') == 'closure':
                        c = self.fns.get(rv['kind']['path'])
                        if c is not None and c.name not in out and c.name != f.name:
                            out[c.name] = c
                            todo.append(c)
        return list(out.values())

    def non_test_fns(self):
        for n, f in self.fns.items():
            if is_test_path(n):
                continue
            yield f

    # instance graph
    @property
    def adj(self):
        if self._adj is None:
            adj = collections.defaultdict(list)
            for a, b, line, kind in self.graph['edges']:
                adj[a].append((b, line, kind))
            self._adj = adj
        return self._adj

    def root(self, suffix):
        for r in self.graph['roots']:
            if r['path'].endswith(suffix):
                return r
        return None

    def reach_from(self, node, stop=None):
        """BFS over the instance graph from node index; returns parent map for path witnesses"""
        parent = {node: None}
        q = collections.deque([node])
        while q:
            x = q.popleft()
            if stop and stop(self.graph['nodes'][x]) and x != node:
                continue
            for b, line, kind in self.adj.get(x, []):
                if b not in parent:
                    parent[b] = (x, line)
                    q.append(b)
        return parent

    def path_to(self, parent, target):
        out = []
        x = target
        while x is not None:
            out.append(self.graph['nodes'][x].split('|')[0].split('@', 1)[-1])
            p = parent.get(x)
            x = p[0] if p else None
        return list(reversed(out))


TEST_MODS = ('::tests::', 'tests::', '::game_errors::', 'game_errors::', '::strat_errors::', 'strat_errors::',
             '::solve_errors::', 'solve_errors::')


def is_test_path(n):
    return any(('::' + n).find('::' + m.strip(':') + '::') >= 0 for m in ('tests', 'game_errors', 'strat_errors', 'solve_errors'))


def load_crates(dirpath, info):
    out = {}
    for f in info['files']:
        j = json.load(open(os.path.join(dirpath, f['name'])))
        j['_kind'] = f['kind']
        out[f['kind']] = Crate(j)
    return out
