"""split_by / split_by_mut hand out the dense vector's chunks front to back (shared by C13, C14, C18).

The dense strategy vector is laid out infoset after infoset; every consumer pairs the k-th chunk with the k-th
infoset.  Decided on the MIR of the two `next` implementations of split.rs: the item is component .0 of
`split_at[_mut](remaining slice, len)` with `len` the value just taken from the length iterator, and component .1
becomes the remaining slice.  Any other recognised split (a different cut point, the components exchanged) is a
violation; an unrecognised body is not decided.
"""
import facts
import q
from facts import short, strip_refs

NEXTS = ("<split::SplitsBy<'a, T, I> as std::iter::Iterator>::next", "<split::SplitsByMut<'a, T, I> as std::iter::Iterator>::next")


def front_to_back(ctx, pid):
    rule = '%s.chunks-front-to-back' % pid
    lib = ctx.lib
    for name in NEXTS:
        f = lib.fns.get(name)
        tag = 'SplitsByMut' if 'Mut' in name else 'SplitsBy'
        if f is None:
            ctx.anchor_lost(rule, 'split.rs: %s::next' % tag)
            continue
        ctx.touch(f)
        is_split = lambda x: x[0] == 'call' and short(x[1]) in ('split_at', 'split_at_mut', 'split_at_checked', 'split_at_mut_checked')
        item = None
        for bi, cs, v in q.multi_def_values(f, 0):
            v = strip_refs(v)
            if v[0] == 'agg' and v[1].endswith('Option::Some') and v[2]:
                item = (bi, strip_refs(v[2][0]))
        rest = [(bi, strip_refs(rhs)) for bi, st, pl, rhs in q.stores(f) if 'slice' in facts.show(pl)]
        if item is None or not rest:
            ctx.anchor_lost(rule, '%s::next: the chunk handed out and the remainder kept' % tag)
            continue
        bi, it = item
        sp = it[1] if it[0] == 'field' and is_split(strip_refs(it[1])) else None
        rs = [r for _, r in rest if r[0] == 'field' and is_split(strip_refs(r[1]))]
        if sp is None or not rs:
            # not a split_at of the remaining slice at all (index ranges, split_first loops, ...)
            ctx.anchor_lost(rule, '%s::next: item and remainder as the two halves of one split_at' % tag, 'item %s' % facts.show(it)[:80])
            continue
        sp = strip_refs(sp)
        cut = strip_refs(sp[2][1])
        # the value just taken from the length iterator: `Some(len)` of `lens.next()`, also through `?` (`branch(..) as Continue`)
        x = cut
        for _ in range(8):
            if x[0] in ('field', 'downcast'):
                x = strip_refs(x[1])
            elif x[0] == 'call' and short(x[1]) == 'branch' and x[2]:
                x = strip_refs(x[2][0])
            else:
                break
        cut_is_len = cut[0] == 'field' and str(cut[2]) == '0' and q.is_call(x, 'next')
        good = cut_is_len and str(it[2]) == '0' and all(str(r[2]) == '1' and strip_refs(r[1])[3] == sp[3] for r in rs)
        ctx.verdict(good, rule, '%s:%s' % (rule, tag), 'the chunk handed out is the first `len` elements of what remains, and the rest is kept for the following chunks', f.where(bi),
                    'item = split.%s, remainder = split.%s, cut at %s' % (it[2], ','.join(str(r[2]) for r in rs), facts.show(cut)[:50]),
                    breaks='chunks come from the wrong end: with infosets of different sizes every consumer (import, truncation, views, evaluation) pairs infosets with the wrong probabilities')
