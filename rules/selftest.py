#!/usr/bin/env python3
"""Checker self-validation: apply each corpus edit (a mutant or a benign variant) to a scratch copy
of /repo outside /repo and /verif, re-extract facts, run the rules and compare the *delta* of
violation keys with the expectation.  A failure here is a defect of the checker (exit 2,
CHECKER-SELFTEST), never a property violation.

usage: selftest.py [--only substr] [--props C09,C13] [--jobs N] [--list]
"""
import concurrent.futures
import json
import os
import shutil
import subprocess
import sys
import tempfile

HERE = os.path.dirname(os.path.abspath(__file__))
VERIF = os.path.dirname(HERE)
sys.path.insert(0, HERE)
import extract  # noqa: E402

CORPUS = os.path.join(VERIF, 'corpus')
# per process: several checks may run at the same time (each thorough check replays its corpus entries)
SCRATCH_ROOT = os.environ.get('CFR_SCRATCH', '/tmp/cfr-selftest-%d' % os.getpid())


def load_corpus():
    out = []
    for fn in sorted(os.listdir(CORPUS)):
        if fn.endswith('.json'):
            for e in json.load(open(os.path.join(CORPUS, fn))):
                e['_file'] = fn
                out.append(e)
    return out


def make_scratch(slot):
    d = os.path.join(SCRATCH_ROOT, 'slot%d' % slot, 'repo')
    shutil.rmtree(d, ignore_errors=True)
    os.makedirs(os.path.dirname(d), exist_ok=True)
    shutil.copytree(extract.REPO, d, ignore=shutil.ignore_patterns('target', '.git'))
    return d


def apply_edits(repo, edits):
    """edits: list of {file, old, new}; returns None or an error string"""
    for ed in edits:
        p = os.path.join(repo, ed['file'])
        s = open(p).read()
        n = s.count(ed['old'])
        if n != ed.get('count', 1):
            return 'edit does not apply (%d matches of %r in %s)' % (n, ed['old'][:50], ed['file'])
        s = s.replace(ed['old'], ed['new'])
        open(p, 'w').write(s)
    return None


def keys_for(repo, pids):
    """violation keys per property on a tree"""
    out = {}
    for pid in pids:
        p = subprocess.run([sys.executable, os.path.join(HERE, 'framework.py'), pid, '--repo', repo, '--keys', '--no-evidence'],
                           stdout=subprocess.PIPE, stderr=subprocess.PIPE, text=True)
        if p.returncode not in (0, 1):
            out[pid] = {'ERROR: ' + (p.stderr or p.stdout)[-400:]}
        else:
            lines = [l for l in p.stdout.splitlines() if l and not l.startswith(('[', 'WARNING'))]
            out[pid] = set(lines)
    return out


def run_entry(slot, entry, base_keys, all_pids):
    repo = make_scratch(slot)
    try:
        err = apply_edits(repo, entry['edits'])
        if err:
            return entry, 'skipped', err, {}
        pids = entry.get('props') or all_pids
        ks = keys_for(repo, pids)
        delta = {}
        for pid in pids:
            d = ks[pid] - base_keys.get(pid, set())
            if d:
                delta[pid] = sorted(d)
        if entry['kind'] == 'benign':
            ok = not delta
            why = 'benign variant raised: %s' % delta if delta else ''
        else:
            exp = entry['expect']   # list of key fragments, each must match at least one new key
            flat = [k for v in delta.values() for k in v]
            if any(k.startswith('ERROR') or 'extract-failed' in k for k in flat):
                return entry, 'fail', 'mutant does not compile / extraction failed: %s' % flat[:1], delta
            already = [k for pid in pids for k in base_keys.get(pid, set())]
            missing = [x for x in exp if not any(k.startswith(x) or x in k for k in flat) and not any(k.startswith(x) or x in k for k in already)]
            ok = not missing
            why = 'expected key(s) not raised: %s; raised: %s' % (missing, flat) if missing else ''
        return entry, 'ok' if ok else 'fail', why, delta
    finally:
        shutil.rmtree(os.path.dirname(repo), ignore_errors=True)


def run_entries(corpus, jobs, all_pids):
    import threading
    need = sorted({p for e in corpus for p in (e.get('props') or all_pids)})
    base = keys_for(extract.REPO, need)
    results = []
    free = list(range(jobs))
    lock = threading.Lock()

    def work(entry):
        with lock:
            slot = free.pop()
        try:
            return run_entry(slot, entry, base, all_pids)
        finally:
            with lock:
                free.append(slot)
    with concurrent.futures.ThreadPoolExecutor(max_workers=jobs) as ex:
        for fu in [ex.submit(work, e) for e in corpus]:
            results.append(fu.result())
    return results


def cleanup(keep_targets=False, roots=None):
    import hashlib
    roots = [SCRATCH_ROOT] + list(roots or [])
    for r in roots:
        shutil.rmtree(r, ignore_errors=True)
    if not keep_targets and os.path.isdir(extract.WORK):
        # scratch target dirs are named target-<config>-<hash of the scratch path>: remove those of this process's
        # slots only (another check may be building in its own)
        mine = {hashlib.sha1(os.path.join(r, 'slot%d' % k, 'repo').encode()).hexdigest()[:8] for r in roots for k in range(64)}
        for d in os.listdir(extract.WORK):
            if d.startswith('target-') and d.count('-') >= 2 and d.rsplit('-', 1)[1] in mine:
                shutil.rmtree(os.path.join(extract.WORK, d), ignore_errors=True)


def run_for(pid, jobs=8):
    """thorough-tier entry: replay the corpus entries that name this property"""
    corpus = [e for e in load_corpus() if pid in (e.get('props') or [])]
    manifest = json.load(open(os.path.join(VERIF, 'MANIFEST.json')))
    all_pids = [c['property_id'] for c in manifest['checks']]
    # only look at this property's rules
    corpus = [dict(e, props=[pid], expect=[x for x in e.get('expect', []) if x.startswith(pid + '.') or ':' + pid in x or x.startswith('anchor-lost:' + pid)] or
                   ([] if e['kind'] == 'benign' else [pid + '.'])) for e in corpus]
    results = run_entries(corpus, jobs, all_pids) if corpus else []
    cleanup(keep_targets=os.environ.get('CFR_KEEP_SCRATCH') == '1')
    lines = []
    for entry, status, why, delta in results:
        flat = [k for v in delta.values() for k in v]
        lines.append('%-7s %-7s %-46s %s' % (status.upper(), entry['kind'], entry['id'], why or ', '.join(flat)[:160]))
    return {'entries': len(results), 'ok': sum(1 for r in results if r[1] == 'ok'), 'failed': sum(1 for r in results if r[1] == 'fail'),
            'skipped': sum(1 for r in results if r[1] == 'skipped'), 'mutants': sum(1 for r in results if r[0]['kind'] == 'mutant'),
            'benign': sum(1 for r in results if r[0]['kind'] == 'benign'), 'lines': lines}


def main(argv):
    import argparse
    ap = argparse.ArgumentParser()
    ap.add_argument('--only')
    ap.add_argument('--props')
    ap.add_argument('--jobs', type=int, default=6)
    ap.add_argument('--list', action='store_true')
    ap.add_argument('--kind')
    ap.add_argument('--keep', action='store_true', help='keep scratch target dirs (faster re-runs)')
    a = ap.parse_args(argv)
    corpus = load_corpus()
    if a.only:
        corpus = [e for e in corpus if a.only in e['id']]
    if a.kind:
        corpus = [e for e in corpus if e['kind'] == a.kind]
    if a.props:
        want = set(a.props.split(','))
        corpus = [e for e in corpus if not e.get('props') or want & set(e['props'])]
    if a.list:
        for e in corpus:
            print(e['kind'], e['id'], e.get('props'), e.get('expect'))
        return 0
    manifest = json.load(open(os.path.join(VERIF, 'MANIFEST.json')))
    all_pids = [c['property_id'] for c in manifest['checks']]
    results = run_entries(corpus, a.jobs, all_pids)
    nfail = 0
    for entry, status, why, delta in results:
        flat = [k for v in delta.values() for k in v]
        print('%-7s %-7s %-48s %s' % (status.upper(), entry['kind'], entry['id'], why or (', '.join(flat)[:150])))
        if status == 'fail':
            nfail += 1
    cleanup(keep_targets=a.keep)
    print('selftest: %d entries, %d ok, %d failed, %d skipped' % (
        len(results), sum(1 for r in results if r[1] == 'ok'), nfail, sum(1 for r in results if r[1] == 'skipped')))
    if nfail:
        print('CHECKER-SELFTEST: %d corpus expectation(s) not met' % nfail)
        return 2
    return 0


if __name__ == '__main__':
    sys.exit(main(sys.argv[1:]))
