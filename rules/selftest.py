#!/usr/bin/env python3
"""Checker self-validation: apply each corpus edit (a mutant or a benign variant) to a scratch copy
of /repo outside /repo and /verif, re-extract facts, run the rules and compare the *delta* of
violation keys with the expectation.  A failure here is a defect of the checker (exit 2,
CHECKER-SELFTEST), never a property violation.

usage: selftest.py [--only substr] [--props C09,C13] [--jobs N] [--list]
"""
import concurrent.futures
import json
import os
import shutil
import subprocess
import sys
import tempfile

HERE = os.path.dirname(os.path.abspath(__file__))
VERIF = os.path.dirname(HERE)
sys.path.insert(0, HERE)
import extract  # noqa: E402

CORPUS = os.path.join(VERIF, 'corpus')
SCRATCH_ROOT = os.environ.get('CFR_SCRATCH', '/tmp/cfr-selftest')


def load_corpus():
    out = []
    for fn in sorted(os.listdir(CORPUS)):
        if fn.endswith('.json'):
            for e in json.load(open(os.path.join(CORPUS, fn))):
                e['_file'] = fn
                out.append(e)
    return out


def make_scratch(slot):
    d = os.path.join(SCRATCH_ROOT, 'slot%d' % slot, 'repo')
    shutil.rmtree(d, ignore_errors=True)
    os.makedirs(os.path.dirname(d), exist_ok=True)
    shutil.copytree(extract.REPO, d, ignore=shutil.ignore_patterns('target', '.git'))
    return d


def apply_edits(repo, edits):
    """edits: list of {file, old, new}; returns None or an error string"""
    for ed in edits:
        p = os.path.join(repo, ed['file'])
        s = open(p).read()
        n = s.count(ed['old'])
        if n != ed.get('count', 1):
            return 'edit does not apply (%d matches of %r in %s)' % (n, ed['old'][:50], ed['file'])
        s = s.replace(ed['old'], ed['new'])
        open(p, 'w').write(s)
    return None


def keys_for(repo, pids):
    """violation keys per property on a tree"""
    out = {}
    for pid in pids:
        p = subprocess.run([sys.executable, os.path.join(HERE, 'framework.py'), pid, '--repo', repo, '--keys', '--no-evidence'],
                           stdout=subprocess.PIPE, stderr=subprocess.PIPE, text=True)
        if p.returncode not in (0, 1):
            out[pid] = {'ERROR: ' + (p.stderr or p.stdout)[-400:]}
        else:
            lines = [l for l in p.stdout.splitlines() if l and not l.startswith(('[', 'WARNING'))]
            out[pid] = set(lines)
    return out


def run_entry(slot, entry, base_keys, all_pids):
    repo = make_scratch(slot)
    try:
        err = apply_edits(repo, entry['edits'])
        if err:
            return entry, 'skipped', err, {}
        pids = entry.get('props') or all_pids
        ks = keys_for(repo, pids)
        delta = {}
        for pid in pids:
            d = ks[pid] - base_keys.get(pid, set())
            if d:
                delta[pid] = sorted(d)
        if entry['kind'] == 'benign':
            ok = not delta
            why = 'benign variant raised: %s' % delta if delta else ''
        else:
            exp = entry['expect']   # list of key prefixes, each must match at least one new key
            flat = [k for v in delta.values() for k in v]
            if any(k.startswith('ERROR') or 'extract-failed' in k for k in flat):
                return entry, 'fail', 'mutant does not compile / extraction failed: %s' % flat[:1], delta
            missing = [x for x in exp if not any(k.startswith(x) or x in k for k in flat)]
            ok = not missing
            why = 'expected key(s) not raised: %s; raised: %s' % (missing, flat) if missing else ''
        return entry, 'ok' if ok else 'fail', why, delta
    finally:
        shutil.rmtree(os.path.dirname(repo), ignore_errors=True)
        # the scratch target dir is keyed by the scratch path; keep it for the next entry of this slot


def main(argv):
    import argparse
    ap = argparse.ArgumentParser()
    ap.add_argument('--only')
    ap.add_argument('--props')
    ap.add_argument('--jobs', type=int, default=6)
    ap.add_argument('--list', action='store_true')
    ap.add_argument('--kind')
    a = ap.parse_args(argv)
    corpus = load_corpus()
    if a.only:
        corpus = [e for e in corpus if a.only in e['id']]
    if a.kind:
        corpus = [e for e in corpus if e['kind'] == a.kind]
    if a.props:
        want = set(a.props.split(','))
        corpus = [e for e in corpus if not e.get('props') or want & set(e['props'])]
    if a.list:
        for e in corpus:
            print(e['kind'], e['id'], e.get('props'), e.get('expect'))
        return 0
    manifest = json.load(open(os.path.join(VERIF, 'MANIFEST.json')))
    all_pids = [c['property_id'] for c in manifest['checks']]
    need = sorted({p for e in corpus for p in (e.get('props') or all_pids)})
    base = keys_for(extract.REPO, need)
    results = []
    with concurrent.futures.ThreadPoolExecutor(max_workers=a.jobs) as ex:
        futs = []
        free = list(range(a.jobs))
        import threading
        lock = threading.Lock()

        def work(entry):
            with lock:
                slot = free.pop()
            try:
                return run_entry(slot, entry, base, all_pids)
            finally:
                with lock:
                    free.append(slot)
        for e in corpus:
            futs.append(ex.submit(work, e))
        for fu in futs:
            results.append(fu.result())
    nfail = 0
    for entry, status, why, delta in results:
        flat = [k for v in delta.values() for k in v]
        print('%-7s %-7s %-48s %s' % (status.upper(), entry['kind'], entry['id'], why or (', '.join(flat)[:150])))
        if status == 'fail':
            nfail += 1
    shutil.rmtree(SCRATCH_ROOT, ignore_errors=True)
    # scratch target dirs
    for d in os.listdir(extract.WORK):
        if d.startswith('target-') and d.count('-') >= 2:
            pass
    print('selftest: %d entries, %d ok, %d failed, %d skipped' % (
        len(results), sum(1 for r in results if r[1] == 'ok'), nfail, sum(1 for r in results if r[1] == 'skipped')))
    if nfail:
        print('CHECKER-SELFTEST: %d corpus expectation(s) not met' % nfail)
        return 2
    return 0


if __name__ == '__main__':
    sys.exit(main(sys.argv[1:]))
