#![feature(rustc_private)]
#![allow(deprecated)]
// cfr-facts: rustc driver that serialises the type-checked program (MIR after drop elaboration,
// resolved callees, item metadata, instance-resolved call graph) of every workspace crate it is
// wrapped around into one JSON fact file per crate.  Nothing is executed; the rules in
// /verif/rules query these facts.
extern crate rustc_abi;
extern crate rustc_data_structures;
extern crate rustc_driver;
extern crate rustc_hir;
extern crate rustc_interface;
extern crate rustc_middle;
extern crate rustc_span;

use rustc_driver::Compilation;
use rustc_hir::def::DefKind;
use rustc_hir::intravisit;
use rustc_interface::interface;
use rustc_middle::mir::{
    self, AggregateKind, BinOp, Body, Const, Operand, Place, PlaceElem, Rvalue, StatementKind,
    TerminatorKind,
};
use rustc_middle::ty::{self, EarlyBinder, GenericArgs, Instance, InstanceKind, Ty, TyCtxt, TypingEnv};
use rustc_span::def_id::{DefId, LOCAL_CRATE};
use std::collections::{BTreeMap, HashMap, HashSet, VecDeque};
use std::fmt::Write as _;

fn js(s: &str) -> String {
    let mut o = String::with_capacity(s.len() + 2);
    o.push('"');
    for c in s.chars() {
        match c {
            '"' => o.push_str("\\\""),
            '\\' => o.push_str("\\\\"),
            '\n' => o.push_str("\\n"),
            '\t' => o.push_str("\\t"),
            '\r' => o.push_str("\\r"),
            c if (c as u32) < 0x20 => {
                let _ = write!(o, "\\u{:04x}", c as u32);
            }
            c => o.push(c),
        }
    }
    o.push('"');
    o
}

struct Cx<'tcx> {
    tcx: TyCtxt<'tcx>,
    adts: BTreeMap<String, String>,
}

impl<'tcx> Cx<'tcx> {
    fn adt_of(&mut self, ty: Ty<'tcx>) -> Option<String> {
        let mut t = ty;
        loop {
            match t.kind() {
                ty::Ref(_, inner, _) => t = *inner,
                ty::Adt(def, _) => {
                    let path = self.tcx.def_path_str(def.did());
                    if !self.adts.contains_key(&path) {
                        let mut s = String::from("[");
                        for (i, (vidx, v)) in def.variants().iter_enumerated().enumerate() {
                            if i > 0 {
                                s.push(',');
                            }
                            let discr = if def.is_enum() {
                                def.discriminant_for_variant(self.tcx, vidx).val.to_string()
                            } else {
                                "0".to_string()
                            };
                            let fields: Vec<String> =
                                v.fields.iter().map(|f| js(f.name.as_str())).collect();
                            let ftys: Vec<String> = v
                                .fields
                                .iter()
                                .map(|f| {
                                    js(&self
                                        .tcx
                                        .type_of(f.did)
                                        .instantiate_identity()
                                        .skip_norm_wip()
                                        .to_string())
                                })
                                .collect();
                            let _ = write!(
                                s,
                                "{{\"name\":{},\"discr\":{},\"fields\":[{}],\"ftys\":[{}]}}",
                                js(v.name.as_str()),
                                js(&discr),
                                fields.join(","),
                                ftys.join(",")
                            );
                        }
                        s.push(']');
                        self.adts.insert(path.clone(), s);
                    }
                    return Some(path);
                }
                _ => return None,
            }
        }
    }

    fn place(&mut self, p: &Place<'tcx>, body: &Body<'tcx>) -> String {
        let tcx = self.tcx;
        let mut s = format!("{{\"l\":{},\"p\":[", p.local.as_usize());
        let mut pty = mir::PlaceTy::from_ty(body.local_decls[p.local].ty);
        for (i, elem) in p.projection.iter().enumerate() {
            if i > 0 {
                s.push(',');
            }
            match elem {
                PlaceElem::Deref => s.push_str("{\"k\":\"deref\"}"),
                PlaceElem::Field(f, _) => {
                    let mut name = String::new();
                    if let ty::Adt(def, _) = pty.ty.kind() {
                        let v = match pty.variant_index {
                            Some(v) => v,
                            None => rustc_abi::FIRST_VARIANT,
                        };
                        if def.is_struct() || def.is_enum() || def.is_union() {
                            if let Some(fd) = def.variant(v).fields.get(f) {
                                name = fd.name.to_string();
                            }
                        }
                    }
                    let _ = write!(
                        s,
                        "{{\"k\":\"field\",\"i\":{},\"n\":{}}}",
                        f.as_usize(),
                        js(&name)
                    );
                }
                PlaceElem::Index(l) => {
                    let _ = write!(s, "{{\"k\":\"index\",\"l\":{}}}", l.as_usize());
                }
                PlaceElem::ConstantIndex { offset, min_length, from_end } => {
                    let _ = write!(
                        s,
                        "{{\"k\":\"cidx\",\"off\":{},\"min\":{},\"end\":{}}}",
                        offset, min_length, from_end
                    );
                }
                PlaceElem::Subslice { from, to, from_end } => {
                    let _ = write!(
                        s,
                        "{{\"k\":\"subslice\",\"from\":{},\"to\":{},\"end\":{}}}",
                        from, to, from_end
                    );
                }
                PlaceElem::Downcast(name, v) => {
                    let n = name.map(|n| n.to_string()).unwrap_or_default();
                    let _ = write!(
                        s,
                        "{{\"k\":\"downcast\",\"v\":{},\"n\":{}}}",
                        v.as_usize(),
                        js(&n)
                    );
                }
                _ => s.push_str("{\"k\":\"other\"}"),
            }
            pty = pty.projection_ty(tcx, elem);
        }
        let _ = write!(s, "],\"ty\":{}}}", js(&pty.ty.to_string()));
        s
    }

    fn constant(&mut self, c: &mir::ConstOperand<'tcx>, body_did: DefId) -> String {
        let tcx = self.tcx;
        let ty = c.const_.ty();
        let tys = ty.to_string();
        match ty.kind() {
            ty::FnDef(did, args) => {
                let a: Vec<String> = args.iter().map(|a| js(&a.to_string())).collect();
                return format!(
                    "{{\"k\":\"fn\",\"path\":{},\"args\":[{}]}}",
                    js(&tcx.def_path_str(*did)),
                    a.join(",")
                );
            }
            _ => {}
        }
        match c.const_ {
            Const::Unevaluated(uv, _) => {
                if let Some(p) = uv.promoted {
                    return format!(
                        "{{\"k\":\"promoted\",\"i\":{},\"ty\":{}}}",
                        p.as_usize(),
                        js(&tys)
                    );
                }
                // try to evaluate associated / free constants such as f64::INFINITY
                let env = TypingEnv::post_analysis(tcx, body_did);
                let mut val = String::from("null");
                if ty.is_floating_point() || ty.is_integral() || ty.is_bool() {
                    if let Some(si) = c.const_.try_eval_scalar_int(tcx, env) {
                        let bits = si.to_bits_unchecked();
                        if matches!(ty.kind(), ty::Float(ty::FloatTy::F64)) {
                            val = js(&format!("{:?}", f64::from_bits(bits as u64)));
                        } else {
                            val = js(&bits.to_string());
                        }
                    }
                }
                format!(
                    "{{\"k\":\"uneval\",\"path\":{},\"v\":{},\"ty\":{}}}",
                    js(&tcx.def_path_str(uv.def)),
                    val,
                    js(&tys)
                )
            }
            Const::Ty(_, ct) => match ct.kind() {
                ty::ConstKind::Param(p) => {
                    format!(
                        "{{\"k\":\"cparam\",\"name\":{},\"ty\":{}}}",
                        js(p.name.as_str()),
                        js(&tys)
                    )
                }
                _ => format!(
                    "{{\"k\":\"tyconst\",\"s\":{},\"ty\":{}}}",
                    js(&ct.to_string()),
                    js(&tys)
                ),
            },
            Const::Val(..) => {
                let env = TypingEnv::post_analysis(tcx, body_did);
                let mut val = String::from("null");
                if ty.is_floating_point() || ty.is_integral() || ty.is_bool() || ty.is_char() {
                    if let Some(si) = c.const_.try_eval_scalar_int(tcx, env) {
                        let bits = si.to_bits_unchecked();
                        if matches!(ty.kind(), ty::Float(ty::FloatTy::F64)) {
                            val = js(&format!("{:?}", f64::from_bits(bits as u64)));
                        } else if matches!(ty.kind(), ty::Float(ty::FloatTy::F32)) {
                            val = js(&format!("{:?}", f32::from_bits(bits as u32)));
                        } else if ty.is_signed() {
                            // sign-extend
                            let size = si.size().bits();
                            let v = bits as i128;
                            let sh = 128 - size as u32;
                            val = js(&((v << sh) >> sh).to_string());
                        } else {
                            val = js(&bits.to_string());
                        }
                    }
                }
                format!(
                    "{{\"k\":\"val\",\"v\":{},\"ty\":{},\"s\":{}}}",
                    val,
                    js(&tys),
                    js(&c.const_.to_string())
                )
            }
        }
    }

    fn operand(&mut self, o: &Operand<'tcx>, body: &Body<'tcx>, did: DefId) -> String {
        match o {
            Operand::Copy(p) => format!("{{\"o\":\"copy\",\"pl\":{}}}", self.place(p, body)),
            Operand::Move(p) => format!("{{\"o\":\"move\",\"pl\":{}}}", self.place(p, body)),
            Operand::Constant(c) => format!("{{\"o\":\"const\",\"c\":{}}}", self.constant(c, did)),
            _ => "{\"o\":\"other\"}".to_string(),
        }
    }

    fn rvalue(&mut self, r: &Rvalue<'tcx>, body: &Body<'tcx>, did: DefId) -> String {
        let tcx = self.tcx;
        match r {
            Rvalue::Use(o, _) => format!("{{\"r\":\"use\",\"a\":{}}}", self.operand(o, body, did)),
            Rvalue::Ref(_, bk, p) => format!(
                "{{\"r\":\"ref\",\"mut\":{},\"pl\":{}}}",
                matches!(bk, mir::BorrowKind::Mut { .. }),
                self.place(p, body)
            ),
            Rvalue::RawPtr(_, p) => format!("{{\"r\":\"rawptr\",\"pl\":{}}}", self.place(p, body)),
            Rvalue::CopyForDeref(p) => format!(
                "{{\"r\":\"use\",\"a\":{{\"o\":\"copy\",\"pl\":{}}}}}",
                self.place(p, body)
            ),
            Rvalue::Cast(kind, o, ty) => format!(
                "{{\"r\":\"cast\",\"kind\":{},\"a\":{},\"ty\":{}}}",
                js(&format!("{:?}", kind)),
                self.operand(o, body, did),
                js(&ty.to_string())
            ),
            Rvalue::BinaryOp(op, ab) => {
                let opn = match op {
                    BinOp::AddWithOverflow => "Add".to_string(),
                    BinOp::SubWithOverflow => "Sub".to_string(),
                    BinOp::MulWithOverflow => "Mul".to_string(),
                    o => format!("{:?}", o),
                };
                format!(
                    "{{\"r\":\"bin\",\"op\":{},\"ovf\":{},\"a\":{},\"b\":{}}}",
                    js(&opn),
                    matches!(
                        op,
                        BinOp::AddWithOverflow | BinOp::SubWithOverflow | BinOp::MulWithOverflow
                    ),
                    self.operand(&ab.0, body, did),
                    self.operand(&ab.1, body, did)
                )
            }
            Rvalue::UnaryOp(op, o) => format!(
                "{{\"r\":\"un\",\"op\":{},\"a\":{}}}",
                js(&format!("{:?}", op)),
                self.operand(o, body, did)
            ),
            Rvalue::Discriminant(p) => {
                let pty = p.ty(body, tcx).ty;
                let adt = self.adt_of(pty).unwrap_or_default();
                format!(
                    "{{\"r\":\"discr\",\"pl\":{},\"adt\":{}}}",
                    self.place(p, body),
                    js(&adt)
                )
            }
            Rvalue::Aggregate(kind, ops) => {
                let opsj: Vec<String> = ops.iter().map(|o| self.operand(o, body, did)).collect();
                let k = match &**kind {
                    AggregateKind::Array(_) => "{\"k\":\"array\"}".to_string(),
                    AggregateKind::Tuple => "{\"k\":\"tuple\"}".to_string(),
                    AggregateKind::Adt(adid, vidx, _, _, _) => {
                        let def = tcx.adt_def(*adid);
                        let v = def.variant(*vidx);
                        let fields: Vec<String> =
                            v.fields.iter().map(|f| js(f.name.as_str())).collect();
                        format!(
                            "{{\"k\":\"adt\",\"path\":{},\"variant\":{},\"fields\":[{}]}}",
                            js(&tcx.def_path_str(*adid)),
                            js(v.name.as_str()),
                            fields.join(",")
                        )
                    }
                    AggregateKind::Closure(cdid, _) => {
                        format!(
                            "{{\"k\":\"closure\",\"path\":{}}}",
                            js(&tcx.def_path_str(*cdid))
                        )
                    }
                    _ => "{\"k\":\"other\"}".to_string(),
                };
                format!("{{\"r\":\"agg\",\"kind\":{},\"ops\":[{}]}}", k, opsj.join(","))
            }
            Rvalue::Repeat(o, n) => format!(
                "{{\"r\":\"repeat\",\"a\":{},\"n\":{}}}",
                self.operand(o, body, did),
                js(&n.to_string())
            ),
            _ => format!("{{\"r\":\"other\",\"s\":{}}}", js(&format!("{:?}", r))),
        }
    }

    fn callee(&mut self, func: &Operand<'tcx>, body: &Body<'tcx>, did: DefId) -> String {
        let tcx = self.tcx;
        let fty = func.ty(body, tcx);
        match fty.kind() {
            ty::FnDef(cdid, args) => {
                let env = TypingEnv::post_analysis(tcx, did);
                let a: Vec<String> = args.iter().map(|a| js(&a.to_string())).collect();
                let (resolved, rpath, rdid) = match Instance::try_resolve(tcx, env, *cdid, args) {
                    Ok(Some(i)) => (true, tcx.def_path_str(i.def_id()), i.def_id()),
                    _ => (false, String::new(), *cdid),
                };
                let mut trait_s = String::new();
                let mut self_s = String::new();
                if let Some(t) = tcx.trait_of_assoc(*cdid) {
                    trait_s = tcx.def_path_str(t);
                    if let Some(st) = args.types().next() {
                        self_s = st.to_string();
                    }
                }
                if resolved {
                    if let Some(impl_did) = tcx.impl_of_assoc(rdid) {
                        self_s = tcx
                            .type_of(impl_did)
                            .instantiate_identity()
                            .skip_norm_wip()
                            .to_string();
                    }
                }
                format!(
                    "{{\"def\":{},\"args\":[{}],\"resolved\":{},\"path\":{},\"trait\":{},\"self\":{},\"local\":{},\"krate\":{}}}",
                    js(&tcx.def_path_str(*cdid)),
                    a.join(","),
                    resolved,
                    js(&rpath),
                    js(&trait_s),
                    js(&self_s),
                    rdid.is_local(),
                    js(tcx.crate_name(rdid.krate).as_str())
                )
            }
            _ => format!(
                "{{\"def\":\"\",\"indirect\":{},\"ty\":{}}}",
                self.operand(func, body, did),
                js(&fty.to_string())
            ),
        }
    }

    fn body(&mut self, did: DefId, body: &Body<'tcx>, name: &str) -> String {
        let tcx = self.tcx;
        let sm = tcx.sess.source_map();
        let mut s = String::new();
        let _ = write!(
            s,
            "{{\"name\":{},\"span\":{},\"argc\":{},",
            js(name),
            js(&sm.span_to_diagnostic_string(body.span)),
            body.arg_count
        );
        s.push_str("\"locals\":[");
        for (i, (_, d)) in body.local_decls.iter_enumerated().enumerate() {
            if i > 0 {
                s.push(',');
            }
            let adt = self.adt_of(d.ty).unwrap_or_default();
            let _ = write!(
                s,
                "{{\"ty\":{},\"adt\":{}}}",
                js(&d.ty.to_string()),
                js(&adt)
            );
        }
        s.push_str("],\"debug\":[");
        for (i, v) in body.var_debug_info.iter().enumerate() {
            if i > 0 {
                s.push(',');
            }
            let val = match &v.value {
                mir::VarDebugInfoContents::Place(p) => self.place(p, body),
                mir::VarDebugInfoContents::Const(c) => {
                    format!("{{\"const\":{}}}", self.constant(c, did))
                }
            };
            let _ = write!(s, "{{\"name\":{},\"v\":{}}}", js(v.name.as_str()), val);
        }
        s.push_str("],\"blocks\":[");
        for (bi, (_bb, data)) in body.basic_blocks.iter_enumerated().enumerate() {
            if bi > 0 {
                s.push(',');
            }
            let _ = write!(s, "{{\"cleanup\":{},\"stmts\":[", data.is_cleanup);
            let mut first = true;
            for st in &data.statements {
                let j = match &st.kind {
                    StatementKind::Assign(b) => {
                        let (p, r) = &**b;
                        Some(format!(
                            "{{\"s\":\"assign\",\"pl\":{},\"rv\":{},\"line\":{},\"exp\":{}}}",
                            self.place(p, body),
                            self.rvalue(r, body, did),
                            sm.lookup_char_pos(st.source_info.span.lo()).line,
                            st.source_info.span.from_expansion()
                        ))
                    }
                    StatementKind::SetDiscriminant { place, variant_index } => Some(format!(
                        "{{\"s\":\"setdiscr\",\"pl\":{},\"v\":{},\"line\":{}}}",
                        self.place(place, body),
                        variant_index.as_usize(),
                        sm.lookup_char_pos(st.source_info.span.lo()).line
                    )),
                    _ => None,
                };
                if let Some(j) = j {
                    if !first {
                        s.push(',');
                    }
                    first = false;
                    s.push_str(&j);
                }
            }
            s.push_str("],\"term\":");
            let term = data.terminator();
            let line = sm.lookup_char_pos(term.source_info.span.lo()).line;
            let exp = term.source_info.span.from_expansion();
            let t = match &term.kind {
                TerminatorKind::Goto { target } => {
                    format!("{{\"t\":\"goto\",\"to\":{}}}", target.as_usize())
                }
                TerminatorKind::SwitchInt { discr, targets } => {
                    let vs: Vec<String> = targets
                        .iter()
                        .map(|(v, b)| format!("[{},{}]", js(&v.to_string()), b.as_usize()))
                        .collect();
                    format!(
                        "{{\"t\":\"switch\",\"d\":{},\"targets\":[{}],\"otherwise\":{},\"line\":{},\"exp\":{}}}",
                        self.operand(discr, body, did),
                        vs.join(","),
                        targets.otherwise().as_usize(),
                        line,
                        exp
                    )
                }
                TerminatorKind::Return => "{\"t\":\"return\"}".to_string(),
                TerminatorKind::Unreachable => "{\"t\":\"unreachable\"}".to_string(),
                TerminatorKind::UnwindResume => "{\"t\":\"resume\"}".to_string(),
                TerminatorKind::Drop { place, target, .. } => format!(
                    "{{\"t\":\"drop\",\"pl\":{},\"to\":{},\"line\":{}}}",
                    self.place(place, body),
                    target.as_usize(),
                    line
                ),
                TerminatorKind::Call { func, args, destination, target, .. } => {
                    let aj: Vec<String> =
                        args.iter().map(|a| self.operand(&a.node, body, did)).collect();
                    format!(
                        "{{\"t\":\"call\",\"callee\":{},\"args\":[{}],\"dest\":{},\"to\":{},\"line\":{},\"exp\":{}}}",
                        self.callee(func, body, did),
                        aj.join(","),
                        self.place(destination, body),
                        target.map(|t| t.as_usize() as i64).unwrap_or(-1),
                        line,
                        exp
                    )
                }
                TerminatorKind::Assert { cond, expected, target, msg, .. } => format!(
                    "{{\"t\":\"assert\",\"cond\":{},\"expected\":{},\"to\":{},\"msg\":{},\"line\":{}}}",
                    self.operand(cond, body, did),
                    expected,
                    target.as_usize(),
                    js(&format!("{:?}", msg).chars().take(60).collect::<String>()),
                    line
                ),
                TerminatorKind::FalseEdge { real_target, .. } => {
                    format!("{{\"t\":\"goto\",\"to\":{}}}", real_target.as_usize())
                }
                TerminatorKind::FalseUnwind { real_target, .. } => {
                    format!("{{\"t\":\"goto\",\"to\":{}}}", real_target.as_usize())
                }
                k => format!(
                    "{{\"t\":\"other\",\"s\":{}}}",
                    js(&format!("{:?}", k).chars().take(80).collect::<String>())
                ),
            };
            s.push_str(&t);
            s.push('}');
        }
        s.push_str("]}");
        s
    }
}

// ---------------------------------------------------------------------------------------------
// unsafe inventory (HIR)

struct UnsafeV<'tcx> {
    tcx: TyCtxt<'tcx>,
    found: Vec<String>,
}

impl<'tcx> intravisit::Visitor<'tcx> for UnsafeV<'tcx> {
    type NestedFilter = rustc_middle::hir::nested_filter::All;

    fn maybe_tcx(&mut self) -> Self::MaybeTyCtxt {
        self.tcx
    }

    fn visit_block(&mut self, b: &'tcx rustc_hir::Block<'tcx>) {
        if let rustc_hir::BlockCheckMode::UnsafeBlock(src) = b.rules {
            if matches!(src, rustc_hir::UnsafeSource::UserProvided) && !b.span.from_expansion() {
                let sm = self.tcx.sess.source_map();
                self.found
                    .push(format!("block {}", sm.span_to_diagnostic_string(b.span)));
            }
        }
        intravisit::walk_block(self, b);
    }

    fn visit_item(&mut self, it: &'tcx rustc_hir::Item<'tcx>) {
        let sm = self.tcx.sess.source_map();
        if !it.span.from_expansion() {
            match &it.kind {
                rustc_hir::ItemKind::Impl(imp) => {
                    if let Some(tr) = imp.of_trait {
                        if !tr.safety.is_safe() {
                            self.found
                                .push(format!("impl {}", sm.span_to_diagnostic_string(it.span)));
                        }
                    }
                }
                rustc_hir::ItemKind::Fn { sig, .. } => {
                    if sig.header.is_unsafe() {
                        self.found
                            .push(format!("fn {}", sm.span_to_diagnostic_string(it.span)));
                    }
                }
                _ => {}
            }
        }
        intravisit::walk_item(self, it);
    }

    fn visit_impl_item(&mut self, it: &'tcx rustc_hir::ImplItem<'tcx>) {
        if let rustc_hir::ImplItemKind::Fn(sig, _) = &it.kind {
            if sig.header.is_unsafe() && !it.span.from_expansion() {
                let sm = self.tcx.sess.source_map();
                self.found
                    .push(format!("fn {}", sm.span_to_diagnostic_string(it.span)));
            }
        }
        intravisit::walk_impl_item(self, it);
    }
}

// ---------------------------------------------------------------------------------------------
// instance-resolved call graph

struct Graph<'tcx> {
    nodes: Vec<String>,
    index: HashMap<Instance<'tcx>, usize>,
    sindex: HashMap<String, usize>,
    edges: Vec<(usize, usize, usize, u8)>, // from, to, line, kind (0 call, 1 passes fn/closure, 2 unresolved)
    leaves: HashSet<usize>,
}

impl<'tcx> Graph<'tcx> {
    // nodes are keyed by instance identity: the printed form of a closure type omits its parent's
    // generic arguments, so two different instances can print alike
    fn inode(&mut self, tcx: TyCtxt<'tcx>, inst: Instance<'tcx>) -> usize {
        if let Some(i) = self.index.get(&inst) {
            return *i;
        }
        let i = self.nodes.len();
        self.nodes.push(inst_key(tcx, inst));
        self.index.insert(inst, i);
        i
    }

    fn node(&mut self, key: String) -> usize {
        if let Some(i) = self.sindex.get(&key) {
            return *i;
        }
        let i = self.nodes.len();
        self.nodes.push(key.clone());
        self.sindex.insert(key, i);
        i
    }
}

fn inst_key<'tcx>(tcx: TyCtxt<'tcx>, inst: Instance<'tcx>) -> String {
    let kind = match inst.def {
        InstanceKind::Item(_) => "",
        InstanceKind::Intrinsic(_) => "intrinsic:",
        InstanceKind::Virtual(..) => "virtual:",
        InstanceKind::ClosureOnceShim { .. } => "once-shim:",
        InstanceKind::FnPtrShim(..) => "fnptr-shim:",
        InstanceKind::DropGlue(..) => "drop-glue:",
        InstanceKind::CloneShim(..) => "clone-shim:",
        _ => "shim:",
    };
    format!(
        "{}{}@{}|{}",
        kind,
        tcx.crate_name(inst.def_id().krate),
        tcx.def_path_str(inst.def_id()),
        inst.args.iter().map(|a| a.to_string()).collect::<Vec<_>>().join(",")
    )
}

fn walk_instances<'tcx>(
    tcx: TyCtxt<'tcx>,
    root_did: DefId,
    g: &mut Graph<'tcx>,
) -> (usize, Vec<usize>) {
    let env = TypingEnv::post_analysis(tcx, root_did);
    let root = Instance::new_raw(root_did, GenericArgs::identity_for_item(tcx, root_did));
    let rid = g.inode(tcx, root);
    let mut reached = vec![rid];
    let mut seen: HashSet<Instance<'tcx>> = HashSet::new();
    let mut work: VecDeque<Instance<'tcx>> = VecDeque::new();
    seen.insert(root);
    work.push_back(root);
    while let Some(inst) = work.pop_front() {
        let from = g.inode(tcx, inst);
        match inst.def {
            InstanceKind::Intrinsic(_) | InstanceKind::Virtual(..) => {
                g.leaves.insert(from);
                continue;
            }
            InstanceKind::Item(did) => {
                if !tcx.is_mir_available(did) {
                    g.leaves.insert(from);
                    continue;
                }
            }
            _ => {}
        }
        let body = tcx.instance_mir(inst.def);
        let sm = tcx.sess.source_map();
        let push = |g: &mut Graph<'tcx>,
                        work: &mut VecDeque<Instance<'tcx>>,
                        seen: &mut HashSet<Instance<'tcx>>,
                        reached: &mut Vec<usize>,
                        callee: Instance<'tcx>,
                        line: usize,
                        kind: u8| {
            let to = g.inode(tcx, callee);
            g.edges.push((from, to, line, kind));
            if seen.insert(callee) {
                reached.push(to);
                work.push_back(callee);
            }
        };
        let subst = |t: Ty<'tcx>| -> Option<Ty<'tcx>> {
            inst.try_instantiate_mir_and_normalize_erasing_regions(tcx, env, EarlyBinder::bind(t))
                .ok()
        };
        for data in body.basic_blocks.iter() {
            // closures and fn items materialised as values
            for st in &data.statements {
                if let StatementKind::Assign(b) = &st.kind {
                    let line = sm.lookup_char_pos(st.source_info.span.lo()).line;
                    match &b.1 {
                        Rvalue::Aggregate(kind, _) => {
                            if let AggregateKind::Closure(cdid, cargs) = &**kind {
                                let cty = Ty::new_closure(tcx, *cdid, cargs);
                                if let Some(cty) = subst(cty) {
                                    if let ty::Closure(cd, ca) = cty.kind() {
                                        let ci = Instance::new_raw(*cd, ca);
                                        push(g, &mut work, &mut seen, &mut reached, ci, line, 1);
                                    }
                                }
                            }
                        }
                        Rvalue::Cast(_, op, _) | Rvalue::Use(op, _) => {
                            let oty = op.ty(body, tcx);
                            if let Some(oty) = subst(oty) {
                                if let ty::FnDef(fd, fa) = oty.kind() {
                                    if let Ok(Some(ci)) = Instance::try_resolve(tcx, env, *fd, fa) {
                                        push(g, &mut work, &mut seen, &mut reached, ci, line, 1);
                                    }
                                }
                            }
                        }
                        _ => {}
                    }
                }
            }
            let term = data.terminator();
            if let TerminatorKind::Call { func, args, .. } = &term.kind {
                let line = sm.lookup_char_pos(term.source_info.span.lo()).line;
                let fty = func.ty(body, tcx);
                if let Some(fty) = subst(fty) {
                    match fty.kind() {
                        ty::FnDef(cd, ca) => match Instance::try_resolve(tcx, env, *cd, ca) {
                            Ok(Some(ci)) => {
                                push(g, &mut work, &mut seen, &mut reached, ci, line, 0)
                            }
                            _ => {
                                let to = g.node(format!(
                                    "unresolved:{}|{}",
                                    tcx.def_path_str(*cd),
                                    ca.iter().map(|a| a.to_string()).collect::<Vec<_>>().join(",")
                                ));
                                g.edges.push((from, to, line, 2));
                                g.leaves.insert(to);
                                reached.push(to);
                            }
                        },
                        _ => {
                            let to = g.node(format!("indirect:{}", fty));
                            g.edges.push((from, to, line, 2));
                            g.leaves.insert(to);
                        }
                    }
                }
                for a in args.iter() {
                    let aty = a.node.ty(body, tcx);
                    if let Some(aty) = subst(aty) {
                        match aty.kind() {
                            ty::FnDef(fd, fa) => {
                                if let Ok(Some(ci)) = Instance::try_resolve(tcx, env, *fd, fa) {
                                    push(g, &mut work, &mut seen, &mut reached, ci, line, 1);
                                }
                            }
                            ty::Closure(cd, ca) => {
                                let ci = Instance::new_raw(*cd, ca);
                                push(g, &mut work, &mut seen, &mut reached, ci, line, 1);
                            }
                            _ => {}
                        }
                    }
                }
            }
        }
    }
    (rid, reached)
}

struct Cb;
impl rustc_driver::Callbacks for Cb {
    fn after_analysis<'tcx>(&mut self, _c: &interface::Compiler, tcx: TyCtxt<'tcx>) -> Compilation {
        let krate = tcx.crate_name(LOCAL_CRATE).to_string();
        if std::env::var("CARGO_PRIMARY_PACKAGE").is_err() {
            return Compilation::Continue;
        }
        let is_bin = tcx.entry_fn(()).is_some();
        let is_test = tcx.sess.opts.test;
        let mut cx = Cx { tcx, adts: BTreeMap::new() };
        let mut fns: Vec<String> = Vec::new();
        let mut root_dids: Vec<(String, DefId)> = Vec::new();
        let roots_env = std::env::var("CFR_ROOTS").unwrap_or_default();
        let root_pats: Vec<&str> = roots_env.split(',').filter(|s| !s.is_empty()).collect();
        for ldid in tcx.mir_keys(()) {
            let did = ldid.to_def_id();
            let kind = tcx.def_kind(did);
            if !matches!(kind, DefKind::Fn | DefKind::AssocFn | DefKind::Closure) {
                continue;
            }
            let path = tcx.def_path_str(did);
            let body = tcx.optimized_mir(did);
            let mut f = cx.body(did, body, &path);
            let promoted = tcx.promoted_mir(did);
            let mut ps: Vec<String> = Vec::new();
            for (i, pb) in promoted.iter_enumerated() {
                ps.push(cx.body(did, pb, &format!("{}::promoted[{}]", path, i.as_usize())));
            }
            let mut extra = String::new();
            if matches!(kind, DefKind::AssocFn) {
                if let Some(impl_did) = tcx.impl_of_assoc(did) {
                    let self_ty =
                        tcx.type_of(impl_did).instantiate_identity().skip_norm_wip().to_string();
                    let tr = tcx
                        .impl_opt_trait_ref(impl_did)
                        .map(|t| tcx.def_path_str(t.skip_binder().def_id))
                        .unwrap_or_default();
                    let _ = write!(
                        extra,
                        ",\"impl_self\":{},\"impl_trait\":{}",
                        js(&self_ty),
                        js(&tr)
                    );
                }
            }
            if matches!(kind, DefKind::Fn | DefKind::AssocFn) {
                let vis = tcx.visibility(did);
                let _ = write!(extra, ",\"vis\":{}", js(&format!("{:?}", vis)));
                // generic predicates (own + parent impl) as printed strings
                let preds = tcx.predicates_of(did).instantiate_identity(tcx);
                let ps: Vec<String> =
                    preds.predicates.iter().map(|p| js(&format!("{:?}", p))).collect();
                let _ = write!(extra, ",\"preds\":[{}]", ps.join(","));
                let sig = tcx.fn_sig(did).instantiate_identity().skip_norm_wip();
                let _ = write!(extra, ",\"sig\":{}", js(&sig.to_string()));
                for pat in &root_pats {
                    if path.ends_with(pat) {
                        root_dids.push((path.clone(), did));
                    }
                }
            }
            let doc: String = tcx
                .get_all_attrs(did)
                .iter()
                .filter_map(|a| a.doc_str().map(|s| s.to_string()))
                .collect::<Vec<_>>()
                .join("\n");
            let _ = write!(extra, ",\"doc\":{},\"kind\":{}", js(&doc), js(&format!("{:?}", kind)));
            f.pop();
            let _ = write!(f, ",\"promoted\":[{}]{}}}", ps.join(","), extra);
            fns.push(f);
        }
        // unsafe inventory
        let mut uv = UnsafeV { tcx, found: Vec::new() };
        tcx.hir_walk_toplevel_module(&mut uv);
        let unsafe_j: Vec<String> = uv.found.iter().map(|s| js(s)).collect();
        // trait impls of interest: all local impls with trait path and self type
        let mut impls: Vec<String> = Vec::new();
        for id in tcx.hir_crate_items(()).definitions() {
            let did = id.to_def_id();
            if let DefKind::Impl { of_trait } = tcx.def_kind(did) {
                let self_ty = tcx.type_of(did).instantiate_identity().skip_norm_wip().to_string();
                let tr = if of_trait {
                    tcx.impl_opt_trait_ref(did)
                        .map(|t| tcx.def_path_str(t.skip_binder().def_id))
                        .unwrap_or_default()
                } else {
                    String::new()
                };
                let preds = tcx.predicates_of(did).instantiate_identity(tcx);
                let ps: Vec<String> =
                    preds.predicates.iter().map(|p| js(&format!("{:?}", p))).collect();
                let sm = tcx.sess.source_map();
                impls.push(format!(
                    "{{\"self\":{},\"trait\":{},\"preds\":[{}],\"span\":{}}}",
                    js(&self_ty),
                    js(&tr),
                    ps.join(","),
                    js(&sm.span_to_diagnostic_string(tcx.def_span(did)))
                ));
            }
        }
        // instance graph
        let mut g = Graph {
            nodes: Vec::new(),
            index: HashMap::new(),
            sindex: HashMap::new(),
            edges: Vec::new(),
            leaves: HashSet::new(),
        };
        let mut roots_j: Vec<String> = Vec::new();
        for (path, did) in &root_dids {
            let (rid, reached) = walk_instances(tcx, *did, &mut g);
            let r: Vec<String> = reached.iter().map(|i| i.to_string()).collect();
            roots_j.push(format!(
                "{{\"path\":{},\"node\":{},\"reached\":[{}]}}",
                js(path),
                rid,
                r.join(",")
            ));
        }
        let nodes_j: Vec<String> = g.nodes.iter().map(|s| js(s)).collect();
        let edges_j: Vec<String> = g
            .edges
            .iter()
            .map(|(a, b, l, k)| format!("[{},{},{},{}]", a, b, l, k))
            .collect();
        let mut leaves: Vec<usize> = g.leaves.iter().copied().collect();
        leaves.sort();
        let leaves_j: Vec<String> = leaves.iter().map(|i| i.to_string()).collect();

        let adts: Vec<String> = cx.adts.iter().map(|(k, v)| format!("{}:{}", js(k), v)).collect();
        let root_file = tcx
            .sess
            .local_crate_source_file()
            .map(|p| format!("{:?}", p))
            .unwrap_or_default();
        let out = format!(
            "{{\"crate\":{},\"root\":{},\"is_bin\":{},\"is_test\":{},\"fns\":[{}],\"adts\":{{{}}},\"unsafe\":[{}],\"impls\":[{}],\"graph\":{{\"nodes\":[{}],\"edges\":[{}],\"leaves\":[{}],\"roots\":[{}]}}}}",
            js(&krate),
            js(&root_file),
            is_bin,
            is_test,
            fns.join(","),
            adts.join(","),
            unsafe_j.join(","),
            impls.join(","),
            nodes_j.join(","),
            edges_j.join(","),
            leaves_j.join(","),
            roots_j.join(",")
        );
        let dir = std::env::var("CFR_FACTS_DIR").unwrap_or_else(|_| "/tmp".to_string());
        let file = format!(
            "{}/facts-{}-{}{}-{}.json",
            dir,
            krate,
            if is_bin { "bin" } else { "lib" },
            if is_test { "-test" } else { "" },
            std::process::id()
        );
        std::fs::write(&file, out).unwrap();
        eprintln!("FACTS {} fns={} roots={}", file, fns.len(), root_dids.len());
        Compilation::Continue
    }
}

fn main() {
    let mut args: Vec<String> = std::env::args().collect();
    args.remove(1);
    rustc_driver::run_compiler(&args, &mut Cb);
}
